/-
C17 helper development (core only): algebra of the transformation matrices.
-/
import WpModel.Model.Transform

namespace Wp.Transform
open Wp Wp.Rounded

theorem M.ext' {p q : M} (ha : p.a = q.a) (hb : p.b = q.b) (hc : p.c = q.c) (hd : p.d = q.d)
    (he : p.e = q.e) (hf : p.f = q.f) : p = q := by
  cases p; cases q; simp_all

theorem M.mul_assoc (p q r : M) : (p.mul q).mul r = p.mul (q.mul r) := by
  apply M.ext' <;> simp only [M.mul] <;> grind

theorem M.det_mul (p q : M) : (p.mul q).det = p.det * q.det := by
  simp only [M.det, M.mul]; grind

/-- Applying a product is applying the factors left to right. -/
theorem M.apply_mul (p q : M) (x y : Rat) :
    (p.mul q).apply x y = q.apply (p.apply x y).1 (p.apply x y).2 := by
  simp only [M.apply, M.mul]
  apply Prod.ext <;> simp only <;> grind

/-- The linear part (a, b, c, d) of the fold does not depend on the translations. -/
def Fn.isLinear : Fn → Bool
  | .scale _ _ => true
  | .linear _ _ _ _ => true
  | .matrix _ _ _ _ e f => e == 0 && f == 0
  | .translate _ _ => false

def Fn.isTranslate : Fn → Bool
  | .translate _ _ => true
  | _ => false

theorem apply_zero_of_linear (bw bh : Rat) (fn : Fn) (h : fn.isLinear = true) :
    (fnMatrix bw bh fn).apply 0 0 = (0, 0) := by
  cases fn with
  | scale sx sy => simp [fnMatrix, M.apply] <;> grind
  | linear a b c d => simp [fnMatrix, M.apply] <;> grind
  | matrix a b c d e f =>
    simp only [Fn.isLinear, Bool.and_eq_true, beq_iff_eq] at h
    simp [fnMatrix, M.apply, h.1, h.2] <;> grind
  | translate x y => simp [Fn.isLinear] at h

theorem fold_apply_zero (bw bh : Rat) (fns : List Fn) (m : M) (h : ∀ fn ∈ fns, fn.isLinear = true) :
    (fns.foldl (fun m fn => (fnMatrix bw bh fn).mul m) m).apply 0 0 = m.apply 0 0 := by
  induction fns generalizing m with
  | nil => rfl
  | cons fn rest ih =>
    simp only [List.foldl_cons]
    rw [ih _ (fun g hg => h g (List.mem_cons_of_mem _ hg)), M.apply_mul,
      apply_zero_of_linear bw bh fn (h fn List.mem_cons_self)]

/-- Sum of the translations of a list of `translate` functions. -/
def shift (bw bh : Rat) : List Fn → Rat × Rat
  | [] => (0, 0)
  | .translate x y :: rest => (percentage x bw + (shift bw bh rest).1, percentage y bh + (shift bw bh rest).2)
  | _ :: rest => shift bw bh rest

theorem fold_translate (bw bh : Rat) (fns : List Fn) (x y : Rat) (h : ∀ fn ∈ fns, fn.isTranslate = true) :
    fns.foldl (fun m fn => (fnMatrix bw bh fn).mul m) (M.translation x y) =
      M.translation (x + (shift bw bh fns).1) (y + (shift bw bh fns).2) := by
  induction fns generalizing x y with
  | nil => simp [shift, M.translation] <;> grind
  | cons fn rest ih =>
    cases fn with
    | translate tx ty =>
      simp only [List.foldl_cons]
      have : (fnMatrix bw bh (.translate tx ty)).mul (M.translation x y) =
          M.translation (x + percentage tx bw) (y + percentage ty bh) := by
        apply M.ext' <;> simp [fnMatrix, M.mul, M.translation] <;> grind
      rw [this, ih _ _ (fun g hg => h g (List.mem_cons_of_mem _ hg))]
      apply M.ext' <;> simp [shift, M.translation] <;> grind
    | scale _ _ => have := h _ List.mem_cons_self; simp [Fn.isTranslate] at this
    | matrix _ _ _ _ _ _ => have := h _ List.mem_cons_self; simp [Fn.isTranslate] at this
    | linear _ _ _ _ => have := h _ List.mem_cons_self; simp [Fn.isTranslate] at this

theorem fold_det (bw bh : Rat) (fns : List Fn) (m : M) :
    (fns.foldl (fun m fn => (fnMatrix bw bh fn).mul m) m).det =
      fns.foldl (fun p fn => (fnMatrix bw bh fn).det * p) m.det := by
  induction fns generalizing m with
  | nil => rfl
  | cons fn rest ih => simp only [List.foldl_cons, ih, M.det_mul]

end Wp.Transform
