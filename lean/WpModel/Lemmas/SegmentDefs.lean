/-
Definitions for the block-level conservation / progress theorems of PM (C01, C02, C03):
the lines a fragment shows, the lines a source box holds at / after a resume position, a position
measure, and the structural relation "this fragment is the complete rest of that box".
-/
import WpModel.Model.Paginate

namespace Wp.PM
open Wp

/-! ### lines of fragments and boxes -/

mutual
/-- (paragraph id, line number) of every line shown by a fragment, in tree order. -/
def fragLines : Frag → List (Nat × Nat)
  | .para id _ _ _ _ lines => lines.map (fun l => (id, l.1))
  | .block _ _ _ _ kids => fragLinesList kids
def fragLinesList : List Frag → List (Nat × Nat)
  | [] => []
  | f :: fs => fragLines f ++ fragLinesList fs
end

/-! `Frag.cutEnd` (the bottom decoration removed by `find_earlier_page_break`) changes the used geometry only. -/

@[simp] theorem fragLines_cutEnd (f : Frag) : fragLines f.cutEnd = fragLines f := by
  cases f <;> simp [Frag.cutEnd, fragLines]

@[simp] theorem idx_cutEnd (f : Frag) : f.cutEnd.idx = f.idx := by
  cases f <;> rfl

@[simp] theorem st_cutEnd (f : Frag) : f.cutEnd.st = f.st := by
  cases f <;> rfl

@[simp] theorem fragAfterChain_cutEnd (f : Frag) : fragAfterChain f.cutEnd = fragAfterChain f := by
  cases f <;> simp [Frag.cutEnd, fragAfterChain]

@[simp] theorem fragBeforeChain_cutEnd (f : Frag) : fragBeforeChain f.cutEnd = fragBeforeChain f := by
  cases f <;> simp [Frag.cutEnd, fragBeforeChain]

@[simp] theorem fragPageEnd_cutEnd (f : Frag) : fragPageEnd f.cutEnd = fragPageEnd f := by
  cases f <;> simp [Frag.cutEnd, fragPageEnd]

/-- First line of a paragraph designated by the `skip_stack` handed to the paragraph's box. -/
def paraStart (σ : Option Resume) : Nat := skipLine (subSkipOf σ)

/-- Lines `k … n-1` of paragraph `id`. -/
def paraLines (id k n : Nat) : List (Nat × Nat) := (List.range' k (n - k)).map (fun i => (id, i))

mutual
/-- Lines of the box at / after a resume position (`none` = all of them), read exactly as
`block_container_layout` reads its `skip_stack`: a paragraph resumed with `node _ (some (line k))` has
lines `k … n-1`; a block resumed with `node i sub` has `linesFrom kids[i] sub` followed by all lines of
the later children. -/
def linesFrom : PBox → Option Resume → List (Nat × Nat)
  | .para id n _ _, σ => paraLines id (paraStart σ) n
  | .block _ _ kids, σ => linesFromKids kids (skipIdxOf σ) (subSkipOf σ)
/-- Lines of the children from child `k` on, child `k` being resumed at `sub`. -/
def linesFromKids : List PBox → Nat → Option Resume → List (Nat × Nat)
  | [], _, _ => []
  | b :: bs, 0, sub => linesFrom b sub ++ linesFromKids bs 0 none
  | _ :: bs, k + 1, sub => linesFromKids bs k sub
end

/-- What is left after a layout returned `resume` (`none` = the box is finished). -/
def restOut (box : PBox) : Option Resume → List (Nat × Nat)
  | none => []
  | some r => linesFrom box (some r)

/-! ### position measure -/

mutual
/-- Units of a box: one per line, one per box. -/
def size : PBox → Nat
  | .para _ n _ _ => n + 1
  | .block _ _ kids => sizeList kids + 1
def sizeList : List PBox → Nat
  | [] => 0
  | b :: bs => size b + sizeList bs
end

mutual
/-- Units consumed before a resume position. -/
def pos : PBox → Option Resume → Nat
  | .para _ n _ _, σ => min (paraStart σ) n
  | .block _ _ kids, σ => posKids kids (skipIdxOf σ) (subSkipOf σ)
def posKids : List PBox → Nat → Option Resume → Nat
  | [], _, _ => 0
  | b :: _, 0, sub => pos b sub
  | b :: bs, k + 1, sub => size b + posKids bs k sub
end

/-! ### hypotheses -/

mutual
/-- No box of the subtree has a fixed `height` (with a fixed height `block_container_layout`
deliberately forgets overflowing children: `forgetIfFixed`). -/
def NoFixedHeight : PBox → Prop
  | .para _ _ _ st => st.height = none
  | .block _ st kids => st.height = none ∧ NoFixedHeightList kids
def NoFixedHeightList : List PBox → Prop
  | [] => True
  | b :: bs => NoFixedHeight b ∧ NoFixedHeightList bs
end

mutual
/-- `orphans` and `widows` of every paragraph are at least 1 (what the CSS validator accepts). -/
def WellFormed : PBox → Prop
  | .para _ _ _ st => 1 ≤ st.orphans ∧ 1 ≤ st.widows
  | .block _ _ kids => WellFormedList kids
def WellFormedList : List PBox → Prop
  | [] => True
  | b :: bs => WellFormed b ∧ WellFormedList bs
end

mutual
/-- `NoFixedHeight ∧ WellFormed`, in one recursion (used by the proofs). -/
def Good : PBox → Prop
  | .para _ _ _ st => st.height = none ∧ 1 ≤ st.orphans ∧ 1 ≤ st.widows
  | .block _ st kids => st.height = none ∧ GoodList kids
def GoodList : List PBox → Prop
  | [] => True
  | b :: bs => Good b ∧ GoodList bs
end

mutual
theorem good_of : (b : PBox) → NoFixedHeight b → WellFormed b → Good b
  | .para _ _ _ _ => by
    intro h1 h2
    unfold NoFixedHeight at h1; unfold WellFormed at h2; unfold Good
    exact ⟨h1, h2⟩
  | .block _ _ kids => by
    intro h1 h2
    unfold NoFixedHeight at h1; unfold WellFormed at h2; unfold Good
    exact ⟨h1.1, goodList_of kids h1.2 h2⟩
theorem goodList_of : (bs : List PBox) → NoFixedHeightList bs → WellFormedList bs → GoodList bs
  | [] => by intro _ _; unfold GoodList; trivial
  | b :: bs => by
    intro h1 h2
    unfold NoFixedHeightList at h1; unfold WellFormedList at h2; unfold GoodList
    exact ⟨good_of b h1.1 h2.1, goodList_of bs h1.2 h2.2⟩
end

/-! ### "the fragment is the complete rest of the box" -/

mutual
/-- `Full f b σ`: `f` is what the layout of `b` resumed at `σ` gives when it runs to the end of `b`:
paragraphs hold the lines `paraStart σ … n-1`; blocks hold one complete fragment per child from
`skipIdxOf σ` on (the first resumed at `subSkipOf σ`), `.idx` = position of the child. -/
def Full : Frag → PBox → Option Resume → Prop
  | .para id _ st n _ lines, b, σ =>
    match b with
    | .para id' n' _ st' => id = id' ∧ n = n' ∧ st = st' ∧
        lines.map Prod.fst = List.range' (paraStart σ) (n' - paraStart σ)
    | .block _ _ _ => False
  | .block _ _ _ _ fs, b, σ =>
    match b with
    | .block _ _ kids => FullFrom fs (kids.drop (skipIdxOf σ)) (skipIdxOf σ) (subSkipOf σ)
    | .para _ _ _ _ => False
/-- `FullFrom fs bs i sub`: `fs` are complete fragments of the boxes `bs` (positions `i, i+1, …`), the
first one resumed at `sub`. -/
def FullFrom : List Frag → List PBox → Nat → Option Resume → Prop
  | [], bs, _, _ => bs = []
  | f :: fs, bs, i, sub =>
    match bs with
    | [] => False
    | b :: bs' => Full f b sub ∧ f.idx = i ∧ FullFrom fs bs' (i + 1) none
end

end Wp.PM
