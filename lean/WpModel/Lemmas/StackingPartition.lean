/-
C17 helper development (no Mathlib): the dispatcher neither loses nor duplicates a box, and every
bucket keeps tree order.
-/
import WpModel.Lemmas.StackingSpec
import WpModel.Lemmas.StackingSort

set_option linter.unusedSimpArgs false

namespace Wp.Stacking
open Wp Wp.Gen

mutual
/-- Box ids of a laid-out tree, preorder (= tree order). -/
def Box.ids : Box → List Nat
  | .leaf a => [a.id]
  | .node a kids => a.id :: Box.idsL kids
  | .ph b => b.ids
def Box.idsL : List Box → List Nat
  | [] => []
  | b :: bs => b.ids ++ Box.idsL bs
end

mutual
/-- Box ids held by a dispatched structure at *tree positions*: the pruned tree, the contexts inside
it, the child contexts and the floats.  `block_level_boxes` and `blocks_and_cells` are secondary
listings of boxes of the pruned tree and are not counted. -/
def Node.ids : Node → List Nat
  | .leaf a => [a.id]
  | .node a kids => a.id :: Node.idsL kids
  | .ph b => b.ids
  | .ctx box neg zero pos _ floats _ _ =>
    box.ids ++ (Node.idsL neg ++ (Node.idsL zero ++ (Node.idsL pos ++ Node.idsL floats)))
def Node.idsL : List Node → List Nat
  | [] => []
  | n :: ns => n.ids ++ Node.idsL ns
end

def optIds : Option Node → List Nat
  | none => []
  | some n => n.ids

theorem Node.idsL_append (l m : List Node) : Node.idsL (l ++ m) = Node.idsL l ++ Node.idsL m := by
  induction l with
  | nil => simp [Node.idsL]
  | cons x xs ih => simp [Node.idsL, ih, List.append_assoc]

theorem count_idsL_perm {l m : List Node} (h : l.Perm m) (i : Nat) :
    (Node.idsL l).count i = (Node.idsL m).count i := by
  induction h with
  | nil => rfl
  | cons x _ ih => simp [Node.idsL, List.count_append, ih]
  | swap x y l => simp [Node.idsL, List.count_append]; omega
  | trans _ _ ih1 ih2 => exact ih1.trans ih2

theorem count_idsL_split (l : List Node) (i : Nat) :
    (Node.idsL (l.filter (fun n => decide (n.zIndex < 0)))).count i +
    (Node.idsL (l.filter (fun n => decide (n.zIndex = 0)))).count i +
    (Node.idsL (l.filter (fun n => decide (0 < n.zIndex)))).count i = (Node.idsL l).count i := by
  induction l with
  | nil => simp [Node.idsL]
  | cons x xs ih =>
    by_cases h1 : x.zIndex < 0
    · have h2 : ¬ x.zIndex = 0 := by omega
      have h3 : ¬ 0 < x.zIndex := by omega
      simp [List.filter_cons, h1, h2, h3, Node.idsL, List.count_append]; omega
    · by_cases h2 : x.zIndex = 0
      · have h3 : ¬ 0 < x.zIndex := by omega
        simp [List.filter_cons, h1, h2, h3, Node.idsL, List.count_append]; omega
      · have h3 : 0 < x.zIndex := by omega
        simp [List.filter_cons, h1, h2, h3, Node.idsL, List.count_append]; omega

/-- `__init__` keeps every child context, every float and the box. -/
theorem count_ids_mkCtx (box : Node) (children blocks floats bc : List Node) (i : Nat) :
    (mkCtx box children blocks floats bc).ids.count i =
      box.ids.count i + (Node.idsL children).count i + (Node.idsL floats).count i := by
  have hs := count_idsL_split children i
  have hn := count_idsL_perm (sortZ_perm (children.filter (fun n => decide (n.zIndex < 0)))) i
  have hp := count_idsL_perm (sortZ_perm (children.filter (fun n => decide (0 < n.zIndex)))) i
  simp only [mkCtx, splitZ_eq, Node.ids, List.count_append]
  omega

/-- One `_dispatch` step keeps the ids of the box's own subtree. -/
theorem count_coreS (a : Attrs) (self : Node) (inner : Delta) (i : Nat) :
    (optIds (coreS a self inner).1).count i + (Node.idsL (coreS a self inner).2.cc).count i +
      (Node.idsL (coreS a self inner).2.floats).count i =
    self.ids.count i + (Node.idsL inner.cc).count i + (Node.idsL inner.floats).count i := by
  unfold coreS
  split
  · simp [optIds, Node.idsL, count_ids_mkCtx]
  · split
    · simp [optIds, Node.idsL, count_ids_mkCtx, List.count_append]; omega
    · split
      · simp [optIds, Node.idsL, count_ids_mkCtx, List.count_append]; omega
      · split
        · simp [optIds, Node.idsL, count_ids_mkCtx]; omega
        · simp [optIds]

mutual
theorem count_dispatchS : ∀ (b : Box) (i : Nat),
    (optIds (dispatchS b).1).count i + (Node.idsL (dispatchS b).2.cc).count i +
      (Node.idsL (dispatchS b).2.floats).count i = b.ids.count i
  | .ph b, i => by rw [dispatchS, Box.ids]; exact count_dispatchS b i
  | .leaf a, i => by
    rw [dispatchS, count_coreS]; simp [Node.ids, Box.ids, Node.idsL]
  | .node a kids, i => by
    rw [dispatchS, count_coreS]
    have := count_listS kids i
    simp only [Node.ids, Box.ids, List.count_cons]
    omega
theorem count_listS : ∀ (l : List Box) (i : Nat),
    (Node.idsL (listS l).1).count i + (Node.idsL (listS l).2.cc).count i +
      (Node.idsL (listS l).2.floats).count i = (Box.idsL l).count i
  | [], i => by simp [listS, Node.idsL, Box.idsL]
  | k :: ks, i => by
    have h1 := count_dispatchS k i
    have h2 := count_listS ks i
    rw [listS, Box.idsL]
    simp only [Delta.append, Node.idsL_append, List.count_append]
    cases h : (dispatchS k).1 with
    | none => simp [h, optIds] at h1 ⊢; omega
    | some n => simp [h, optIds, Node.idsL, List.count_append] at h1 ⊢; omega
end

theorem count_fromBoxS (b : Box) (i : Nat) : (fromBoxS b).ids.count i = b.ids.count i := by
  unfold fromBoxS
  rw [count_ids_mkCtx]
  cases b with
  | leaf a => simp [childrenS, Node.ids, Box.ids, Node.idsL]
  | node a kids =>
    have := count_listS kids i
    simp only [childrenS, Node.ids, Box.ids, List.count_cons]
    omega
  | ph b => simp [childrenS, Node.ids, Box.ids, Node.idsL]

theorem count_map_fromBoxS (l : List Box) (i : Nat) :
    (Node.idsL (l.map fromBoxS)).count i = (Box.idsL l).count i := by
  induction l with
  | nil => rfl
  | cons x xs ih => simp [Node.idsL, Box.idsL, List.count_append, ih, count_fromBoxS]

/-! ### Tree order inside the buckets -/

mutual
/-- The boxes of a pruned tree in preorder; contexts standing in the tree are not entered. -/
def Node.region : Node → List Node
  | .leaf a => [.leaf a]
  | .node a kids => .node a kids :: Node.regionL kids
  | .ph _ => []
  | .ctx .. => []
def Node.regionL : List Node → List Node
  | [] => []
  | n :: ns => n.region ++ Node.regionL ns
end

def optRegion : Option Node → List Node
  | none => []
  | some n => n.region

/-- `isinstance(box, BlockLevelBox)` on an entry of a children list. -/
def Node.isBlockLevel : Node → Bool
  | .leaf a => a.kind.dispBlockLevel
  | .node a _ => a.kind.dispBlockLevel
  | _ => false

/-- `isinstance(box, (BlockLevelBox, TableCellBox))` in the order `_dispatch` tests them. -/
def Node.isBlockOrCell : Node → Bool
  | .leaf a => a.kind.dispBlockLevel || a.kind.dispCell
  | .node a _ => a.kind.dispBlockLevel || a.kind.dispCell
  | _ => false

theorem region_mkCtx (box : Node) (c b f bc : List Node) : (mkCtx box c b f bc).region = [] := rfl

/-- `blocks` / `blocks_and_cells` appended by one step = the block-level boxes (and cells) of the
returned tree, in tree order, given the same for the children. -/
theorem blocks_coreS (a : Attrs) (kids : List Node) (inner : Delta)
    (hb : inner.blocks = (Node.regionL kids).filter Node.isBlockLevel)
    (hc : inner.bc = (Node.regionL kids).filter Node.isBlockOrCell) :
    (coreS a (.node a kids) inner).2.blocks =
        (optRegion (coreS a (.node a kids) inner).1).filter Node.isBlockLevel ∧
    (coreS a (.node a kids) inner).2.bc =
        (optRegion (coreS a (.node a kids) inner).1).filter Node.isBlockOrCell := by
  unfold coreS
  split
  · simp [optRegion]
  · split
    · simp [optRegion]
    · split
      · simp [optRegion]
      · split
        · simp [optRegion, region_mkCtx]
        · by_cases h1 : a.kind.dispBlockLevel = true <;> by_cases h2 : a.kind.dispCell = true <;>
            simp [optRegion, Node.region, Node.isBlockLevel, Node.isBlockOrCell, h1, h2, hb, hc,
              List.filter_cons]

theorem blocks_coreS_leaf (a : Attrs) :
    (coreS a (.leaf a) {}).2.blocks =
        (optRegion (coreS a (.leaf a) {}).1).filter Node.isBlockLevel ∧
    (coreS a (.leaf a) {}).2.bc =
        (optRegion (coreS a (.leaf a) {}).1).filter Node.isBlockOrCell := by
  unfold coreS
  split
  · simp [optRegion]
  · split
    · simp [optRegion]
    · split
      · simp [optRegion]
      · split
        · simp [optRegion, region_mkCtx]
        · by_cases h1 : a.kind.dispBlockLevel = true <;> by_cases h2 : a.kind.dispCell = true <;>
            simp [optRegion, Node.region, Node.isBlockLevel, Node.isBlockOrCell, h1, h2,
              List.filter_cons]

mutual
theorem blocks_dispatchS : ∀ (b : Box),
    (dispatchS b).2.blocks = (optRegion (dispatchS b).1).filter Node.isBlockLevel ∧
    (dispatchS b).2.bc = (optRegion (dispatchS b).1).filter Node.isBlockOrCell
  | .ph b => by rw [dispatchS]; exact blocks_dispatchS b
  | .leaf a => by rw [dispatchS]; exact blocks_coreS_leaf a
  | .node a kids => by
    rw [dispatchS]
    exact blocks_coreS a _ _ (blocks_listS kids).1 (blocks_listS kids).2
theorem blocks_listS : ∀ (l : List Box),
    (listS l).2.blocks = (Node.regionL (listS l).1).filter Node.isBlockLevel ∧
    (listS l).2.bc = (Node.regionL (listS l).1).filter Node.isBlockOrCell
  | [] => by simp [listS, Node.regionL]
  | k :: ks => by
    have h1 := blocks_dispatchS k
    have h2 := blocks_listS ks
    rw [listS]
    cases h : (dispatchS k).1 with
    | none =>
      simp only [h, optRegion, List.filter_nil] at h1
      simp [Delta.append, h1.1, h1.2, h2.1, h2.2]
    | some n =>
      simp only [h, optRegion] at h1
      simp [Delta.append, Node.regionL, h1.1, h1.2, h2.1, h2.2]
end

/-! ### Tree order of the contexts: the roots of what is appended form a subsequence of the ids -/

/-- The id of the box a context was built around. -/
def Node.rootId? : Node → Option Nat
  | .ctx (.leaf a) .. => some a.id
  | .ctx (.node a _) .. => some a.id
  | _ => none

def rootIds (l : List Node) : List Nat := l.filterMap Node.rootId?

theorem rootIds_append (l m : List Node) : rootIds (l ++ m) = rootIds l ++ rootIds m := by
  simp [rootIds, List.filterMap_append]

theorem order_coreS (a : Attrs) (self : Node) (inner : Delta) (rest : List Nat)
    (hself : self.rootId? = none ∧ (mkCtx self [] inner.blocks inner.floats inner.bc).rootId? = some a.id ∧
      (mkCtx self inner.cc inner.blocks inner.floats inner.bc).rootId? = some a.id)
    (hc : (rootIds inner.cc).Sublist rest) (hf : (rootIds inner.floats).Sublist rest) :
    (rootIds (coreS a self inner).2.cc).Sublist (a.id :: rest) ∧
    (rootIds (coreS a self inner).2.floats).Sublist (a.id :: rest) := by
  unfold coreS
  split
  · simp [rootIds, hself.2.2]
  · split
    · refine ⟨?_, by simp [rootIds]⟩
      simp only [rootIds, List.filterMap_cons, hself.2.1]
      exact List.Sublist.cons_cons _ hc
    · split
      · exact ⟨List.Sublist.cons _ hc, by simp [rootIds, hself.2.1]⟩
      · split
        · exact ⟨List.Sublist.cons _ hc, by simp [rootIds]⟩
        · exact ⟨List.Sublist.cons _ hc, List.Sublist.cons _ hf⟩

mutual
theorem order_dispatchS : ∀ (b : Box),
    (rootIds (dispatchS b).2.cc).Sublist b.ids ∧ (rootIds (dispatchS b).2.floats).Sublist b.ids
  | .ph b => by rw [dispatchS, Box.ids]; exact order_dispatchS b
  | .leaf a => by
    rw [dispatchS, Box.ids]
    exact order_coreS a (.leaf a) {} [] ⟨rfl, rfl, rfl⟩ (by simp [rootIds]) (by simp [rootIds])
  | .node a kids => by
    rw [dispatchS, Box.ids]
    exact order_coreS a _ _ _ ⟨rfl, rfl, rfl⟩ (order_listS kids).1 (order_listS kids).2
theorem order_listS : ∀ (l : List Box),
    (rootIds (listS l).2.cc).Sublist (Box.idsL l) ∧ (rootIds (listS l).2.floats).Sublist (Box.idsL l)
  | [] => by simp [listS, rootIds, Box.idsL]
  | k :: ks => by
    have h1 := order_dispatchS k
    have h2 := order_listS ks
    rw [listS, Box.idsL]
    simp only [Delta.append, rootIds_append]
    exact ⟨h1.1.append h2.1, h1.2.append h2.2⟩
end

end Wp.Stacking
