/-
Geometry of the footnote model: the footnote area, and lines of a paragraph against the page bottom.

`context.page_bottom` is the page bottom minus the margin height of the footnote area — *exactly*, for every
`@footnote` style: since repair 8db5909 the area is never fragmented, so what `_update_footnote_area` subtracts is
what it later adds back and the bookkeeping telescopes (before the repair it drifted when the area had a bottom
decoration and footnotes of two page names: `corpus/C01/footnote_named_page_overlap.json`, now a regression case).
An emptied area takes no room (repair 84e5b27: its height goes back to 'auto'), and what a non-empty area takes
from the page is clamped at 0 (repair 2efefde), so `page_bottom ≤ page height` holds for every `@footnote` style
(`PbInv.le`; before the second repair it needed `AreaHyp`, decorations summing to ≥ 0 — the former witness
`area_negative_margin_box_overflows` is the regression theorem `area_negative_margin_box_clamped`; the hypothesis
itself is deleted).
-/
import WpModel.Lemmas.FootSegment
import WpModel.Lemmas.FootState
import WpModel.Lemmas.ParaGeo

namespace Wp.PMF
open Wp Wp.PM

/-- `page_bottom` is the page bottom minus the current margin height of the footnote area, whose height is ≥ 0;
the footnotes in the area have non-negative heights. -/
def PbInv (c : FCtx) (fs : FState) : Prop :=
  (∀ f ∈ fs.cur, 0 ≤ f.height) ∧
  ((fs.areaH = none ∧ fs.pageBottom = c.pageH) ∨
    ∃ h, fs.areaH = some h ∧ 0 ≤ h ∧ fs.pageBottom = c.pageH - max0 (c.area.marginHeight h)) ∧
  (∀ f ∈ fs.reported, 0 ≤ f.height)

theorem sumHeights_nonneg (l : List Fn) (h : ∀ f ∈ l, 0 ≤ f.height) : 0 ≤ sumHeights l := by
  induction l with
  | nil => simp [sumHeights]
  | cons f fs ih =>
    simp only [sumHeights]
    have h1 := h f (by simp)
    have h2 := ih (fun g hg => h g (by simp [hg]))
    grind

theorem max0_nonneg (x : Rat) : 0 ≤ max0 x := by
  unfold max0; split
  · assumption
  · exact Rat.le_refl

/-- `page_bottom` never exceeds the page box bottom — for every `@footnote` style (since repair 2efefde what the
area takes from the page is clamped at 0; before it this needed `AreaHyp`). -/
theorem PbInv.le {c : FCtx} {fs : FState} (h : PbInv c fs) : fs.pageBottom ≤ c.pageH := by
  rcases h.2.1 with ⟨_, hp⟩ | ⟨hh, _, h0, hp⟩
  · rw [hp]; exact Rat.le_refl
  · rw [hp]
    have := max0_nonneg (c.area.marginHeight hh)
    grind

theorem clamp_nonneg (x : Rat) : 0 ≤ (if x ≥ 0 then x else 0) := by
  split
  · assumption
  · exact Rat.le_refl

/-- The state `_update_footnote_area` computes once `page_bottom` has been raised back to `pb1`. -/
def updateAreaFrom (c : FCtx) (fs : FState) (pb1 : Rat) : FState :=
  if fs.cur.isEmpty then { fs with areaH := none, pageBottom := pb1 }
  else { fs with areaH := some (areaLayout c.area c.pageH fs.cur).h,
                 pageBottom := pb1 - max0 (areaLayout c.area c.pageH fs.cur).marginHeight }

theorem updateAreaFrom_inv (c : FCtx) (fs : FState) (hcur : ∀ f ∈ fs.cur, 0 ≤ f.height)
    (hrep : ∀ f ∈ fs.reported, 0 ≤ f.height) :
    PbInv c (updateAreaFrom c fs c.pageH) := by
  unfold updateAreaFrom
  split
  · exact ⟨hcur, Or.inl ⟨rfl, rfl⟩, hrep⟩
  · refine ⟨hcur, Or.inr ⟨(areaLayout c.area c.pageH fs.cur).h, rfl, ?_, ?_⟩, hrep⟩
    · unfold areaLayout
      dsimp only
      exact clamp_nonneg _
    · rfl

/-- `_update_footnote_area` re-establishes the invariant, whatever the footnotes now in the area. -/
theorem updateArea_inv (c : FCtx) (fs : FState) (hcur : ∀ f ∈ fs.cur, 0 ≤ f.height)
    (hrep : ∀ f ∈ fs.reported, 0 ≤ f.height)
    (hpb : (fs.areaH = none ∧ fs.pageBottom = c.pageH) ∨
      ∃ h, fs.areaH = some h ∧ fs.pageBottom = c.pageH - max0 (c.area.marginHeight h)) :
    PbInv c (updateArea c fs).1 := by
  have key : (updateArea c fs).1 = updateAreaFrom c fs c.pageH := by
    unfold updateArea updateAreaFrom
    rcases hpb with ⟨h1, h2⟩ | ⟨h, h1, h2⟩
    · rw [h1]; dsimp only; rw [h2]; split <;> rfl
    · rw [h1]; dsimp only; rw [h2]
      have e : c.pageH - max0 (c.area.marginHeight h) + max0 (c.area.marginHeight h) = c.pageH := by grind
      rw [e]; split <;> rfl
  rw [key]
  exact updateAreaFrom_inv c fs hcur hrep

theorem PbInv.weak {c : FCtx} {fs : FState} (h : PbInv c fs) :
    (fs.areaH = none ∧ fs.pageBottom = c.pageH) ∨
      ∃ h, fs.areaH = some h ∧ fs.pageBottom = c.pageH - max0 (c.area.marginHeight h) := by
  rcases h.2.1 with h | ⟨x, h1, _, h2⟩
  · exact Or.inl h
  · exact Or.inr ⟨x, h1, h2⟩

theorem layoutFootnote_inv (c : FCtx) (fs : FState) (f : Fn) (h : PbInv c fs)
    (hf : 0 ≤ f.height) : PbInv c (layoutFootnote c fs f).1 := by
  unfold layoutFootnote
  apply updateArea_inv c _
  · intro g hg
    simp only [List.mem_append, List.mem_singleton] at hg
    rcases hg with hg | hg
    · exact h.1 g hg
    · subst hg; exact hf
  · exact h.2.2
  · exact h.weak

theorem reportFootnote_inv (c : FCtx) (fs : FState) (f : Fn) (h : PbInv c fs)
    (hf : 0 ≤ f.height) : PbInv c (reportFootnote c fs f) := by
  unfold reportFootnote
  apply updateArea_inv c _
  · intro g hg; exact h.1 g (List.mem_of_mem_erase hg)
  · intro g hg
    simp only [List.mem_append, List.mem_singleton] at hg
    rcases hg with hg | hg
    · exact h.2.2 g hg
    · subst hg; exact hf
  · exact h.weak

theorem unlayFootnote_inv (c : FCtx) (fs : FState) (f : Fn) (h : PbInv c fs) :
    PbInv c (unlayFootnote c fs f) := by
  unfold unlayFootnote
  split
  · exact h
  · dsimp only
    apply updateArea_inv c _
    · intro g hg
      split at hg
      · exact h.1 g (List.mem_of_mem_erase hg)
      · split at hg <;> exact h.1 g hg
    · intro g hg
      split at hg
      · exact h.2.2 g hg
      · split at hg
        · exact h.2.2 g (List.mem_of_mem_erase hg)
        · exact h.2.2 g hg
    · split
      · exact h.weak
      · split <;> exact h.weak

theorem unlayAll_inv (c : FCtx) (G : List Fn) (fs : FState) (h : PbInv c fs) :
    PbInv c (unlayAll c fs G) := by
  induction G generalizing fs with
  | nil => exact h
  | cons f rest ih => exact ih _ (unlayFootnote_inv c fs f h)

theorem footLoop_inv (c : FCtx) (guard pie : Bool) (bs y : Rat) (F : List Fn) (fs : FState)
    (h : PbInv c fs) (hF : ∀ f ∈ F, 0 ≤ f.height) : PbInv c (footLoop c guard pie bs y F fs).2 := by
  induction F generalizing fs with
  | nil => exact h
  | cons f rest ih =>
    have hr : ∀ g ∈ rest, 0 ≤ g.height := fun g hg => hF g (by simp [hg])
    have h1 := layoutFootnote_inv c fs f h (hF f (by simp))
    have h2 := reportFootnote_inv c _ f h1 (hF f (by simp))
    unfold footLoop
    split
    · dsimp only
      split
      · split
        · exact h2
        · split
          · split <;> exact h2
          · exact ih _ h2 hr
      · exact ih _ h1 hr
    · exact ih _ h hr

/-! ### lines -/

theorem overflows_anti (b b' y : Rat) (h : b ≤ b') (ho : overflows b y = false) : overflows b' y = false := by
  unfold overflows at *
  simp only [decide_eq_false_iff_not] at *
  grind

/-- A kept line either is the first line placed while the page was empty, or ends above the bottom of the page
(reduced by the paragraph's `bottom_space`). -/
def LineFitsH (pageH bs lineH : Rat) (pie : Bool) (k : Nat) (p : Nat × Rat) : Prop :=
  (pie = true ∧ p.1 = k) ∨ overflows (pageH - bs) (p.2 + lineH) = false

theorem lineFns_height (st : PStyle) (calls : List Call) (i : Nat) (h : ∀ cl ∈ calls, 0 ≤ (cl.m : Rat) * cl.h) :
    ∀ f ∈ lineFns st calls i, 0 ≤ f.height := by
  intro f hf
  simp only [lineFns, List.mem_map, List.mem_filter] at hf
  obtain ⟨cl, ⟨hc, _⟩, rfl⟩ := hf
  exact h cl hc

theorem lineLoopF_fits (c : FCtx) (st : PStyle) (calls : List Call) (b : BoxSt) (n : Nat) (lineH : Rat) (pie : Bool)
    (bs : Rat) (k : Nat) (fuel i : Nat) (y : Rat) (s : LineLoop) (fs : FState)
    (hcalls : ∀ cl ∈ calls, 0 ≤ (cl.m : Rat) * cl.h) (hdeco : 0 ≤ b.bb + b.pb)
    (hinv : PbInv c fs) (hfirst : s.lines = [] → i = k) (hs : ∀ p ∈ s.lines, LineFitsH c.pageH bs lineH pie k p) :
    ∀ p ∈ outLines (lineLoopF c st calls b n lineH pie bs fuel i y s fs).1, LineFitsH c.pageH bs lineH pie k p := by
  fun_induction lineLoopF c st calls b n lineH pie bs fuel i y s fs with
  | case1 i y s fs => simpa [outLines] using hs
  | case2 fuel i y s fs resume newPosY dbd offset overflow hov abort stop r lines' hb =>
    intro p hp
    simp only [outLines] at hp
    have hsub := breakLine_lines_sub st n i s.lines pie s.skip resume
    rw [hb] at hsub
    exact hs p (hsub p hp)
  | case3 fuel i y s fs resume newPosY dbd offset overflow hov shift newPosY' lineY mt' fs' hfl ih =>
    have hinv' : PbInv c fs' := by
      have := footLoop_inv c (!s.lines.isEmpty || !pie) pie bs (newPosY' + offset) (lineFns st calls i) fs hinv
        (lineFns_height st calls i hcalls)
      rw [hfl] at this
      exact this
    apply ih hinv'
    · intro h; simp at h
    · intro p hp
      rcases List.mem_append.mp hp with hp | hp
      · exact hs p hp
      · simp only [List.mem_singleton] at hp
        subst hp
        have hoff : 0 ≤ offset := by
          show 0 ≤ (if dbd = true then b.bb + b.pb else 0)
          split
          · exact hdeco
          · exact Rat.le_refl
        by_cases hfirstLine : s.lines = [] ∧ pie = true
        · left
          exact ⟨hfirstLine.2, hfirst hfirstLine.1⟩
        · right
          have hcond : (!s.lines.isEmpty || !pie) = true := by
            cases hl : s.lines with
            | nil =>
              have : pie = false := by
                cases hp : pie with
                | false => rfl
                | true => exact absurd ⟨hl, hp⟩ hfirstLine
              simp [this]
            | cons a l => simp
          have hno : (ctxOf c fs).overflowsPage bs (newPosY + offset) = false := by
            have : overflow = false := by simpa using hov
            have h2 : ((!s.lines.isEmpty || !pie) && (ctxOf c fs).overflowsPage bs (newPosY + offset)) = false := this
            rw [hcond] at h2
            simpa using h2
          have hno' : (ctxOf c fs).overflowsPage bs newPosY = false :=
            not_overflowsPage_of_le (ctxOf c fs) bs _ _ (by grind) hno
          have hshift : shift = false := by
            show (pie && (ctxOf c fs).overflowsPage bs newPosY) = false
            rw [hno']; simp
          show overflows (c.pageH - bs) (lineY + lineH) = false
          have : lineY = y := by
            show (if shift = true then y - s.mt else y) = y
            rw [hshift]; simp
          rw [this]
          have hle : fs.pageBottom - bs ≤ c.pageH - bs := by
            have := hinv.le
            grind
          exact overflows_anti _ _ _ hle hno'
  | case4 fuel i y s fs resume newPosY dbd offset overflow hov shift newPosY' mt' fs' hfl abort stop r lines' hb =>
    intro p hp
    simp only [outLines] at hp
    have hsub := breakLine_lines_sub st n i s.lines pie s.skip resume
    rw [hb] at hsub
    exact hs p (hsub p hp)
  | case5 fuel i y s fs resume newPosY dbd offset overflow hov shift newPosY' mt' fs' hfl =>
    intro p hp
    simp only [outLines] at hp
    exact hs p hp

/-! ### the footnote area on the page -/

theorem areaOut_bottom (a : AreaStyle) (pageH : Rat) (cur : List Fn) (o : AreaOut) (h : areaOut a pageH cur = some o) :
    o.y + (areaLayout a pageH cur).marginHeight = pageH := by
  unfold areaOut at h
  split at h
  · cases h
  · simp only [Option.some.injEq] at h
    subst h
    simp only
    have : (areaLayout a pageH cur).y = pageH := rfl
    rw [this]
    grind

/-- Footnotes in the area are stacked: each starts where the previous one ends. -/
theorem areaKids_stack (y : Rat) (l : List Fn) :
    (areaKids y l).map (fun k => k.2.1) = (List.range l.length).map (fun i => y + sumHeights (l.take i)) := by
  induction l generalizing y with
  | nil => rfl
  | cons f rest ih =>
    simp only [areaKids, List.map_cons, List.length_cons, List.range_succ_eq_map, List.map_map]
    rw [ih]
    simp only [List.take_zero, sumHeights, List.cons.injEq, List.map_inj_left, Function.comp]
    refine ⟨by grind, ?_⟩
    intro i _
    simp only [List.take_succ_cons, sumHeights]
    grind

end Wp.PMF
