/-
Lemmas for the lines-next-to-floats model (`Model/LineFloats`): what `avoid_collisions` (C11's model
and theorems, imported unchanged) gives a line box, the position of the line `get_next_linebox`
returns, stacking of the lines of a paragraph next to floats, and the refinement "no float = the
plain paragraph of `Model/LineBreak`".  Core Lean only.
-/
import WpModel.Model.LineFloats
import WpModel.Lemmas.LineBreak
import WpModel.Props.C11
import WpModel.Lemmas.FloatLoop
import WpModel.Lemmas.FloatBounds

namespace Wp.LFL
open Wp Wp.Py Wp.LB Wp.Floats Wp.C09L

/-- the placement `avoid_collisions` gives a line box (ltr): not above the requested position, and the
width left starts at the returned x and lies between the edges of the containing block -/
theorem avoid_line (shapes : List Shape) (y w h : Rat) (cb : CB) (hl : cb.rtl = false) (pl : Placement)
    (ha : avoidCollisions shapes (LF.lineABox y w h) cb false = .ok pl) :
    y ≤ pl.y ∧ cb.cx ≤ pl.x ∧ pl.x + pl.avail ≤ cb.cx + cb.w ∧
    ∃ res, avoidLoop (shapes.length + 1) shapes w h cb.cx (cb.cx + cb.w) y = some res ∧
      pl.y = res.y ∧ pl.x = res.l ∧ pl.avail = res.r - res.l := by
  obtain ⟨res, hres, h1, h2, h3⟩ := C11.avoid_collisions_result shapes (LF.lineABox y w h) cb false pl ha
  have hz : ∀ q : Rat, q - 0 = q := by intro q; grind
  simp [LF.lineABox, hl, Rat.add_zero, hz] at hres h1 h2 h3
  obtain ⟨hy, hl0, hr0⟩ := C11.avoid_result_bounds _ _ _ _ _ _ _ res hres
  refine ⟨by grind, by grind, by grind, res, hres, h2, h3, h1⟩

/-- the containing block of the paragraph as `avoid_collisions` sees it -/
def cbOf (p : Para) : CB := { cx := p.cbx, w := p.width, rtl := false }

/-- What a successful `get_next_linebox` next to floats went through: the first placement (with the
min-content width and the strut height), the split in the width left there, and either a phantom
line box or the second placement and the line built in the width it leaves. -/
theorem nextLine_cases (shapes : List Shape) (p : Para) (skip : Option Nat) (y : Rat) (first : Bool) (l : OutLine)
    (h : LF.nextLine shapes p skip y first = .ok (some l)) :
    ∃ index w0 h0 place s,
      skipFirstWhitespace p.st.ws p.text (skip.getD 0) = some index ∧
      avoidCollisions shapes (LF.lineABox y w0 h0) (cbOf p) false = .ok place ∧
      splitTextBox p.st p.text
        (.fin ((place.x + place.avail) * Gen.LineBreak.fudge - (place.x + if first then p.indent else 0)))
        index true = .ok s ∧
      ((s.child = none ∧ s.preserved = false ∧
          l = { x := place.x, y := place.y, w := 0, h := 0, child := none, resume := s.resume }) ∨
       ∃ lineW place2, avoidCollisions shapes (LF.lineABox place.y lineW p.st.fs) (cbOf p) false = .ok place2 ∧
        (match s.child with
         | none => emptyLine { p with width := place2.avail } place.x place.y s
         | some c => textLine { p with width := place2.avail } place.x
                       (place.x + if first then p.indent else 0) place.y s c) = .ok l) := by
  unfold LF.nextLine at h
  split at h
  · cases h
  · rename_i index hidx
    simp only at h
    generalize hwh : (if shapes.isEmpty = true then (Except.ok ((0 : Rat), (0 : Rat)) : Except PyErr (Rat × Rat))
      else (IP.minContentWidth p.st [IR.Node.text p.text] p.indent true true false
          (if index = 0 then none else some (IR.Skip.mk 0 (some (IR.Skip.mk index none))))).map
        fun w => (w, LF.strutHeight p)) = whE at h
    cases whE with
    | error e => cases h
    | ok wh =>
      simp only [Except.bind] at h
      cases hp : avoidCollisions shapes (LF.lineABox y wh.1 wh.2) { cx := p.cbx, w := p.width, rtl := false } false with
      | error e => rw [hp] at h; cases h
      | ok place =>
        rw [hp] at h
        simp only at h
        cases hs : splitTextBox p.st p.text
            (.fin ((place.x + place.avail) * Gen.LineBreak.fudge - (place.x + if first then p.indent else 0)))
            index true with
        | error e => rw [hs] at h; cases h
        | ok s =>
          rw [hs] at h
          simp only at h
          refine ⟨index, wh.1, wh.2, place, s, hidx, hp, hs, ?_⟩
          split at h
          · rename_i hph
            cases h
            left
            simp at hph
            exact ⟨hph.1, hph.2, rfl⟩
          · right
            split at h
            · cases h
            · rename_i place2 hp2
              refine ⟨_, place2, hp2, ?_⟩
              cases hc : s.child with
              | none =>
                rw [hc] at h
                simp only at h ⊢
                cases he : emptyLine { p with width := place2.avail } place.x place.y s with
                | error e => rw [he] at h; cases h
                | ok l' => rw [he] at h; cases h; rfl
              | some c =>
                rw [hc] at h
                simp only at h ⊢
                cases he : textLine { p with width := place2.avail } place.x
                    (place.x + if first then p.indent else 0) place.y s c with
                | error e => rw [he] at h; cases h
                | ok l' => rw [he] at h; cases h; rfl

/-- the line `get_next_linebox` returns next to floats: not above the requested position, one used
line-height high (or a phantom line box), and `resume_at` strictly beyond `skip_stack` -/
theorem nextLine_spec (shapes : List Shape) (p : Para) (skip : Option Nat) (y : Rat) (first : Bool) (l : OutLine)
    (h : LF.nextLine shapes p skip y first = .ok (some l)) :
    y ≤ l.y ∧ (l.h = 0 ∨ l.h = p.lineHeight) ∧ ∀ r, l.resume = some r → skip.getD 0 < r := by
  obtain ⟨index, w0, h0, place, s, hidx, hp, hs, hl⟩ := nextLine_cases shapes p skip y first l h
  have hge := skipFirstWhitespace_ge _ _ _ _ hidx
  have hgt := fun r => splitTextBox_resume_gt _ _ _ _ _ s r hs
  have hy := (avoid_line shapes y w0 h0 (cbOf p) rfl place hp).1
  rcases hl with ⟨_, _, rfl⟩ | ⟨lineW, place2, _, hl⟩
  · refine ⟨hy, Or.inl rfl, ?_⟩
    intro r hr
    have := hgt r hr
    omega
  · cases hc : s.child with
    | none =>
      rw [hc] at hl
      have := emptyLine_y _ _ _ _ _ hl
      refine ⟨by rw [this.1]; exact hy, this.2.2, ?_⟩
      intro r hr
      rw [this.2.1] at hr
      have := hgt r hr
      omega
    | some c =>
      rw [hc] at hl
      have := textLine_y _ _ _ _ _ _ _ hl
      refine ⟨by rw [this.1]; exact hy, Or.inr this.2.2, ?_⟩
      intro r hr
      rw [this.2.1] at hr
      have := hgt r hr
      omega

/-- lines that follow each other downwards: each starts at or below the bottom of the one before -/
def StackedBelow : Rat → List OutLine → Prop
  | _, [] => True
  | y, l :: ls => y ≤ l.y ∧ StackedBelow (l.y + l.h) ls

theorem iterLines_stacked (shapes : List Shape) (p : Para) : ∀ (fuel : Nat) (skip : Option Nat) (y : Rat)
    (first : Bool) (ls : List OutLine), LF.iterLines shapes p fuel skip y first = some (.ok ls) → StackedBelow y ls
  | 0, _, _, _, _, h => by simp [LF.iterLines] at h
  | fuel + 1, skip, y, first, ls, h => by
    unfold LF.iterLines at h
    split at h
    · cases h
    · cases h; trivial
    · rename_i l hn
      have hy := (nextLine_spec shapes p skip y first l hn).1
      split at h
      · cases h; exact ⟨hy, trivial⟩
      · rename_i r hr
        cases hrest : LF.iterLines shapes p fuel (some r) (l.y + l.h) false with
        | none => rw [hrest] at h; cases h
        | some res =>
          rw [hrest] at h
          cases res with
          | error e => cases h
          | ok rest =>
            cases h
            exact ⟨hy, iterLines_stacked shapes p fuel (some r) (l.y + l.h) false rest hrest⟩

theorem iterLines_heights (shapes : List Shape) (p : Para) : ∀ (fuel : Nat) (skip : Option Nat) (y : Rat)
    (first : Bool) (ls : List OutLine), LF.iterLines shapes p fuel skip y first = some (.ok ls) →
      ∀ l ∈ ls, l.h = 0 ∨ l.h = p.lineHeight
  | 0, _, _, _, _, h => by simp [LF.iterLines] at h
  | fuel + 1, skip, y, first, ls, h => by
    unfold LF.iterLines at h
    split at h
    · cases h
    · cases h; simp
    · rename_i l hn
      have hh := (nextLine_spec shapes p skip y first l hn).2.1
      split at h
      · cases h; simpa using hh
      · rename_i r hr
        cases hrest : LF.iterLines shapes p fuel (some r) (l.y + l.h) false with
        | none => rw [hrest] at h; cases h
        | some res =>
          rw [hrest] at h
          cases res with
          | error e => cases h
          | ok rest =>
            cases h
            intro l' hl'
            rcases List.mem_cons.mp hl' with rfl | hm
            · exact hh
            · exact iterLines_heights shapes p fuel (some r) (l.y + l.h) false rest hrest l' hm

theorem nextLine_beyond (shapes : List Shape) (p : Para) (skip : Option Nat) (y : Rat) (first : Bool) (l : OutLine)
    (hs : p.text.length < skip.getD 0) (h : LF.nextLine shapes p skip y first = .ok (some l)) : l.resume = none := by
  obtain ⟨index, w0, h0, place, s, hidx, hp, hs', hl⟩ := nextLine_cases shapes p skip y first l h
  have hge := skipFirstWhitespace_ge _ _ _ _ hidx
  have hnone := splitTextBox_beyond _ _ _ _ _ s (by omega) hs'
  rcases hl with ⟨_, _, rfl⟩ | ⟨lineW, place2, _, hl⟩
  · exact hnone
  · cases hc : s.child with
    | none => rw [hc] at hl; rw [(emptyLine_y _ _ _ _ _ hl).2.1]; exact hnone
    | some c => rw [hc] at hl; rw [(textLine_y _ _ _ _ _ _ _ hl).2.1]; exact hnone

/-- **termination next to floats**: floats move lines down but never back in the text, so
`text.length + 2` rounds are enough here too. -/
theorem iterLines_fuel (shapes : List Shape) (p : Para) : ∀ (fuel : Nat) (skip : Option Nat) (y : Rat) (first : Bool),
    1 ≤ fuel → p.text.length + 2 ≤ fuel + skip.getD 0 → LF.iterLines shapes p fuel skip y first ≠ none
  | 0, _, _, _, h, _ => by omega
  | fuel + 1, skip, y, first, _, hb => by
    unfold LF.iterLines
    split
    · simp
    · simp
    · rename_i l hn
      split
      · simp
      · rename_i r hr
        have hgt := (nextLine_spec shapes p skip y first l hn).2.2 r hr
        by_cases hf : fuel = 0
        · exfalso
          have := nextLine_beyond shapes p skip y first l (by omega) hn
          rw [this] at hr; cases hr
        · have := iterLines_fuel shapes p fuel (some r) (l.y + l.h) false (by omega) (by simp; omega)
          cases hrest : LF.iterLines shapes p fuel (some r) (l.y + l.h) false with
          | none => exact absurd hrest this
          | some res => simp

/-! ### the gap a line box is given is free of floats -/

/-- **the gap is free**: wherever `avoid_collisions` puts a line box of strut height `h`, every
rectangle inside the returned width and not higher than the strut — whatever its own width, so also
the line that is later built there — has empty interior intersection with every float, and lies
inside the containing block. -/
theorem gap_free_of_floats (shapes : List Shape) (y w h : Rat) (cb : CB) (hl : cb.rtl = false) (pl : Placement)
    (ha : avoidCollisions shapes (LF.lineABox y w h) cb false = .ok pl) (hh : 0 < h) (hp : C11.Proper shapes)
    (x w' h' : Rat) (hx1 : pl.x ≤ x) (hx2 : x + w' ≤ pl.x + pl.avail) (hh' : h' ≤ h) :
    (∀ s ∈ shapes, ¬ C11.Overlaps x pl.y w' h' s) ∧ cb.cx ≤ x ∧ x + w' ≤ cb.cx + cb.w := by
  obtain ⟨_, hcx, hcw, res, hres, hy, hx, hav⟩ := avoid_line shapes y w h cb hl pl ha
  obtain ⟨_, hbl, hbr, _⟩ := avoidLoop_induct (fun _ => True) shapes w h cb.cx (cb.cx + cb.w)
    (fun _ _ _ _ _ _ => trivial) (shapes.length + 1) y res trivial hres
  refine ⟨?_, by grind, by grind⟩
  intro s hs hov
  obtain ⟨ho1, ho2, ho3, ho4⟩ := hov
  have hcol : collides s res.y h = true :=
    (C11.collide_iff s res.y h hh (hp s hs).1).mpr ⟨by grind, by grind⟩
  have hmem : s ∈ colliding shapes res.y h := mem_colliding.mpr ⟨hs, hcol⟩
  cases hside : s.side with
  | left =>
    have := bounds_l_ge (colliding shapes res.y h) cb.cx (cb.cx + cb.w) s hmem hside
    unfold Shape.rightEdge at this
    grind
  | right =>
    have := bounds_r_le (colliding shapes res.y h) cb.cx (cb.cx + cb.w) s hmem hside
    grind

/-- a line `get_next_linebox` returns is at the position of its first placement — the one made with
the min-content width of the first line and the strut height — and, when it lies horizontally inside
the width left there, clear of every float over the strut height -/
theorem line_in_gap_clear (shapes : List Shape) (p : Para) (skip : Option Nat) (y : Rat) (first : Bool) (l : OutLine)
    (hne : shapes ≠ []) (hp : C11.Proper shapes) (hh : 0 < LF.strutHeight p)
    (h : LF.nextLine shapes p skip y first = .ok (some l)) :
    ∃ w0 place, avoidCollisions shapes (LF.lineABox y w0 (LF.strutHeight p)) (cbOf p) false = .ok place ∧
      l.y = place.y ∧
      (place.x ≤ l.x → l.x + l.w ≤ place.x + place.avail → ∀ h' ≤ LF.strutHeight p,
        (∀ s ∈ shapes, ¬ C11.Overlaps l.x l.y l.w h' s) ∧ p.cbx ≤ l.x ∧ l.x + l.w ≤ p.cbx + p.width) := by
  have hcases := h
  unfold LF.nextLine at h
  split at h
  · cases h
  · rename_i index hidx
    simp only at h
    have hemp : shapes.isEmpty = false := by cases shapes <;> simp_all
    simp only [hemp, Bool.false_eq_true, if_false] at h
    cases hm : IP.minContentWidth p.st [IR.Node.text p.text] p.indent true true false
        (if index = 0 then none else some (IR.Skip.mk 0 (some (IR.Skip.mk index none)))) with
    | error e => rw [hm] at h; cases h
    | ok w0 =>
      rw [hm] at h
      simp only [Except.map, Except.bind] at h
      cases hpl : avoidCollisions shapes (LF.lineABox y w0 (LF.strutHeight p)) { cx := p.cbx, w := p.width, rtl := false } false with
      | error e => rw [hpl] at h; cases h
      | ok place =>
        have hy : l.y = place.y := by
          rw [hpl] at h
          simp only at h
          split at h
          · cases h
          · rename_i s hs
            split at h
            · cases h; rfl
            · split at h
              · cases h
              · rename_i place2 hp2
                cases hc : s.child with
                | none =>
                  rw [hc] at h
                  simp only at h
                  cases he : emptyLine { p with width := place2.avail } place.x place.y s with
                  | error e => rw [he] at h; cases h
                  | ok l' => rw [he] at h; cases h; exact (emptyLine_y _ _ _ _ _ he).1
                | some c =>
                  rw [hc] at h
                  simp only at h
                  cases he : textLine { p with width := place2.avail } place.x
                      (place.x + if first then p.indent else 0) place.y s c with
                  | error e => rw [he] at h; cases h
                  | ok l' => rw [he] at h; cases h; exact (textLine_y _ _ _ _ _ _ _ he).1
        refine ⟨w0, place, hpl, hy, ?_⟩
        intro hx1 hx2 h' hh'
        have := gap_free_of_floats shapes y w0 (LF.strutHeight p) (cbOf p) rfl place hpl hh hp l.x l.w h' hx1 hx2 hh'
        rw [hy]
        exact this

/-! ### no float: the plain paragraph -/

/-- `avoid_collisions` without any excluded shape: the box stays where it is, the whole width is left -/
theorem avoid_no_shapes (y w h : Rat) (cb : CB) (hl : cb.rtl = false) :
    avoidCollisions [] (LF.lineABox y w h) cb false = .ok ⟨cb.cx, y, cb.w⟩ := by
  have hz : ∀ q : Rat, q - 0 = q := by intro q; grind
  have hw : cb.cx + cb.w - cb.cx = cb.w := by grind
  simp [avoidCollisions, LF.lineABox, ABox.isFloated, avoidLoop, colliding, bounds, leftBounds, rightBounds,
    hl, Rat.add_zero, hz, hw]

theorem nextLine_no_float (p : Para) (hl : p.align.rtl = false) (skip : Option Nat) (y : Rat) (first : Bool) :
    LF.nextLine [] p skip y first = LB.nextLine p skip y first := by
  unfold LF.nextLine LB.nextLine
  cases hidx : skipFirstWhitespace p.st.ws p.text (skip.getD 0) with
  | none => rfl
  | some index =>
    have hp : ({ p with width := p.width } : Para) = p := rfl
    simp only [List.isEmpty_nil, if_true, Except.bind, hl, Bool.false_eq_true, if_false]
    rw [avoid_no_shapes y 0 0 { cx := p.cbx, w := p.width, rtl := false } rfl]
    simp only
    cases hs : splitTextBox p.st p.text
        (.fin ((p.cbx + p.width) * Gen.LineBreak.fudge - (p.cbx + if first then p.indent else 0))) index true with
    | error e => rfl
    | ok s =>
      simp only
      cases hc : s.child with
      | none =>
        cases hpr : s.preserved with
        | false => simp [emptyLine, hpr, Except.map]
        | true =>
          simp only [Option.isNone_none, Bool.not_true, Bool.and_false, Bool.false_eq_true, if_false]
          rw [avoid_no_shapes _ _ _ { cx := p.cbx, w := p.width, rtl := false } rfl]
      | some c =>
        simp only [Option.isNone_some, Bool.false_and, Bool.false_eq_true, if_false]
        rw [avoid_no_shapes _ _ _ { cx := p.cbx, w := p.width, rtl := false } rfl]

theorem iterLines_no_float (p : Para) (hl : p.align.rtl = false) : ∀ (fuel : Nat) (skip : Option Nat) (y : Rat)
    (first : Bool), LF.iterLines [] p fuel skip y first = LB.iterLines p fuel skip y first
  | 0, _, _, _ => rfl
  | fuel + 1, skip, y, first => by
    unfold LF.iterLines LB.iterLines
    rw [nextLine_no_float p hl]
    cases LB.nextLine p skip y first with
    | error e => rfl
    | ok o =>
      cases o with
      | none => rfl
      | some line =>
        simp only
        cases line.resume with
        | none => rfl
        | some r => simp only; rw [iterLines_no_float p hl fuel]

end Wp.LFL
