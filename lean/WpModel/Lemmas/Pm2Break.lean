/-
Source-level reading of the break values / page names meeting between two sibling boxes, valid resume
positions, and their link to what `_in_flow_layout` computes on laid-out fragments (`meetBreak`):
a *complete* fragment of a box ends with the same chain of `break-after` values and the same page name as
the box itself (`EndOk`).  Used by the page-level C04 theorems (Props/C04Pm2.lean).
-/
import WpModel.Lemmas.Pm2Step

namespace Wp.PM
open Wp

/-! ### `break-after` chain and last page name of a source box -/

mutual
def boxAfterChain : PBox → List Brk
  | .para _ _ _ st => [st.brkAfter]
  | .block _ st kids => st.brkAfter :: boxAfterChainLast kids
def boxAfterChainLast : List PBox → List Brk
  | [] => []
  | b :: rest => match rest with
    | [] => boxAfterChain b
    | _ :: _ => boxAfterChainLast rest
end

mutual
def boxPageEnd : PBox → String
  | .para _ _ _ st => st.page
  | .block _ st kids => let s := boxPageEndLast kids; if s = "" then st.page else s
def boxPageEndLast : List PBox → String
  | [] => ""
  | b :: rest => match rest with
    | [] => boxPageEnd b
    | _ :: _ => boxPageEndLast rest
end

/-- The break values meeting between two adjacent siblings, in tree order (what
`block_level_page_break(a, b)` folds). -/
def valuesBetween (a b : PBox) : List Brk := (boxAfterChain a).reverse ++ boxBeforeChain b

/-- `_in_flow_layout`'s test, on source boxes: the page name changes to a non-empty name, or the
strongest value meeting between `a` and `b` forces a page break. -/
def meets (a b : PBox) : Bool :=
  (boxPageEnd a ≠ boxPageStart b && boxPageStart b ≠ "") || forcesPage (resolve (valuesBetween a b))

/-- The fragment ends like the box. -/
def EndOk (f : Frag) (b : PBox) : Prop :=
  fragAfterChain f = boxAfterChain b ∧ fragPageEnd f = boxPageEnd b

def EndOkLast (fs : List Frag) (bs : List PBox) : Prop :=
  fragAfterChainLast fs = boxAfterChainLast bs ∧ fragPageEndLast fs = boxPageEndLast bs

@[simp] theorem fragAfterChain_withIdx (f : Frag) (i : Nat) : fragAfterChain (f.withIdx i) = fragAfterChain f := by
  cases f <;> simp [Frag.withIdx, fragAfterChain]

@[simp] theorem fragPageEnd_withIdx (f : Frag) (i : Nat) : fragPageEnd (f.withIdx i) = fragPageEnd f := by
  cases f <;> simp [Frag.withIdx, fragPageEnd]

theorem fragAfterChainLast_snoc (fs : List Frag) (f : Frag) : fragAfterChainLast (fs ++ [f]) = fragAfterChain f := by
  induction fs with
  | nil => simp [fragAfterChainLast]
  | cons x xs ih =>
    cases xs with
    | nil => simp [fragAfterChainLast]
    | cons y ys => simpa [fragAfterChainLast] using ih

theorem fragPageEndLast_snoc (fs : List Frag) (f : Frag) : fragPageEndLast (fs ++ [f]) = fragPageEnd f := by
  induction fs with
  | nil => simp [fragPageEndLast]
  | cons x xs ih =>
    cases xs with
    | nil => simp [fragPageEndLast]
    | cons y ys => simpa [fragPageEndLast] using ih

theorem boxAfterChainLast_snoc (bs : List PBox) (b : PBox) : boxAfterChainLast (bs ++ [b]) = boxAfterChain b := by
  induction bs with
  | nil => simp [boxAfterChainLast]
  | cons x xs ih =>
    cases xs with
    | nil => simp [boxAfterChainLast]
    | cons y ys => simpa [boxAfterChainLast] using ih

theorem boxPageEndLast_snoc (bs : List PBox) (b : PBox) : boxPageEndLast (bs ++ [b]) = boxPageEnd b := by
  induction bs with
  | nil => simp [boxPageEndLast]
  | cons x xs ih =>
    cases xs with
    | nil => simp [boxPageEndLast]
    | cons y ys => simpa [boxPageEndLast] using ih

theorem endOkLast_snoc (fs : List Frag) (bs : List PBox) (f : Frag) (b : PBox) (h : EndOk f b) :
    EndOkLast (fs ++ [f]) (bs ++ [b]) := by
  unfold EndOkLast
  rw [fragAfterChainLast_snoc, fragPageEndLast_snoc, boxAfterChainLast_snoc, boxPageEndLast_snoc]
  exact h

theorem endOkLast_nil : EndOkLast [] [] := ⟨rfl, rfl⟩

theorem boxAfterChainLast_append (pre bs : List PBox) (h : bs ≠ []) :
    boxAfterChainLast (pre ++ bs) = boxAfterChainLast bs := by
  induction pre with
  | nil => rfl
  | cons x xs ih =>
    cases hq : xs ++ bs with
    | nil => simp at hq; exact absurd hq.2 h
    | cons y ys =>
      have h1 : boxAfterChainLast (x :: y :: ys) = boxAfterChainLast (y :: ys) := by simp [boxAfterChainLast]
      rw [List.cons_append, hq, h1, ← hq]; exact ih

theorem boxPageEndLast_append (pre bs : List PBox) (h : bs ≠ []) :
    boxPageEndLast (pre ++ bs) = boxPageEndLast bs := by
  induction pre with
  | nil => rfl
  | cons x xs ih =>
    cases hq : xs ++ bs with
    | nil => simp at hq; exact absurd hq.2 h
    | cons y ys =>
      have h1 : boxPageEndLast (x :: y :: ys) = boxPageEndLast (y :: ys) := by simp [boxPageEndLast]
      rw [List.cons_append, hq, h1, ← hq]; exact ih

/-- The last fragment of a list and its `EndOk`. -/
theorem endOkLast_getLast (fs : List Frag) (bs : List PBox) (l : Frag) (a : PBox)
    (h : EndOkLast fs bs) (hl : fs.getLast? = some l) (ha : bs.getLast? = some a) : EndOk l a := by
  obtain ⟨fs', rfl⟩ : ∃ fs', fs = fs' ++ [l] := by
    rw [List.getLast?_eq_some_iff] at hl; exact hl
  obtain ⟨bs', rfl⟩ : ∃ bs', bs = bs' ++ [a] := by
    rw [List.getLast?_eq_some_iff] at ha; exact ha
  unfold EndOkLast at h
  rw [fragAfterChainLast_snoc, fragPageEndLast_snoc, boxAfterChainLast_snoc, boxPageEndLast_snoc] at h
  exact h

/-! ### valid resume positions -/

mutual
/-- The resume position designates an existing child at every level (paragraph positions are always fine). -/
def Valid : PBox → Option Resume → Prop
  | .para _ _ _ _, _ => True
  | .block _ _ kids, σ => kids = [] ∨ ValidKids kids (skipIdxOf σ) (subSkipOf σ)
def ValidKids : List PBox → Nat → Option Resume → Prop
  | [], _, _ => False
  | b :: _, 0, sub => Valid b sub
  | _ :: bs, k + 1, sub => ValidKids bs k sub
end

theorem valid_none (b : PBox) : Valid b none := by
  cases b with
  | para _ _ _ _ => simp [Valid]
  | block id st kids =>
    simp only [Valid, skipIdxOf_none, subSkipOf_none]
    cases kids with
    | nil => left; rfl
    | cons k ks =>
      right
      simp only [ValidKids]
      exact valid_none k
termination_by sizeOf b
decreasing_by simp_wf; omega

theorem validKids_lt (bs : List PBox) (k : Nat) (sub : Option Resume) (h : ValidKids bs k sub) : k < bs.length := by
  induction bs generalizing k with
  | nil => simp [ValidKids] at h
  | cons b bs ih =>
    cases k with
    | zero => simp
    | succ k => simp only [ValidKids] at h; have := ih k h; simp; omega

theorem validKids_get (bs : List PBox) (k : Nat) (sub : Option Resume) (h : ValidKids bs k sub) :
    ∃ b, bs[k]? = some b ∧ Valid b sub := by
  induction bs generalizing k with
  | nil => simp [ValidKids] at h
  | cons b bs ih =>
    cases k with
    | zero => exact ⟨b, by simp, by simpa [ValidKids] using h⟩
    | succ k => simp only [ValidKids] at h; simpa using ih k h

theorem validKids_of_get (bs : List PBox) (k : Nat) (sub : Option Resume) (b : PBox)
    (hb : bs[k]? = some b) (hv : Valid b sub) : ValidKids bs k sub := by
  induction bs generalizing k with
  | nil => simp at hb
  | cons x bs ih =>
    cases k with
    | zero => simp at hb; subst hb; simpa [ValidKids] using hv
    | succ k => simp only [ValidKids]; exact ih k (by simpa using hb)

theorem validKids_append (pre bs : List PBox) (m : Nat) (sub : Option Resume) :
    ValidKids (pre ++ bs) (pre.length + m) sub ↔ ValidKids bs m sub := by
  induction pre with
  | nil => simp
  | cons x xs ih =>
    have : (x :: xs).length + m = (xs.length + m) + 1 := by simp; omega
    rw [this]
    simp only [List.cons_append, ValidKids]
    exact ih

theorem validKids_append_left (bs post : List PBox) (m : Nat) (sub : Option Resume) (h : ValidKids bs m sub) :
    ValidKids (bs ++ post) m sub := by
  obtain ⟨b, hb, hv⟩ := validKids_get bs m sub h
  apply validKids_of_get _ _ _ b _ hv
  have hlt := validKids_lt bs m sub h
  rw [List.getElem?_append_left hlt]; exact hb

/-! ### `find_earlier_page_break` returns valid positions -/

/-- While nothing is found, `previous_in_flow` is the child just examined. -/
theorem findEarlierGo_prev (fs : List Frag) (h : (findEarlierGo fs).found = none) :
    (findEarlierGo fs).prev = fs.head? := by
  cases fs with
  | nil => simp [findEarlierGo]
  | cons x xs =>
    rw [findEarlierGo] at h ⊢
    dsimp only at h ⊢
    split
    · rename_i heq; rw [heq] at h; simp at h
    · rename_i heq
      rw [heq] at h
      dsimp only at h ⊢
      split
      · rename_i heq2; rw [heq2] at h; simp at h
      · rename_i heq2
        rw [heq2] at h
        dsimp only at h ⊢
        split
        · split
          · rename_i heq3; rw [heq3] at h; simp_all
          · rfl
        · rfl

mutual
theorem findEarlierGo_valid : (fs : List Frag) → ∀ (bs : List PBox) (i : Nat) (sub : Option Resume),
    FullFrom fs bs i sub → (∀ b, bs.head? = some b → Valid b sub) →
    ∀ kept r, (findEarlierGo fs).found = some (kept, r) → ∃ m sub', r = .node (i + m) sub' ∧ ValidKids bs m sub'
  | [] => by
    intro bs i sub _ _ kept r h
    simp [findEarlierGo] at h
  | x :: xs => by
    intro bs i sub hf hv kept r h
    cases bs with
    | nil => simp [FullFrom] at hf
    | cons b bs' =>
      simp only [FullFrom] at hf
      obtain ⟨hx, hxi, hxs⟩ := hf
      rw [findEarlierGo] at h
      dsimp only at h
      split at h
      · rename_i kept0 r0 hfound
        simp only [Option.some.injEq, Prod.mk.injEq] at h
        obtain ⟨_, rfl⟩ := h
        obtain ⟨m, sub', hr, hm⟩ := findEarlierGo_valid xs bs' (i + 1) none hxs
          (fun b _ => valid_none b) kept0 r0 hfound
        exact ⟨m + 1, sub', by rw [hr]; congr 1; omega, by simpa [ValidKids] using hm⟩
      · rename_i hnone
        split at h
        · rename_i p hba
          simp only [Option.some.injEq, Prod.mk.injEq] at h
          obtain ⟨_, rfl⟩ := h
          -- p is the head of xs
          have hprev := findEarlierGo_prev xs hnone
          have hp : xs.head? = some p := by
            rw [← hprev]
            split at hba
            · rename_i p' hp'
              split at hba
              · simp only [Option.some.injEq] at hba; rw [hp', hba]
              · cases hba
            · cases hba
          cases xs with
          | nil => simp at hp
          | cons p' xs' =>
            simp only [List.head?_cons, Option.some.injEq] at hp
            subst hp
            cases bs' with
            | nil => simp [FullFrom] at hxs
            | cons b1 bs'' =>
              simp only [FullFrom] at hxs
              exact ⟨1, none, by rw [hxs.2.1], by simpa [ValidKids] using valid_none b1⟩
        · split at h
          · split at h
            · rename_i x' r1 hfe
              simp only [Option.some.injEq, Prod.mk.injEq] at h
              obtain ⟨_, rfl⟩ := h
              have := findEarlierFrag_valid x b sub hx (hv b rfl) x' r1 hfe
              exact ⟨0, some r1, by rw [hxi]; rfl, by simpa [ValidKids] using this⟩
            · simp at h
          · simp at h
theorem findEarlierFrag_valid : (x : Frag) → ∀ (b : PBox) (σ : Option Resume), Full x b σ → Valid b σ →
    ∀ x' r, findEarlierFrag x = some (x', r) → Valid b (some r)
  | .para id idx st n g lines => by
    intro b σ hf _ x' r _
    cases b with
    | block _ _ _ => simp [Full] at hf
    | para _ _ _ _ => simp [Valid]
  | .block id idx st g kids => by
    intro b σ hf hv x' r h
    cases b with
    | para _ _ _ _ => simp [Full] at hf
    | block id' st' bkids =>
      simp only [Full] at hf
      simp only [findEarlierFrag] at h
      split at h
      · rename_i kids' r0 hfound
        simp only [Option.some.injEq, Prod.mk.injEq] at h
        obtain ⟨_, rfl⟩ := h
        simp only [Valid] at hv ⊢
        have hhead : ∀ b, (bkids.drop (skipIdxOf σ)).head? = some b → Valid b (subSkipOf σ) := by
          intro b hb
          rcases hv with hv | hv
          · subst hv; simp at hb
          · obtain ⟨b', hb', hvb⟩ := validKids_get _ _ _ hv
            rw [List.head?_drop, hb'] at hb
            simp only [Option.some.injEq] at hb
            subst hb; exact hvb
        obtain ⟨m, sub', rfl, hm⟩ := findEarlierGo_valid kids _ _ _ hf hhead kids' r0 hfound
        right
        simp only [skipIdxOf_node, subSkipOf_node]
        have hlen : skipIdxOf σ ≤ bkids.length := by
          have := validKids_lt _ _ _ hm
          simp at this; omega
        have := (validKids_append (bkids.take (skipIdxOf σ)) (bkids.drop (skipIdxOf σ)) m sub').mpr hm
        rw [List.take_append_drop, List.length_take, Nat.min_eq_left hlen] at this
        exact this
      · cases h
end

end Wp.PM
