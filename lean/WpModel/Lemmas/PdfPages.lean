/- Lemmas about Model/PdfPages (core Lean only). -/
import WpModel.Model.PdfPages
namespace Wp.Pdf

theorem genPages_eq (zoom : Rat) (ps : List PageGeom) (acc : List PdfPage) :
    genPages zoom ps acc = acc ++ ps.map (pdfPage zoom) := by
  induction ps generalizing acc with
  | nil => simp [genPages]
  | cons p ps ih => simp [genPages, ih]

theorem pageTree_eq (zoom : Rat) (ps : List PageGeom) : pageTree zoom ps = ps.map (pdfPage zoom) := by
  simp [pageTree, genPages_eq]

theorem minR_le_right (a b : Rat) : minR a b ≤ b := by
  unfold minR; split <;> grind

theorem minR_nonneg (a b : Rat) (ha : 0 ≤ a) (hb : 0 ≤ b) : 0 ≤ minR a b := by
  unfold minR; split <;> assumption

end Wp.Pdf
