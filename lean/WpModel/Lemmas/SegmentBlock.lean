/-
Post-condition of `layoutBox` / `layoutKids` (conservation + progress) for nested blocks:
mutual structural induction over `PBox` / `List PBox`.
-/
import WpModel.Lemmas.SegmentPara
import WpModel.Lemmas.SegmentEarlier

namespace Wp.PM
open Wp

/-- Post-condition of the children loop, relative to the boxes `all` at positions `i0, i0+1, …`
(the first one resumed at `sub0`). -/
def KidsPost (all : List PBox) (i0 : Nat) (sub0 : Option Resume) : KidsOutcome → Prop
  | .finished s' => FullFrom s'.newChildren all i0 sub0
  | .aborted _ _ => True
  | .stopped ρ s' => ∃ m, ρ.isSome = true ∧ skipIdxOf ρ = i0 + m ∧
      fragLinesList s'.newChildren ++ linesFromKids all m (subSkipOf ρ) = linesFromKids all 0 sub0 ∧
      posKids all 0 sub0 < posKids all m (subSkipOf ρ)

theorem fragLinesList_append (a b : List Frag) :
    fragLinesList (a ++ b) = fragLinesList a ++ fragLinesList b := by
  induction a with
  | nil => simp [fragLinesList]
  | cons x xs ih => simp [fragLinesList, ih]

theorem linesFromKids_append_zero (B R : List PBox) (sub0 : Option Resume) :
    linesFromKids (B ++ R) 0 sub0 =
      linesFromKids B 0 sub0 ++ linesFromKids R 0 (if B = [] then sub0 else none) := by
  cases B with
  | nil => simp [linesFromKids]
  | cons b B => rw [linesFromKids_append_lt _ _ _ _ (by simp)]; simp

theorem posKids_append_zero (B : List PBox) (child : PBox) (rest : List PBox) (sub0 : Option Resume) :
    posKids (B ++ child :: rest) 0 sub0 ≤ sizeList B + pos child (if B = [] then sub0 else none) := by
  cases B with
  | nil => simp [posKids, sizeList]
  | cons b B =>
    rw [posKids_append_lt _ _ _ _ (by simp)]
    have := posKids_lt (b :: B) 0 sub0 (by simp)
    omega

/-- Stopping before the child at position `i0 + B.length`, at least one child being laid out. -/
theorem stop_before_spec (B R : List PBox) (i0 : Nat) (sub0 : Option Resume) (s' : KidsLoop)
    (hinv : FullFrom s'.newChildren B i0 sub0) (hne : s'.newChildren ≠ []) :
    KidsPost (B ++ R) i0 sub0 (.stopped (some (.node (i0 + B.length) none)) s') := by
  have hlen := fullFrom_length _ _ _ _ hinv
  have hB : 0 < B.length := by
    rw [← hlen]; exact List.length_pos_iff.mpr hne
  refine ⟨B.length, rfl, rfl, ?_, ?_⟩
  · rw [fullFrom_lines _ _ _ _ hinv, linesFromKids_append_lt _ _ _ _ hB]
    have := linesFromKids_append_len B R 0 none
    simp only [Nat.add_zero] at this
    simp only [subSkipOf_node]
    rw [this]
  · rw [posKids_append_lt _ _ _ _ hB]
    have := posKids_append_len B R 0 none
    simp only [Nat.add_zero] at this
    simp only [subSkipOf_node]
    rw [this]
    have := posKids_lt B 0 sub0 hB
    omega

theorem conclude_spec (index : Nat) (pie : Bool) (pb : Brk) (child : PBox) (s : KidsLoop)
    (frag : Option Frag) (resume : Option Resume) (B rest : List PBox) (i0 : Nat) (sub0 : Option Resume)
    (hgB : GoodList B) (hinv : FullFrom s.newChildren B i0 sub0) (hidx : index = i0 + B.length)
    (hchild : BoxPost child (if B = [] then sub0 else none) frag resume) :
    (∀ out s3, concludeKid index pie pb child s frag resume = (some out, s3) →
      KidsPost (B ++ child :: rest) i0 sub0 out) ∧
    (∀ s3, concludeKid index pie pb child s frag resume = (none, s3) →
      FullFrom s3.newChildren (B ++ [child]) i0 sub0 ∧ s3.skip = s.skip) := by
  cases frag with
  | none =>
    constructor
    · intro out s3 h
      unfold concludeKid at h
      dsimp only at h
      split at h
      · -- an earlier break
        rename_i kept r' hearlier
        simp only [Prod.mk.injEq, Option.some.injEq] at h
        obtain ⟨rfl, rfl⟩ := h
        have hfound : (findEarlierGo s.newChildren).found = some (kept, r') := by
          split at hearlier
          · exact hearlier
          · cases hearlier
        obtain ⟨m, sub', rfl, hm, hlines, hpos⟩ := (findEarlierGo_spec _ _ _ _ hgB hinv).2 kept r' hfound
        have h0 : 0 < B.length := by omega
        refine ⟨m, rfl, rfl, ?_, ?_⟩
        · simp only [subSkipOf_node]
          rw [linesFromKids_append_lt _ _ _ _ hm, linesFromKids_append_lt _ _ _ _ h0, ← List.append_assoc, hlines]
        · simp only [subSkipOf_node]
          rw [posKids_append_lt _ _ _ _ hm, posKids_append_lt _ _ _ _ h0]
          exact hpos
      · split at h
        · simp only [Prod.mk.injEq, Option.some.injEq] at h
          obtain ⟨rfl, rfl⟩ := h
          trivial
        · split at h
          · rename_i hne
            simp only [Prod.mk.injEq, Option.some.injEq] at h
            obtain ⟨rfl, rfl⟩ := h
            rw [hidx]
            apply stop_before_spec _ _ _ _ _ hinv
            intro he; rw [he] at hne; simp at hne
          · simp only [Prod.mk.injEq, Option.some.injEq] at h
            obtain ⟨rfl, rfl⟩ := h
            trivial
    · intro s3 h
      unfold concludeKid at h
      dsimp only at h
      split at h
      · simp at h
      · split at h
        · simp at h
        · split at h <;> simp at h
  | some f =>
    have hc := hchild f rfl
    cases resume with
    | some r' =>
      simp only at hc
      obtain ⟨hl, hp⟩ := hc
      constructor
      · intro out s3 h
        simp only [concludeKid, Prod.mk.injEq, Option.some.injEq] at h
        obtain ⟨rfl, rfl⟩ := h
        refine ⟨B.length, rfl, by rw [hidx]; rfl, ?_, ?_⟩
        · simp only [subSkipOf_node]
          rw [fragLinesList_append, fullFrom_lines _ _ _ _ hinv, linesFromKids_append_zero]
          have := linesFromKids_append_len B (child :: rest) 0 (some r')
          simp only [Nat.add_zero] at this
          rw [this]
          simp only [fragLinesList, fragLines_withIdx, List.append_nil, linesFromKids, List.append_assoc]
          rw [← List.append_assoc (fragLines f), hl]
        · simp only [subSkipOf_node]
          have := posKids_append_len B (child :: rest) 0 (some r')
          simp only [Nat.add_zero] at this
          rw [this]
          have := posKids_append_zero B child rest sub0
          simp only [posKids]
          omega
      · intro s3 h
        simp [concludeKid] at h
    | none =>
      simp only at hc
      constructor
      · intro out s3 h
        simp [concludeKid] at h
      · intro s3 h
        simp only [concludeKid, Prod.mk.injEq, true_and] at h
        subst h
        refine ⟨?_, rfl⟩
        apply fullFrom_snoc _ _ _ _ _ _ hinv (full_withIdx _ _ _ _ hc)
        simp [hidx]

/-! ### the loop state helpers keep the children -/

@[simp] theorem setCur_newChildren' (s : KidsLoop) (l : List Rat) (b : Bool) :
    (s.setCur l b).newChildren = s.newChildren := by
  unfold KidsLoop.setCur; split <;> rfl

@[simp] theorem appendCur_newChildren' (s : KidsLoop) (m : Rat) :
    (s.appendCur m).newChildren = s.newChildren := by
  unfold KidsLoop.appendCur; split <;> rfl

@[simp] theorem adoptAdj_newChildren' (s : KidsLoop) (h : Bool) (a : AdjOut) (f : Option Frag) :
    (s.adoptAdj h a f).newChildren = s.newChildren := by
  unfold KidsLoop.adoptAdj
  split
  · rfl
  · cases a <;> cases f <;> simp

theorem firstPass_keep (c : Ctx) (bs : Rat) (pienc : Bool) (posY : Rat) (r : LayoutResult)
    (frag : Option Frag) (y : Rat) (h : firstPass c bs pienc posY r = .keep frag y) :
    frag = none ∨ frag = r.frag := by
  unfold firstPass at h
  split at h
  · simp only [FirstPass.keep.injEq] at h; left; exact h.1.symm
  · rename_i f hf
    split at h
    · simp only [FirstPass.keep.injEq] at h; right; rw [hf]; exact h.1.symm
    · dsimp only at h
      split at h
      · simp only [FirstPass.keep.injEq] at h; left; exact h.1.symm
      · split at h
        · cases h
        · simp only [FirstPass.keep.injEq] at h; right; rw [hf]; exact h.1.symm

theorem boxPost_none (box : PBox) (skip resume : Option Resume) : BoxPost box skip none resume := by
  intro f h; cases h

theorem meetBreak_nil (s : KidsLoop) (child : PBox) (h : s.newChildren = []) : (meetBreak s child).2 = false := by
  unfold meetBreak; simp [h]

theorem finishBlock_post (c : Ctx) (st : PStyle) (p : Prep) (pie : Bool) (id idx : Nat) (out : KidsOutcome)
    (kids : List PBox) (skip : Option Resume) (hh : st.height = none)
    (hout : KidsPost (kids.drop (skipIdxOf skip)) (skipIdxOf skip) (subSkipOf skip) out) :
    BoxPost (.block id st kids) skip (finishBlock c st p pie id idx out).frag
      (finishBlock c st p pie id idx out).resume := by
  intro f hf
  cases out with
  | aborted page s => simp [finishBlock, abortResult] at hf
  | stopped resume s =>
    simp only [finishBlock] at hf ⊢
    obtain ⟨⟨g, rfl⟩, hr⟩ := finishContainer_frag _ _ _ _ _ _ _ _ _ _ _ _ _ _ _ _ _ _ hf
    rw [hr, forgetIfFixed_none _ _ _ _ hh]
    obtain ⟨m, hsome, hidx, hlines, hpos⟩ := hout
    cases resume with
    | none => simp at hsome
    | some ρ =>
      simp only
      constructor
      · simp only [fragLines, linesFrom]
        rw [hidx, linesFromKids_drop, hlines]
        have := linesFromKids_drop kids (skipIdxOf skip) 0 (subSkipOf skip)
        simpa using this.symm
      · simp only [pos]
        rw [hidx, posKids_drop]
        have := posKids_drop kids (skipIdxOf skip) 0 (subSkipOf skip)
        simp only [Nat.add_zero] at this
        rw [this]
        omega
  | finished s =>
    simp only [finishBlock] at hf ⊢
    obtain ⟨⟨g, rfl⟩, hr⟩ := finishContainer_frag _ _ _ _ _ _ _ _ _ _ _ _ _ _ _ _ _ _ hf
    rw [hr]
    simp only [Full]
    exact hout

mutual
/-- **Segment + progress post-condition of `block_level_layout`**, for every box without fixed heights
and with `orphans, widows ≥ 1`, every context, position, skip stack. -/
theorem box_spec : (box : PBox) → Good box → ∀ (c : Ctx) (idx : Nat) (y bs : Rat) (skip : Option Resume)
    (cb pie : Bool) (adjL : List Rat),
    BoxPost box skip (layoutBox c box idx y bs skip cb pie adjL).frag
      (layoutBox c box idx y bs skip cb pie adjL).resume
  | .para id n lineH st => by
    intro hg c idx y bs skip cb pie adjL
    exact para_spec id n lineH st hg c idx y bs skip cb pie adjL
  | .block id st kids => by
    intro hg c idx y bs skip cb pie adjL
    simp only [Good] at hg
    simp only [layoutBox]
    apply finishBlock_post _ _ _ _ _ _ _ _ _ hg.1
    have := kids_spec kids hg.2 c st [] (skipIdxOf skip) (subSkipOf skip) 0 (skipIdxOf skip)
      (prepare c st y bs skip cb pie adjL).bs pie
      { newChildren := [], posY := (prepare c st y bs skip cb pie adjL).posY,
        adjL := (prepare c st y bs skip cb pie adjL).adjL, cur := (prepare c st y bs skip cb pie adjL).cur,
        curIsL := (prepare c st y bs skip cb pie adjL).curIsL,
        nextPage := { brk := none, page := none }, skip := subSkipOf skip }
      (by simp [GoodList]) (by simp [FullFrom]) (by intro _; exact ⟨rfl, rfl⟩) (by intro h; simp; omega)
      (by simp)
    simpa using this
theorem kids_spec : (rest : List PBox) → GoodList rest → ∀ (c : Ctx) (st : PStyle) (B : List PBox) (i0 : Nat)
    (sub0 : Option Resume) (index skipIdx : Nat) (bs : Rat) (pie : Bool) (s : KidsLoop),
    GoodList B → FullFrom s.newChildren B i0 sub0 →
    (index < skipIdx → B = [] ∧ i0 = skipIdx) → (skipIdx ≤ index → index = i0 + B.length) →
    s.skip = (if B = [] then sub0 else none) →
    KidsPost (B ++ rest.drop (skipIdx - index)) i0 sub0 (layoutKids c st rest index skipIdx bs pie s)
  | [] => by
    intro _ c st B i0 sub0 index skipIdx bs pie s hgB hinv _ _ _
    simp only [layoutKids, List.drop_nil, List.append_nil, KidsPost]
    exact hinv
  | child :: rest => by
    intro hg c st B i0 sub0 index skipIdx bs pie s hgB hinv hlt hge hskip
    simp only [GoodList] at hg
    unfold layoutKids
    by_cases hc : index < skipIdx
    · rw [if_pos hc]
      obtain ⟨hB, hi0⟩ := hlt hc
      have hd : (child :: rest).drop (skipIdx - index) = rest.drop (skipIdx - (index + 1)) := by
        have : skipIdx - index = (skipIdx - (index + 1)) + 1 := by omega
        rw [this, List.drop_succ_cons]
      rw [hd]
      exact kids_spec rest hg.2 c st B i0 sub0 (index + 1) skipIdx bs pie s hgB hinv
        (fun _ => ⟨hB, hi0⟩) (by intro _; subst hB; simp; omega) hskip
    · rw [if_neg hc]
      have hidx := hge (by omega)
      have hd : skipIdx - index = 0 := by omega
      rw [hd, List.drop_zero]
      dsimp only
      split
      · -- forced break before `child`
        rename_i hforced
        rw [hidx]
        apply stop_before_spec _ _ _ _ _ hinv
        intro he
        rw [meetBreak_nil s child he] at hforced
        cases hforced
      · have hnext : ∀ s3 : KidsLoop, FullFrom s3.newChildren (B ++ [child]) i0 sub0 → s3.skip = none →
            KidsPost (B ++ child :: rest) i0 sub0 (layoutKids c st rest (index + 1) skipIdx bs pie s3) := by
          intro s3 h3 hs3
          have := kids_spec rest hg.2 c st (B ++ [child]) i0 sub0 (index + 1) skipIdx bs pie s3
            (goodList_append _ _ hgB (by simp [GoodList, hg.1])) h3 (by intro _; omega)
            (by intro _; simp; omega) (by simp [hs3])
          have hd' : skipIdx - (index + 1) = 0 := by omega
          simpa [hd'] using this
        split
        · -- first pass kept (or discarded) the child
          rename_i frag posY hfp
          have hchild : BoxPost child (if B = [] then sub0 else none) frag
              (layoutBox c child index s.posY bs s.skip st.isRoot (pie && s.newChildren.isEmpty) s.cur).resume := by
            rcases firstPass_keep _ _ _ _ _ _ _ hfp with h | h
            · rw [h]; exact boxPost_none _ _ _
            · rw [h, ← hskip]; exact box_spec child hg.1 _ _ _ _ _ _ _ _
          split
          · rename_i out s3 heq
            exact (conclude_spec _ _ _ _ _ _ _ B rest i0 sub0 hgB (by simpa using hinv) hidx hchild).1 out s3 heq
          · rename_i s3 heq
            have hcs := (conclude_spec _ _ _ _ _ _ _ B rest i0 sub0 hgB (by simpa using hinv) hidx hchild).2 s3 heq
            exact hnext s3 hcs.1 hcs.2
        · -- second layout with a larger bottom space
          rename_i bs' hfp
          have hchild : BoxPost child (if B = [] then sub0 else none)
              (layoutBox c child index s.posY bs' s.skip st.isRoot (pie && s.newChildren.isEmpty)
                (s.setCur (layoutBox c child index s.posY bs s.skip st.isRoot (pie && s.newChildren.isEmpty) s.cur).adjL
                  s.curIsL).cur).frag
              (layoutBox c child index s.posY bs' s.skip st.isRoot (pie && s.newChildren.isEmpty)
                (s.setCur (layoutBox c child index s.posY bs s.skip st.isRoot (pie && s.newChildren.isEmpty) s.cur).adjL
                  s.curIsL).cur).resume := by
            rw [← hskip]; exact box_spec child hg.1 _ _ _ _ _ _ _ _
          split
          · rename_i out s3 heq
            exact (conclude_spec _ _ _ _ _ _ _ B rest i0 sub0 hgB (by simpa using hinv) hidx hchild).1 out s3 heq
          · rename_i s3 heq
            have hcs := (conclude_spec _ _ _ _ _ _ _ B rest i0 sub0 hgB (by simpa using hinv) hidx hchild).2 s3 heq
            exact hnext s3 hcs.1 hcs.2
end

end Wp.PM
