/-
"Every table box sits in a table wrapper" as an invariant of the flex / grid pass of
Model/AnonBoxes.lean (`flex_boxes` / `grid_boxes`, `flex_children` / `grid_children`): the anonymous
block put in place of an inline-block item copies `is_table_wrapper`, so the wrapper of an
`inline-table` item stays a wrapper.  Core Lean only.
-/
import WpModel.Lemmas.Pipeline

namespace Wp.Bx
open KBox

/-- No child is a table box. -/
def NoTableKid (kids : List KBox) : Prop := ∀ c ∈ kids, c.isA .TableBox = false

mutual
/-- Outside running elements, a table box occurs only as a child of a table wrapper. -/
def Wrapped : KBox → Prop
  | .mk _ st _ inst _ kids _ => (st.run = false → inst.wrapper = false → NoTableKid kids) ∧ WrappedL kids
def WrappedL : List KBox → Prop
  | [] => True
  | c :: cs => Wrapped c ∧ WrappedL cs
end

theorem wrapped_parts {b : KBox} (h : Wrapped b) :
    (b.st.run = false → b.inst.wrapper = false → NoTableKid b.kids) ∧ WrappedL b.kids := by
  obtain ⟨k, st, el, inst, text, kids, cols⟩ := b
  unfold Wrapped at h
  exact h

theorem wrapped_mk {b : KBox} (h1 : b.st.run = false → b.inst.wrapper = false → NoTableKid b.kids)
    (h2 : WrappedL b.kids) : Wrapped b := by
  obtain ⟨k, st, el, inst, text, kids, cols⟩ := b
  unfold Wrapped
  exact ⟨h1, h2⟩

theorem wrapper_withInst_same (b : KBox) (i : Inst) (h : i.wrapper = b.inst.wrapper) :
    (b.withInst i).inst.wrapper = b.inst.wrapper := by
  obtain ⟨k, st, el, inst, text, kids, cols⟩ := b
  exact h

theorem wrapped_withInst (b : KBox) (i : Inst) (h : i.wrapper = b.inst.wrapper) :
    Wrapped (b.withInst i) ↔ Wrapped b := by
  obtain ⟨k, st, el, inst, text, kids, cols⟩ := b
  simp only [KBox.inst] at h
  unfold withInst Wrapped
  rw [h]

theorem noTableKid_cons (c : KBox) (cs : List KBox) :
    NoTableKid (c :: cs) ↔ c.isA .TableBox = false ∧ NoTableKid cs := by
  unfold NoTableKid
  simp

theorem inlineLevel_not_table (k : BoxKind) (h : Gen.isSub k .InlineLevelBox = true) :
    Gen.isSub k .TableBox = false := by
  cases k <;> first | rfl | (exact absurd h (by decide))

/-- `flex_children` / `grid_children`: every item is still `Wrapped`, and no table box appears among
the items when there was none among the children. -/
theorem itemChildren_wrapped (grid : Bool) (l : List KBox) (h : WrappedL l) :
    WrappedL (itemChildren grid l) ∧ (NoTableKid l → NoTableKid (itemChildren grid l)) := by
  induction l with
  | nil => exact ⟨by simp [itemChildren, WrappedL], fun _ => by simp [itemChildren, NoTableKid]⟩
  | cons c cs ih =>
    unfold WrappedL at h
    obtain ⟨ih1, ih2⟩ := ih h.2
    unfold itemChildren
    simp only
    generalize hc1 : (if grid = true then c else c.withInst { c.inst with noFloat := true }) = c1
    have e1 : (∀ cl, c1.isA cl = c.isA cl) ∧ c1.kids = c.kids ∧ c1.st = c.st ∧
        c1.inst.wrapper = c.inst.wrapper ∧ (Wrapped c1 ↔ Wrapped c) := by
      rw [← hc1]; split
      · exact ⟨fun _ => rfl, rfl, rfl, rfl, Iff.rfl⟩
      · exact ⟨isA_withInst _ _, kids_withInst _ _, st_withInst _ _, wrapper_withInst_same _ _ rfl,
          wrapped_withInst _ _ rfl⟩
    generalize hc2 : (if c1.inFlow = true then
        (if grid = true then c1.withInst { c1.inst with gridItem := true }
         else c1.withInst { c1.inst with flexItem := true }) else c1) = c2
    have e2 : (∀ cl, c2.isA cl = c.isA cl) ∧ c2.kids = c.kids ∧ c2.st = c.st ∧
        c2.inst.wrapper = c.inst.wrapper ∧ (Wrapped c2 ↔ Wrapped c) := by
      rw [← hc2]
      split
      · split
        · exact ⟨fun cl => by rw [isA_withInst, e1.1], by rw [kids_withInst, e1.2.1], by rw [st_withInst, e1.2.2.1],
            by refine (wrapper_withInst_same _ _ ?_).trans e1.2.2.2.1; rfl,
            by refine (wrapped_withInst _ _ ?_).trans e1.2.2.2.2; rfl⟩
        · exact ⟨fun cl => by rw [isA_withInst, e1.1], by rw [kids_withInst, e1.2.1], by rw [st_withInst, e1.2.2.1],
            by refine (wrapper_withInst_same _ _ ?_).trans e1.2.2.2.1; rfl,
            by refine (wrapped_withInst _ _ ?_).trans e1.2.2.2.2; rfl⟩
      · exact e1
    obtain ⟨a2, k2, s2, w2, y2⟩ := e2
    have hc2w : Wrapped c2 := y2.2 h.1
    have hmark : ∀ b : KBox,
        ((if grid = true then b.withInst { b.inst with gridItem := true }
          else b.withInst { b.inst with flexItem := true }).isA .TableBox = b.isA .TableBox) ∧
        (Wrapped (if grid = true then b.withInst { b.inst with gridItem := true }
          else b.withInst { b.inst with flexItem := true }) ↔ Wrapped b) := by
      intro b; split
      · exact ⟨isA_withInst _ _ _, wrapped_withInst _ _ rfl⟩
      · exact ⟨isA_withInst _ _ _, wrapped_withInst _ _ rfl⟩
    split
    · -- a text run of spaces: dropped
      exact ⟨ih1, fun hn => ih2 ((noTableKid_cons c cs).1 hn).2⟩
    · split
      · -- an inline-block item: an anonymous block with the same children, style and wrapper flag
        have hw : Wrapped (((anonFrom .BlockBox c2 c2.kids).withStyle c2.st).withInst
            { ((anonFrom .BlockBox c2 c2.kids).withStyle c2.st).inst with wrapper := c2.inst.wrapper }) := by
          have hp := wrapped_parts hc2w
          apply wrapped_mk
          · intro hr hwr
            exact hp.1 hr hwr
          · exact hp.2
        refine ⟨?_, fun hn => ?_⟩
        · unfold WrappedL
          exact ⟨(hmark _).2.2 hw, ih1⟩
        · rw [noTableKid_cons]
          exact ⟨by rw [(hmark _).1]; rfl, ih2 ((noTableKid_cons c cs).1 hn).2⟩
      · split
        · -- another inline-level item: wrapped in an anonymous block
          rename_i hil
          have hnt : c2.isA .TableBox = false := inlineLevel_not_table _ hil
          refine ⟨?_, fun hn => ?_⟩
          · unfold WrappedL
            refine ⟨(hmark _).2.2 ?_, ih1⟩
            apply wrapped_mk
            · intro _ _
              show NoTableKid [_]
              rw [noTableKid_cons]
              refine ⟨?_, fun _ hx => by cases hx⟩
              split
              · rw [isA_withInst]; exact hnt
              · exact hnt
            · show WrappedL [_]
              unfold WrappedL
              refine ⟨?_, trivial⟩
              split
              · refine (wrapped_withInst _ _ ?_).2 hc2w; rfl
              · exact hc2w
          · rw [noTableKid_cons]
            exact ⟨by rw [(hmark _).1]; rfl, ih2 ((noTableKid_cons c cs).1 hn).2⟩
        · -- a block-level item stays
          refine ⟨?_, fun hn => ?_⟩
          · unfold WrappedL
            exact ⟨hc2w, ih1⟩
          · rw [noTableKid_cons]
            exact ⟨by rw [a2]; exact ((noTableKid_cons c cs).1 hn).1, ih2 ((noTableKid_cons c cs).1 hn).2⟩

mutual
/-- `flex_boxes` / `grid_boxes` keep every table box inside its wrapper. -/
theorem fgb_wrapped : ∀ (grid : Bool) (b : KBox), Wrapped b → Wrapped (fgb grid b)
  | grid, .mk k st el inst text kids cols, h => by
    unfold fgb
    split
    · exact h
    · unfold Wrapped at h
      obtain ⟨k1, k2⟩ := fgbKids_wrapped grid kids h.2
      simp only
      by_cases hcont : (if grid = true then Gen.isSub k .GridContainerBox else Gen.isSub k .FlexContainerBox) = true
      · rw [if_pos hcont]
        obtain ⟨i1, i2⟩ := itemChildren_wrapped grid (fgbKids grid kids) k1
        unfold Wrapped
        exact ⟨fun hr hw => i2 (k2 (h.1 hr hw)), i1⟩
      · rw [if_neg hcont]
        unfold Wrapped
        exact ⟨fun hr hw => k2 (h.1 hr hw), k1⟩
theorem fgbKids_wrapped : ∀ (grid : Bool) (l : List KBox), WrappedL l →
    WrappedL (fgbKids grid l) ∧ (NoTableKid l → NoTableKid (fgbKids grid l))
  | _, [], _ => ⟨by simp [fgbKids, WrappedL], fun _ => by simp [fgbKids, NoTableKid]⟩
  | grid, c :: cs, h => by
    unfold WrappedL at h
    have a := fgb_wrapped grid c h.1
    obtain ⟨b1, b2⟩ := fgbKids_wrapped grid cs h.2
    unfold fgbKids
    refine ⟨by unfold WrappedL; exact ⟨a, b1⟩, fun hn => ?_⟩
    rw [noTableKid_cons] at hn ⊢
    refine ⟨?_, b2 hn.2⟩
    obtain ⟨k, st, el, inst, text, kids, cols⟩ := c
    unfold fgb
    split
    · exact hn.1
    · exact hn.1
end

end Wp.Bx
