/-
Text through the whole `create_anonymous_boxes` pipeline of Model/AnonBoxes.lean: what each pass does to
the text of a tree whose text lives in text boxes that are leaves (`Tidy`).  Core Lean only.
-/
import WpModel.Lemmas.Boxes
import WpModel.Lemmas.Tables

namespace Wp.Bx
open KBox

mutual
/-- Text lives in text boxes, and text boxes are leaves: true of every tree `element_to_box` builds. -/
def Tidy : KBox → Prop
  | .mk k _ _ _ text kids _ =>
    (Gen.isSub k .TextBox = true → kids = []) ∧ (Gen.isSub k .TextBox = false → text = []) ∧ TidyL kids
def TidyL : List KBox → Prop
  | [] => True
  | c :: cs => Tidy c ∧ TidyL cs
end

theorem tidyL_iff (l : List KBox) : TidyL l ↔ ∀ c ∈ l, Tidy c := by
  induction l with
  | nil => simp [TidyL]
  | cons c cs ih => simp [TidyL, ih]

theorem tidyL_append (a b : List KBox) : TidyL (a ++ b) ↔ TidyL a ∧ TidyL b := by
  induction a with
  | nil => simp [TidyL]
  | cons c cs ih => simp [TidyL, ih, and_assoc]

theorem tidy_parts {b : KBox} (h : Tidy b) :
    (b.isA .TextBox = true → b.kids = []) ∧ (b.isA .TextBox = false → b.text = []) ∧ TidyL b.kids := by
  obtain ⟨k, st, el, inst, text, kids, cols⟩ := b
  unfold Tidy at h; exact h

theorem tidy_textLeaf {b : KBox} (h : Tidy b) : TextLeaf b := (tidy_parts h).1

theorem tidy_mk {b : KBox} (h1 : b.isA .TextBox = true → b.kids = []) (h2 : b.isA .TextBox = false → b.text = [])
    (h3 : TidyL b.kids) : Tidy b := by
  obtain ⟨k, st, el, inst, text, kids, cols⟩ := b
  unfold Tidy; exact ⟨h1, h2, h3⟩

theorem tidy_withInst (b : KBox) (i : Inst) : Tidy (b.withInst i) ↔ Tidy b := by
  obtain ⟨k, st, el, inst, text, kids, cols⟩ := b
  simp [KBox.withInst, Tidy]

theorem tidy_withStyle (b : KBox) (s : Style) : Tidy (b.withStyle s) ↔ Tidy b := by
  obtain ⟨k, st, el, inst, text, kids, cols⟩ := b
  simp [KBox.withStyle, Tidy]

theorem tidy_withCols (b : KBox) (c : List KBox) : Tidy (b.withCols c) ↔ Tidy b := by
  obtain ⟨k, st, el, inst, text, kids, cols⟩ := b
  simp [KBox.withCols, Tidy]

theorem tidy_withKids (b : KBox) (ks : List KBox) (hb : Tidy b) (hk : b.isA .TextBox = false) (h : TidyL ks) :
    Tidy (b.withKids ks) := by
  obtain ⟨k, st, el, inst, text, kids, cols⟩ := b
  simp only [KBox.isA, KBox.kind] at hk
  unfold Tidy at hb
  unfold KBox.withKids Tidy
  exact ⟨(fun h' => by rw [hk] at h'; cases h'), hb.2.1, h⟩

theorem tidy_anon (cls : BoxKind) (p : KBox) (ks : List KBox) (hc : Gen.isSub cls .TextBox = false) (h : TidyL ks) :
    Tidy (anonFrom cls p ks) := by
  unfold anonFrom Tidy
  exact ⟨(fun h' => by rw [hc] at h'; cases h'), fun _ => rfl, h⟩

theorem leafText_withInst (b : KBox) (i : Inst) : leafText (b.withInst i) = leafText b := by
  obtain ⟨k, st, el, inst, text, kids, cols⟩ := b
  simp [KBox.withInst, leafText]

theorem leafText_withStyle (b : KBox) (s : Style) : leafText (b.withStyle s) = leafText b := by
  obtain ⟨k, st, el, inst, text, kids, cols⟩ := b
  simp [KBox.withStyle, leafText]

theorem leafText_withCols (b : KBox) (c : List KBox) : leafText (b.withCols c) = leafText b := by
  obtain ⟨k, st, el, inst, text, kids, cols⟩ := b
  simp [KBox.withCols, leafText]

theorem isA_withInst (b : KBox) (i : Inst) (c : BoxClass) : (b.withInst i).isA c = b.isA c := by
  obtain ⟨k, st, el, inst, text, kids, cols⟩ := b; rfl

theorem text_withInst (b : KBox) (i : Inst) : (b.withInst i).text = b.text := by
  obtain ⟨k, st, el, inst, text, kids, cols⟩ := b; rfl

theorem kids_withInst (b : KBox) (i : Inst) : (b.withInst i).kids = b.kids := by
  obtain ⟨k, st, el, inst, text, kids, cols⟩ := b; rfl

theorem st_withInst (b : KBox) (i : Inst) : (b.withInst i).st = b.st := by
  obtain ⟨k, st, el, inst, text, kids, cols⟩ := b; rfl

/-! ### flex_boxes / grid_boxes -/

theorem noSp_plainSpaces (t : Text) (h : allPlainSpaces t = true) : noSp t = [] := by
  unfold allPlainSpaces at h
  unfold noSp
  rw [List.filter_eq_nil_iff]
  intro c hc
  have := List.all_eq_true.mp h c hc
  simp only [Ch.sp, beq_iff_eq] at this
  simp [this]

theorem isSub_ib_not_text (k : BoxKind) (h : Gen.isSub k .InlineBlockBox = true) : Gen.isSub k .TextBox = false := by
  cases k <;> first | rfl | (exact absurd h (by decide))

theorem parent_not_text (k : BoxKind) (h : Gen.isSub k .ParentBox = true) : Gen.isSub k .TextBox = false := by
  cases k <;> first | rfl | (exact absurd h (by decide))

/-- `flex_children` / `grid_children` drop only text made of U+0020 and wrap the rest. -/
theorem itemChildren_text (grid : Bool) (l : List KBox) (h : TidyL l) :
    noSp (leafTextL (itemChildren grid l)) = noSp (leafTextL l) ∧ TidyL (itemChildren grid l) := by
  induction l with
  | nil => simp [itemChildren, leafTextL, TidyL]
  | cons c cs ih =>
    unfold TidyL at h
    obtain ⟨ih1, ih2⟩ := ih h.2
    unfold itemChildren
    simp only
    -- the two instance-attribute updates change neither class, text, children nor tidiness
    generalize hc1 : (if grid = true then c else c.withInst { c.inst with noFloat := true }) = c1
    have e1 : leafText c1 = leafText c ∧ (∀ cl, c1.isA cl = c.isA cl) ∧ c1.text = c.text ∧ c1.kids = c.kids ∧
        (Tidy c1 ↔ Tidy c) := by
      rw [← hc1]; split
      · exact ⟨rfl, fun _ => rfl, rfl, rfl, Iff.rfl⟩
      · exact ⟨leafText_withInst _ _, isA_withInst _ _, text_withInst _ _, kids_withInst _ _, tidy_withInst _ _⟩
    generalize hc2 : (if c1.inFlow = true then
        (if grid = true then c1.withInst { c1.inst with gridItem := true }
         else c1.withInst { c1.inst with flexItem := true }) else c1) = c2
    have e2 : leafText c2 = leafText c ∧ (∀ cl, c2.isA cl = c.isA cl) ∧ c2.text = c.text ∧ c2.kids = c.kids ∧
        (Tidy c2 ↔ Tidy c) := by
      rw [← hc2]
      split
      · split
        · exact ⟨by rw [leafText_withInst, e1.1], fun cl => by rw [isA_withInst, e1.2.1],
            by rw [text_withInst, e1.2.2.1], by rw [kids_withInst, e1.2.2.2.1],
            by rw [tidy_withInst]; exact e1.2.2.2.2⟩
        · exact ⟨by rw [leafText_withInst, e1.1], fun cl => by rw [isA_withInst, e1.2.1],
            by rw [text_withInst, e1.2.2.1], by rw [kids_withInst, e1.2.2.2.1],
            by rw [tidy_withInst]; exact e1.2.2.2.2⟩
      · exact e1
    obtain ⟨t2, a2, x2, k2, y2⟩ := e2
    have hc2t : Tidy c2 := y2.2 h.1
    have hmark : ∀ b : KBox, leafText (if grid = true then b.withInst { b.inst with gridItem := true }
        else b.withInst { b.inst with flexItem := true }) = leafText b ∧
        (Tidy (if grid = true then b.withInst { b.inst with gridItem := true }
        else b.withInst { b.inst with flexItem := true }) ↔ Tidy b) := by
      intro b; split
      · exact ⟨leafText_withInst _ _, tidy_withInst _ _⟩
      · exact ⟨leafText_withInst _ _, tidy_withInst _ _⟩
    split
    · rename_i hdrop
      simp only [Bool.and_eq_true] at hdrop
      refine ⟨?_, ih2⟩
      rw [ih1]
      have : leafText c = c.text := leafText_of_text c (tidy_textLeaf h.1) (by rw [← a2]; exact hdrop.1)
      simp only [leafTextL, noSp_append, this]
      rw [← x2, noSp_plainSpaces _ hdrop.2]; rfl
    · split
      · rename_i hib
        have hnt : c2.isA .TextBox = false := isSub_ib_not_text _ hib
        have htext : c2.text = [] := (tidy_parts hc2t).2.1 hnt
        refine ⟨?_, ?_, ih2⟩
        · simp only [leafTextL, noSp_append, (hmark _).1, leafText_withInst, leafText_withStyle, leafText_anon, ih1]
          rw [← t2, leafText_eq c2, htext]; rfl
        · rw [(hmark _).2, tidy_withInst, tidy_withStyle]
          exact tidy_anon _ _ _ rfl (tidy_parts hc2t).2.2
      · split
        · refine ⟨?_, ?_, ih2⟩
          · simp only [leafTextL, noSp_append, (hmark _).1, leafText_withStyle, leafText_anon, ih1]
            split
            · simp [leafTextL, leafText_withInst, t2]
            · simp [leafTextL, t2]
          · rw [(hmark _).2, tidy_withStyle]
            refine tidy_anon _ _ _ rfl ⟨?_, trivial⟩
            split
            · rw [tidy_withInst]; exact hc2t
            · exact hc2t
        · exact ⟨by simp only [leafTextL, noSp_append, t2, ih1], hc2t, ih2⟩

mutual
/-- `flex_boxes` / `grid_boxes` keep the text of the tree up to U+0020 characters, and its tidiness. -/
theorem fgb_text : ∀ (grid : Bool) (b : KBox), Tidy b →
    noSp (leafText (fgb grid b)) = noSp (leafText b) ∧ Tidy (fgb grid b)
  | grid, .mk k st el inst text kids cols, h => by
    have hp := tidy_parts h
    simp only [KBox.isA, KBox.kind, KBox.kids, KBox.text] at hp
    unfold fgb
    split
    · exact ⟨rfl, h⟩
    · rename_i hcond
      obtain ⟨k1, k2⟩ := fgbKids_text grid kids hp.2.2
      have hnt : Gen.isSub k .TextBox = false := by
        simp only [Bool.or_eq_true, not_or, Bool.not_eq_true', Bool.not_eq_false] at hcond
        exact parent_not_text k hcond.1
      simp only
      generalize hkk : (if (if grid = true then Gen.isSub k .GridContainerBox else Gen.isSub k .FlexContainerBox) = true
        then itemChildren grid (fgbKids grid kids) else fgbKids grid kids) = kk
      have hk : noSp (leafTextL kk) = noSp (leafTextL kids) ∧ TidyL kk := by
        rw [← hkk]
        by_cases hcont : (if grid = true then Gen.isSub k .GridContainerBox else Gen.isSub k .FlexContainerBox) = true
        · rw [if_pos hcont]
          obtain ⟨i1, i2⟩ := itemChildren_text grid (fgbKids grid kids) k2
          exact ⟨by rw [i1, k1], i2⟩
        · rw [if_neg hcont]
          exact ⟨k1, k2⟩
      refine ⟨by simp only [leafText, noSp_append, hk.1], ?_⟩
      unfold Tidy
      exact ⟨(fun h' => by rw [hnt] at h'; cases h'), hp.2.1, hk.2⟩
theorem fgbKids_text : ∀ (grid : Bool) (l : List KBox), TidyL l →
    noSp (leafTextL (fgbKids grid l)) = noSp (leafTextL l) ∧ TidyL (fgbKids grid l)
  | _, [], _ => by simp [fgbKids, TidyL]
  | grid, c :: cs, h => by
    unfold TidyL at h
    obtain ⟨a1, a2⟩ := fgb_text grid c h.1
    obtain ⟨b1, b2⟩ := fgbKids_text grid cs h.2
    unfold fgbKids
    exact ⟨by simp only [leafTextL, noSp_append, a1, b1], a2, b2⟩
end


/-! ### inline_in_block -/

theorem groupLines_tidy (parent : KBox) (kids : List KBox) :
    ∀ (line acc out : List KBox), (∀ c ∈ kids, Tidy c) → (∀ c ∈ line, Tidy c) → (∀ c ∈ acc, Tidy c) →
      groupLines parent kids line acc = .ok out → ∀ c ∈ out, Tidy c := by
  have hanon : ∀ line : List KBox, (∀ c ∈ line, Tidy c) →
      Tidy (anonFrom .BlockBox parent [anonFrom .LineBox parent line.reverse]) := by
    intro line hl
    refine tidy_anon _ _ _ rfl ⟨tidy_anon _ _ _ rfl ?_, trivial⟩
    exact (tidyL_iff _).2 (fun c hc => hl c (List.mem_reverse.mp hc))
  induction kids with
  | nil =>
    intro line acc out _ hline hacc h
    unfold groupLines at h
    split at h
    · split at h
      · cases h
        intro c hc
        rw [List.mem_reverse] at hc
        cases hc with
        | head => exact hanon line hline
        | tail _ h' => exact hacc c h'
      · cases h
        intro c hc
        simp only [List.mem_singleton] at hc
        subst hc
        exact tidy_anon _ _ _ rfl ((tidyL_iff _).2 (fun c hc => hline c (List.mem_reverse.mp hc)))
    · cases h
      intro c hc
      exact hacc c (List.mem_reverse.mp hc)
  | cons c cs ih =>
    intro line acc out hkids hline hacc h
    have hc := hkids c List.mem_cons_self
    have hcs : ∀ d ∈ cs, Tidy d := fun d hd => hkids d (List.mem_cons_of_mem _ hd)
    have hcl : ∀ d ∈ c :: line, Tidy d := by
      intro d hd
      cases hd with
      | head => exact hc
      | tail _ h' => exact hline d h'
    unfold groupLines at h
    split at h
    · cases h
    · split at h
      · exact ih _ _ _ hcs hcl hacc h
      · split at h
        · split at h
          · exact ih _ _ _ hcs hcl hacc h
          · exact ih _ _ _ hcs hline hacc h
        · split at h
          · refine ih _ _ _ hcs (by simp) ?_ h
            intro d hd
            cases hd with
            | head => exact hc
            | tail _ h' =>
              cases h' with
              | head => exact hanon line hline
              | tail _ h'' => exact hacc d h''
          · refine ih _ _ _ hcs (by simp) ?_ h
            intro d hd
            cases hd with
            | head => exact hc
            | tail _ h' => exact hacc d h'

mutual
/-- `inline_in_block` keeps the text up to U+0020 characters and the tidiness, for any tidy tree. -/
theorem iib_tidy : ∀ (b : KBox) (f : Bool) (b' : KBox), Tidy b → iib f b = .ok b' →
    noSp (leafText b') = noSp (leafText b) ∧ Tidy b'
  | .mk k st el inst text kids cols, f, b', hg, h => by
    have hp := tidy_parts hg
    simp only [KBox.isA, KBox.kind, KBox.kids, KBox.text] at hp
    unfold iib at h
    simp only at h
    split at h
    · cases h
      exact ⟨by simp [leafText], by unfold Tidy; exact hp⟩
    · rename_i hcond
      have hkne : kids ≠ [] := by
        intro he; subst he; simp at hcond
      have hnt : Gen.isSub k .TextBox = false := by
        cases hx : Gen.isSub k .TextBox
        · rfl
        · exact absurd (hp.1 hx) hkne
      split at h
      · cases h
      · rename_i children trailing hkids
        obtain ⟨hkt, hktidy⟩ := iibKids_tidy kids false children trailing hp.2.2 hkids
        split at h
        · cases h
          refine ⟨by simp [leafText, noSp_append, hkt], ?_⟩
          unfold Tidy
          exact ⟨(fun h' => by rw [hnt] at h'; cases h'), hp.2.1, hktidy⟩
        · split at h
          · cases h
          · rename_i newChildren hgroup
            cases h
            have hct : ∀ c ∈ children, Tidy c := (tidyL_iff _).1 hktidy
            have := groupLines_text _ children [] [] newChildren (fun c hc => tidy_textLeaf (hct c hc)) hgroup
            simp only [List.reverse_nil, leafTextL, noSp, List.filter_nil, List.nil_append] at this
            have hnew := groupLines_tidy _ children [] [] newChildren hct (by simp) (by simp) hgroup
            refine ⟨?_, ?_⟩
            · simp only [KBox.withKids, leafText, noSp_append]
              rw [show noSp (leafTextL newChildren) = noSp (leafTextL children) from this, hkt]
            · unfold KBox.withKids Tidy
              exact ⟨(fun h' => by rw [hnt] at h'; cases h'), hp.2.1, (tidyL_iff _).2 hnew⟩
theorem iibKids_tidy : ∀ (kids : List KBox) (t : Bool) (out : List KBox) (t' : Bool),
    TidyL kids → iibKids t kids = .ok (out, t') →
    noSp (leafTextL out) = noSp (leafTextL kids) ∧ TidyL out
  | [], t, out, t', _, h => by
    unfold iibKids at h; cases h; exact ⟨rfl, trivial⟩
  | c :: cs, t, out, t', hg, h => by
    unfold TidyL at hg
    unfold iibKids at h
    by_cases hdrop : (Gen.isSub c.kind .TextBox && c.text.isEmpty) = true
    · rw [if_pos hdrop] at h
      obtain ⟨r1, r2⟩ := iibKids_tidy cs _ out t' hg.2 h
      refine ⟨?_, r2⟩
      rw [r1]
      simp only [Bool.and_eq_true] at hdrop
      have ht := leafText_of_text c (tidy_textLeaf hg.1) hdrop.1
      have he : c.text = [] := by simpa using hdrop.2
      simp [leafTextL, ht, he]
    · rw [if_neg hdrop] at h
      cases hc1 : iib t c with
      | error e => rw [hc1] at h; cases h
      | ok c1 =>
        rw [hc1] at h
        simp only at h
        cases hrest : iibKids false cs with
        | error e => rw [hrest] at h; cases h
        | ok r =>
          obtain ⟨rest, t1⟩ := r
          rw [hrest] at h
          simp only at h
          cases h
          obtain ⟨a1, a2⟩ := iib_tidy c t c1 hg.1 hc1
          obtain ⟨b1, b2⟩ := iibKids_tidy cs false rest _ hg.2 hrest
          exact ⟨by simp only [leafTextL, noSp_append, a1, b1], a2, b2⟩
end

theorem tidy_leafy : ∀ (b : KBox), Tidy b → Leafy b
  | .mk k st el inst text kids cols, h => by
    have hp := tidy_parts h
    simp only [KBox.isA, KBox.kind, KBox.kids, KBox.text] at hp
    unfold Leafy
    refine ⟨?_, tidyL_leafyL kids hp.2.2⟩
    intro hk
    apply hp.2.1
    rcases hk with rfl | hk
    · rfl
    · revert hk; cases k <;> decide
where
  tidyL_leafyL : ∀ (l : List KBox), TidyL l → LeafyL l
    | [], _ => trivial
    | c :: cs, h => by
      unfold TidyL at h
      exact ⟨tidy_leafy c h.1, tidyL_leafyL cs h.2⟩

end Wp.Bx
