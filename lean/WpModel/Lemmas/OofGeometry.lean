/-
Geometry of whole layouts of the extended model: every in-flow line placed by `layoutBox` ends above the
page bottom (minus the bottom space), except the first in-flow line when the layout started on an empty
page — through placeholders, floats (which push lines down, never below the tested position),
clearance, `find_earlier_page_break`, the relayout with a larger bottom space, cloned decorations.
-/
import WpModel.Lemmas.OofParaGeo
import WpModel.Lemmas.OofBlock
import WpModel.Lemmas.OofPages
import WpModel.Lemmas.Geometry

namespace Wp.PMO
open Wp Wp.PM

/-! ### placed in-flow lines of a fragment tree -/

mutual
/-- The in-flow lines of the fragment `f` of the source box `box`, laid out with `page_is_empty = pie`.
Fragments out of the flow (placeholders, floats, continuations, laid-out absolute boxes) hold no in-flow
line and do not end the "nothing placed yet" state for this purpose. -/
def placedLines : OFrag → Bool → OBox → List PlacedLine
  | .para _ _ _ _ _ _ lines, pie, box =>
    match box with
    | .para id _ lineH _ => paraPlaced pie id lineH lines
    | .block _ _ _ => []
  | .block _ _ _ _ _ fkids, pie, box =>
    match box with
    | .block _ _ kids => placedLinesList fkids pie kids
    | .para _ _ _ _ => []
  | .ph _ _ _ _, _, _ => []
def placedLinesList : List OFrag → Bool → List OBox → List PlacedLine
  | [], _, _ => []
  | f :: rest, pie, kids =>
    (if f.inFlow then
      (match kids[f.idx]? with
        | some kb => placedLines f pie kb
        | none => [])
     else []) ++ placedLinesList rest (pie && !f.inFlow) kids
end

/-- The placed lines of one child, seen from the parent. -/
def childPlaced (f : OFrag) (pie : Bool) (kids : List OBox) : List PlacedLine :=
  if f.inFlow then
    (match kids[f.idx]? with
      | some kb => placedLines f pie kb
      | none => [])
  else []

def noFlow (fs : List OFrag) : Bool := fs.all (fun f => !f.inFlow)

theorem placedLinesList_snoc (xs : List OFrag) (f : OFrag) (pie : Bool) (kids : List OBox) :
    placedLinesList (xs ++ [f]) pie kids = placedLinesList xs pie kids ++ childPlaced f (pie && noFlow xs) kids := by
  induction xs generalizing pie with
  | nil => simp [placedLinesList, childPlaced, noFlow]
  | cons x xs ih =>
    simp only [List.cons_append, placedLinesList, ih, List.append_assoc, noFlow, List.all_cons]
    congr 2
    cases pie <;> cases x.inFlow <;> simp

theorem placedLinesList_noFlow (xs : List OFrag) (pie : Bool) (kids : List OBox) (h : noFlow xs = true) :
    placedLinesList xs pie kids = [] := by
  induction xs generalizing pie with
  | nil => rfl
  | cons x xs ih =>
    simp only [noFlow, List.all_cons, Bool.and_eq_true, Bool.not_eq_true'] at h
    simp only [placedLinesList, h.1, Bool.false_eq_true, if_false, List.nil_append]
    exact ih _ (by simpa [noFlow] using h.2)

theorem lastInFlow_none (xs : List OFrag) (h : lastInFlow xs = none) : noFlow xs = true := by
  induction xs with
  | nil => rfl
  | cons x xs ih =>
    simp only [lastInFlow] at h
    cases hl : lastInFlow xs with
    | some l => rw [hl] at h; cases h
    | none =>
      rw [hl] at h
      simp only at h
      cases hx : x.inFlow with
      | true => rw [hx] at h; simp at h
      | false => simp [noFlow, hx]; simpa [noFlow] using ih hl

theorem noFlow_translate (dy : Rat) (xs : List OFrag) : noFlow (translateList dy xs) = noFlow xs := by
  induction xs with
  | nil => rfl
  | cons x xs ih => simp only [translateList, noFlow, List.all_cons, inFlow_translate] at ih ⊢; rw [ih]

@[simp] theorem placedLines_withIdx (f : OFrag) (i : Nat) (pie : Bool) (box : OBox) :
    placedLines (f.withIdx i) pie box = placedLines f pie box := by
  cases f <;> cases box <;> simp [OFrag.withIdx, placedLines]

/-- More exemptions only weaken the statement: what fits with `pie = false` fits with `pie = true`. -/
theorem paraPlaced_flag (c : Ctx) (bs : Rat) (id : Nat) (lineH : Rat) (lines : List (Nat × Rat))
    (h : LinesOk c bs (paraPlaced false id lineH lines)) : LinesOk c bs (paraPlaced true id lineH lines) := by
  cases lines with
  | nil => exact linesOk_nil c bs
  | cons a l =>
    intro p hp
    simp only [paraPlaced, List.mem_cons] at hp
    rcases hp with rfl | hp
    · left; rfl
    · exact h p (by simp [paraPlaced, hp])

mutual
theorem placedLines_flag (c : Ctx) (bs : Rat) : (f : OFrag) → (box : OBox) →
    LinesOk c bs (placedLines f false box) → LinesOk c bs (placedLines f true box)
  | .para _ _ _ _ _ _ lines, box => by
    intro h
    cases box with
    | para id n lineH st => simp only [placedLines] at h ⊢; exact paraPlaced_flag c bs _ _ _ h
    | block _ _ _ => simpa [placedLines] using h
  | .block _ _ _ _ _ fkids, box => by
    intro h
    cases box with
    | para _ _ _ _ => simpa [placedLines] using h
    | block _ _ kids => simp only [placedLines] at h ⊢; exact placedLinesList_flag c bs fkids kids h
  | .ph _ _ _ _, box => by intro h; simpa [placedLines] using h
theorem placedLinesList_flag (c : Ctx) (bs : Rat) : (fs : List OFrag) → (kids : List OBox) →
    LinesOk c bs (placedLinesList fs false kids) → LinesOk c bs (placedLinesList fs true kids)
  | [], kids => by intro h; simpa [placedLinesList] using h
  | f :: rest, kids => by
    intro h
    simp only [placedLinesList, Bool.false_and, Bool.true_and] at h ⊢
    rw [linesOk_append] at h ⊢
    cases hf : f.inFlow with
    | true =>
      simp only [hf, if_true, Bool.not_true] at h ⊢
      refine ⟨?_, h.2⟩
      cases hk : kids[f.idx]? with
      | none => simp only [hk] at h ⊢; exact h.1
      | some kb => simp only [hk] at h ⊢; exact placedLines_flag c bs f kb h.1
    | false =>
      simp only [hf, Bool.false_eq_true, if_false, Bool.not_false] at h ⊢
      exact ⟨linesOk_nil c bs, placedLinesList_flag c bs rest kids h.2⟩
end

theorem placedLines_flag' (c : Ctx) (bs : Rat) (f : OFrag) (box : OBox) (a b : Bool) (hab : a = true → b = true)
    (h : LinesOk c bs (placedLines f a box)) : LinesOk c bs (placedLines f b box) := by
  cases a <;> cases b
  · exact h
  · exact placedLines_flag c bs f box h
  · exact absurd (hab rfl) (by simp)
  · exact h

/-! ### paragraphs -/

theorem lineboxLayout_placed (c : Ctx) (st : PStyle) (b : BoxSt) (n : Nat) (lineH : Rat) (pie : Bool)
    (adj : List Rat) (bs posY : Rat) (skip : Option Resume) (dbd : Bool) (shapes : List Shape) (id : Nat)
    (hdeco : 0 ≤ b.bb + b.pb) :
    LinesOk c bs (paraPlaced pie id lineH (lineboxLayout c st b n lineH pie adj bs posY skip dbd shapes).lines) := by
  have hl := lineboxLayout_lines c st b n lineH pie adj bs posY skip dbd shapes
  have hfit : ∀ p ∈ (lineboxLayout c st b n lineH pie adj bs posY skip dbd shapes).lines,
      LineFits c bs lineH pie (skipLine skip) p := by
    rw [hl]; unfold lineboxLoop
    exact lineLoop_fits c st b n lineH pie bs shapes (skipLine skip) _ _ _ _ hdeco (fun _ => rfl) (by simp)
  obtain ⟨m, _, hcont⟩ : ∃ m, m ≤ (skipLine skip - skipLine skip) + (n - skipLine skip) ∧
      (lineboxLayout c st b n lineH pie adj bs posY skip dbd shapes).lines.map Prod.fst =
        List.range' (skipLine skip) m := by
    rw [hl]; unfold lineboxLoop
    exact lineLoop_contiguous c st b n lineH pie bs shapes (skipLine skip) _ _ _ _ (Nat.le_refl _) (by simp)
  generalize (lineboxLayout c st b n lineH pie adj bs posY skip dbd shapes).lines = lines at hfit hcont
  cases lines with
  | nil => exact linesOk_nil c bs
  | cons a l =>
    intro p hp
    simp only [paraPlaced, List.mem_cons, List.mem_map] at hp
    rcases hp with rfl | ⟨q, hq, rfl⟩
    · rcases hfit a (by simp) with h | h
      · left; exact h.1
      · right; exact h
    · right
      rcases hfit q (by simp [hq]) with h | h
      · exfalso
        cases m with
        | zero => simp at hcont
        | succ m =>
          simp only [List.map_cons, List.range'_succ, List.cons.injEq] at hcont
          have : q.1 ∈ List.range' (skipLine skip + 1) m := by
            rw [← hcont.2]; exact List.mem_map_of_mem hq
          simp only [List.mem_range'_1] at this
          omega
      · exact h

/-! ### `find_earlier_page_break` keeps a subset of the placed lines -/

theorem findEarlierPara_placed (ser id idx : Nat) (st : OStyle) (n : Nat) (g : Geo) (lines : List (Nat × Rat))
    (x' : OFrag) (r : Resume) (h : findEarlierPara ser id idx st n g lines = some (x', r)) :
    x'.idx = idx ∧ ∀ pie box, ∀ p ∈ placedLines x' pie box, p ∈ placedLines (.para ser id idx st n g lines) pie box := by
  unfold findEarlierPara at h
  split at h
  · cases h
  · dsimp only at h
    split at h
    · cases h
    · split at h
      · simp only [Option.some.injEq, Prod.mk.injEq] at h
        obtain ⟨rfl, _⟩ := h
        refine ⟨rfl, ?_⟩
        intro pie box
        cases box with
        | para id' n' lh st' => simp only [placedLines]; exact paraPlaced_take _ _ _ _ _
        | block _ _ _ => simp [placedLines]
      · cases h

mutual
theorem findEarlierGo_placed : (fs : List OFrag) → ∀ (kept : List OFrag) (r : Resume),
    (findEarlierGo fs).found = some (kept, r) →
    ∀ pie kids, ∀ p ∈ placedLinesList kept pie kids, p ∈ placedLinesList fs pie kids
  | [] => by
    intro kept r h
    simp [findEarlierGo] at h
  | x :: xs => by
    intro kept r h pie kids
    rw [findEarlierGo] at h
    dsimp only at h
    split at h
    · rename_i kept0 r0 hfound
      simp only [Option.some.injEq, Prod.mk.injEq] at h
      obtain ⟨rfl, rfl⟩ := h
      have ih := findEarlierGo_placed xs kept0 r0 hfound (pie && !x.inFlow) kids
      intro p hp
      simp only [placedLinesList, List.mem_append] at hp ⊢
      rcases hp with hp | hp
      · left; exact hp
      · right; exact ih p hp
    · split at h
      · simp at h
      · split at h
        · simp only [Option.some.injEq, Prod.mk.injEq] at h
          obtain ⟨rfl, rfl⟩ := h
          intro p hp
          simp only [placedLinesList, List.mem_append, List.append_nil] at hp ⊢
          left; exact hp
        · split at h
          · split at h
            · rename_i x' r1 hfe
              simp only [Option.some.injEq, Prod.mk.injEq] at h
              obtain ⟨rfl, rfl⟩ := h
              obtain ⟨hidx, hsub⟩ := findEarlierFrag_placed x x' r1 hfe
              have hfl := findEarlierFrag_inFlow x x' r1 hfe
              intro p hp
              have hce : ∀ pie kb, placedLines x'.cutEnd pie kb = placedLines x' pie kb := by
                intro pie kb; cases x' <;> rfl
              have hci : x'.cutEnd.idx = x'.idx := by cases x' <;> rfl
              have hcf : x'.cutEnd.inFlow = x'.inFlow := by cases x' <;> rfl
              simp only [placedLinesList, List.mem_append, List.append_nil, hci, hcf, hce, hidx, hfl] at hp ⊢
              left
              cases hxin : x.inFlow with
              | false => simp [hxin] at hp
              | true =>
                simp only [hxin, if_true] at hp ⊢
                cases hk : kids[x.idx]? with
                | none => simp [hk] at hp
                | some kb =>
                  simp only [hk] at hp ⊢
                  exact hsub _ _ p hp
            · simp at h
          · simp at h
theorem findEarlierFrag_placed : (x : OFrag) → ∀ (x' : OFrag) (r : Resume), findEarlierFrag x = some (x', r) →
    x'.idx = x.idx ∧ ∀ pie box, ∀ p ∈ placedLines x' pie box, p ∈ placedLines x pie box
  | .para ser id idx st n g lines => by
    intro x' r h
    simp only [findEarlierFrag] at h
    exact findEarlierPara_placed ser id idx st n g lines x' r h
  | .block ser id idx st g kids => by
    intro x' r h
    simp only [findEarlierFrag] at h
    split at h
    · rename_i kids' r0 hfound
      simp only [Option.some.injEq, Prod.mk.injEq] at h
      obtain ⟨rfl, rfl⟩ := h
      refine ⟨rfl, ?_⟩
      intro pie box
      cases box with
      | para _ _ _ _ => simp [placedLines]
      | block id' st' bkids =>
        simp only [placedLines]
        exact findEarlierGo_placed kids kids' r0 hfound pie bkids
    · cases h
  | .ph _ _ _ _ => by
    intro x' r h
    simp [findEarlierFrag] at h
end

/-! ### used geometry of a returned fragment -/

theorem finishContainer_geo (c : Ctx) (st : OStyle) (b : BoxSt) (pie : Bool) (bs : Rat)
    (cwc dbd : Bool) (resume : Option Resume) (posY : Rat) (adjL cur : List Rat) (curIsL : Bool)
    (np : NextPage) (hasKids : Bool) (pageEnd : String) (kids : List OFrag) (lb : List Broken) (w : World)
    (mk : Geo → OFrag) (f : OFrag)
    (h : (finishContainer c st b pie bs cwc dbd resume posY adjL cur curIsL np hasKids pageEnd kids lb w mk).frag
      = some f) :
    f = mk (finishTail c st b bs cwc dbd resume posY adjL cur curIsL hasKids w.shapes).geo := by
  unfold finishContainer at h
  split at h
  · cases h
  · simp only [Option.some.injEq] at h
    exact h.symm

theorem finishTail_pb_bb (c : Ctx) (st : OStyle) (b : BoxSt) (bs : Rat)
    (cwc dbd : Bool) (resume : Option Resume) (posY : Rat) (adjL cur : List Rat) (curIsL hasKids : Bool)
    (shapes : List Shape) :
    let g := (finishTail c st b bs cwc dbd resume posY adjL cur curIsL hasKids shapes).geo
    (g.pb = b.pb ∧ g.bb = b.bb) ∨ (g.pb = 0 ∧ g.bb = 0) := by
  unfold finishTail
  dsimp only
  by_cases h : (!st.clone && resume.isSome) = true
  · right; simp [h, geoOf]
  · left
    simp only [h]
    cases cwc <;> simp [geoOf]

@[simp] theorem prepare_pb (c : Ctx) (st : OStyle) (y bs : Rat) (skip : Option Resume) (cb pie : Bool)
    (adjL : List Rat) (sh : List Shape) : (prepare c st y bs skip cb pie adjL sh).b.pb = st.pb := by
  unfold prepare; dsimp only; repeat' split
  all_goals rfl

@[simp] theorem prepare_bb (c : Ctx) (st : OStyle) (y bs : Rat) (skip : Option Resume) (cb pie : Bool)
    (adjL : List Rat) (sh : List Shape) : (prepare c st y bs skip cb pie adjL sh).b.bb = st.bb := by
  unfold prepare; dsimp only; repeat' split
  all_goals rfl

theorem prepare_bs (c : Ctx) (st : OStyle) (y bs : Rat) (skip : Option Resume) (cb pie : Bool)
    (adjL : List Rat) (sh : List Shape) :
    (prepare c st y bs skip cb pie adjL sh).bs = if st.clone then bs + (st.pb + st.bb + st.mb) else bs := by
  unfold prepare; dsimp only; repeat' split
  all_goals first | rfl | simp_all

/-! ### hypotheses on the decorations (of the boxes of the flow) -/

mutual
def DecoOk : OBox → Prop
  | .para _ _ _ st => st.toPStyle.DecoOk
  | .block _ st kids => st.toPStyle.DecoOk ∧ DecoOkList kids
def DecoOkList : List OBox → Prop
  | [] => True
  | b :: bs => (b.inFlow = true → DecoOk b) ∧ DecoOkList bs
end

theorem DecoOk.st : (box : OBox) → DecoOk box → box.st.toPStyle.DecoOk
  | .para _ _ _ _ => by intro h; unfold DecoOk at h; exact h
  | .block _ _ _ => by intro h; unfold DecoOk at h; exact h.1

theorem prepare_bs_le (c : Ctx) (st : OStyle) (y bs : Rat) (skip : Option Resume) (cb pie : Bool)
    (adjL : List Rat) (sh : List Shape) (h : st.toPStyle.DecoOk) : bs ≤ (prepare c st y bs skip cb pie adjL sh).bs := by
  rw [prepare_bs]
  split
  · rename_i hc
    have := h.2 hc
    grind
  · exact Rat.le_refl

theorem finishPara_frag' (c : Ctx) (st : OStyle) (p : Prep) (pie : Bool) (id idx n : Nat) (R : LineResult)
    (w : World) (f : OFrag) (h : (finishPara c st p pie id idx n R w).frag = some f) :
    ∃ g, f = .para 0 id idx st n g R.lines ∧ ((g.pb = p.b.pb ∧ g.bb = p.b.bb) ∨ (g.pb = 0 ∧ g.bb = 0)) := by
  unfold finishPara at h
  dsimp only at h
  split at h
  · simp [abortResult] at h
  · have := finishContainer_geo _ _ _ _ _ _ _ _ _ _ _ _ _ _ _ _ _ _ _ _ h
    refine ⟨_, this, ?_⟩
    exact finishTail_pb_bb c st { p.b with mt := R.mt } _ _ _ _ _ _ _ _ _ _

def KidsOutcome.state : KidsOutcome → KidsLoop
  | .finished s => s
  | .aborted _ s => s
  | .stopped _ s => s

theorem finishBlock_frag (c : Ctx) (st : OStyle) (p : Prep) (pie : Bool) (id idx : Nat) (out : KidsOutcome)
    (f : OFrag) (h : (finishBlock c st p pie id idx out).frag = some f) :
    ∃ g, f = .block 0 id idx st g out.state.newChildren ∧
      ((g.pb = p.b.pb ∧ g.bb = p.b.bb) ∨ (g.pb = 0 ∧ g.bb = 0)) := by
  cases out with
  | aborted page s => simp [finishBlock, abortResult] at h
  | stopped resume s =>
    simp only [finishBlock] at h
    have := finishContainer_geo _ _ _ _ _ _ _ _ _ _ _ _ _ _ _ _ _ _ _ _ h
    exact ⟨_, this, finishTail_pb_bb c st { p.b with y := s.boxY } _ _ _ _ _ _ _ _ _ _⟩
  | finished s =>
    simp only [finishBlock] at h
    have := finishContainer_geo _ _ _ _ _ _ _ _ _ _ _ _ _ _ _ _ _ _ _ _ h
    exact ⟨_, this, finishTail_pb_bb c st { p.b with y := s.boxY } _ _ _ _ _ _ _ _ _ _⟩

theorem layoutBox_frag_deco (c : Ctx) (box : OBox) (idx : Nat) (y bs : Rat) (skip : Option Resume)
    (cb pie : Bool) (adjL : List Rat) (w : World) (f : OFrag)
    (h : (layoutBox c box idx y bs skip cb pie adjL w).frag = some f) :
    (f.geo.pb = box.st.pb ∧ f.geo.bb = box.st.bb) ∨ (f.geo.pb = 0 ∧ f.geo.bb = 0) := by
  cases box with
  | para id n lineH st =>
    simp only [layoutBox, seenByCaller_frag] at h
    obtain ⟨g, rfl, hg⟩ := finishPara_frag' _ _ _ _ _ _ _ _ _ _ h
    simpa [OFrag.geo, OBox.st] using hg
  | block id st kids =>
    simp only [layoutBox, seenByCaller_frag] at h
    obtain ⟨g, rfl, hg⟩ := finishBlock_frag _ _ _ _ _ _ _ _ h
    simpa [OFrag.geo, OBox.st] using hg

theorem firstPass_redo (c : Ctx) (bs : Rat) (pienc : Bool) (posY : Rat) (r : LayoutResult) (bs' : Rat)
    (h : firstPass c bs pienc posY r = .redo bs') :
    ∃ f, r.frag = some f ∧ bs' = bs + (f.geo.pb + f.geo.bb) := by
  unfold firstPass at h
  split at h
  · cases h
  · rename_i f hf
    split at h
    · cases h
    · dsimp only at h
      split at h
      · cases h
      · split at h
        · simp only [FirstPass.redo.injEq] at h
          exact ⟨f, hf, h.symm⟩
        · cases h

/-! ### the invariant through the children loop -/

theorem preFlow_placed (c : Ctx) (b : BoxSt) (cwc pie0 : Bool) (child : OBox) (s : KidsLoop) (pie : Bool)
    (all : List OBox) :
    placedLinesList (preFlow c b cwc pie0 child s).newChildren pie all = placedLinesList s.newChildren pie all ∧
    noFlow (preFlow c b cwc pie0 child s).newChildren = noFlow s.newChildren := by
  unfold preFlow
  split
  · exact ⟨rfl, rfl⟩
  · rename_i hcond
    have hnone : lastInFlow s.newChildren = none := by
      simp only [Bool.or_eq_true, not_or] at hcond
      cases hl : lastInFlow s.newChildren with
      | none => rfl
      | some l => simp [hl] at hcond
    have hnf := lastInFlow_none _ hnone
    dsimp only
    split
    · simp only
      rw [placedLinesList_noFlow _ _ _ hnf, placedLinesList_noFlow _ _ _ (by rw [noFlow_translate]; exact hnf),
        noFlow_translate]
      exact ⟨rfl, rfl⟩
    · exact ⟨rfl, rfl⟩

theorem concludeKid_fits (c : Ctx) (bs : Rat) (all : List OBox) (index : Nat) (pie : Bool) (pb : Brk)
    (child : OBox) (s : KidsLoop) (frag : Option OFrag) (resume : Option Resume)
    (hall : all[index]? = some child)
    (hs : LinesOk c bs (placedLinesList s.newChildren pie all))
    (hf : ∀ f, frag = some f → LinesOk c bs (placedLines f (pie && noFlow s.newChildren) child)) :
    (∀ out s3, concludeKid index pie pb child s frag resume = (some out, s3) →
      LinesOk c bs (placedLinesList out.state.newChildren pie all)) ∧
    (∀ s3, concludeKid index pie pb child s frag resume = (none, s3) →
      LinesOk c bs (placedLinesList s3.newChildren pie all)) := by
  cases frag with
  | none =>
    constructor
    · intro out s3 h
      unfold concludeKid at h
      dsimp only at h
      split at h
      · rename_i kept r' hearlier
        simp only [Prod.mk.injEq, Option.some.injEq] at h
        obtain ⟨rfl, rfl⟩ := h
        have hfound : (findEarlierGo s.newChildren).found = some (kept, r') := by
          split at hearlier
          · exact hearlier
          · cases hearlier
        exact linesOk_sub c bs _ _ (findEarlierGo_placed _ _ _ hfound pie all) hs
      · split at h
        · simp only [Prod.mk.injEq, Option.some.injEq] at h
          obtain ⟨rfl, rfl⟩ := h
          exact hs
        · by_cases hallabs : s.newChildren.all OFrag.isAbs = true
          · simp [hallabs] at h
            rw [← h.1]
            simp only [KidsOutcome.state, placedLinesList]
            exact linesOk_nil c bs
          · simp only [hallabs, Bool.false_eq_true, ↓reduceIte] at h
            by_cases hne : s.newChildren.isEmpty = true
            · simp [hne] at h; rw [← h.1]; exact hs
            · simp [hne] at h; rw [← h.1]; exact hs
    · intro s3 h
      unfold concludeKid at h
      dsimp only at h
      split at h
      · simp at h
      · split at h
        · simp at h
        · by_cases hallabs : s.newChildren.all OFrag.isAbs = true
          · simp [hallabs] at h
          · simp only [hallabs, Bool.false_eq_true, ↓reduceIte] at h
            by_cases hne : s.newChildren.isEmpty = true
            · simp [hne] at h
            · simp [hne] at h
  | some f =>
    have hnew : LinesOk c bs (placedLinesList (s.newChildren ++ [f.withIdx index]) pie all) := by
      rw [placedLinesList_snoc, linesOk_append]
      refine ⟨hs, ?_⟩
      unfold childPlaced
      split
      · simp only [idx_withIdx, hall, placedLines_withIdx]
        exact hf f rfl
      · exact linesOk_nil c bs
    cases resume with
    | some r' =>
      constructor
      · intro out s3 h
        simp only [concludeKid, Prod.mk.injEq, Option.some.injEq] at h
        obtain ⟨rfl, rfl⟩ := h
        exact hnew
      · intro s3 h
        simp [concludeKid] at h
    | none =>
      constructor
      · intro out s3 h
        simp [concludeKid] at h
      · intro s3 h
        simp only [concludeKid, Prod.mk.injEq, true_and] at h
        subst h
        exact hnew

theorem placedLinesList_snoc_oof (xs : List OFrag) (f : OFrag) (pie : Bool) (kids : List OBox)
    (hf : f.inFlow = false) : placedLinesList (xs ++ [f]) pie kids = placedLinesList xs pie kids := by
  rw [placedLinesList_snoc]
  simp [childPlaced, hf]

theorem floatStep_fits (c : Ctx) (bs0 bs : Rat) (all : List OBox) (index : Nat) (pie : Bool) (child : OBox)
    (hc : child.inFlow = false) (s : KidsLoop) (r : LayoutResult)
    (hrf : ∀ f, r.frag = some f → f.inFlow = false)
    (hs : LinesOk c bs0 (placedLinesList s.newChildren pie all)) :
    (∀ out s3, floatStep c index pie bs child hc s r = (some out, s3) →
      LinesOk c bs0 (placedLinesList out.state.newChildren pie all)) ∧
    (∀ s3, floatStep c index pie bs child hc s r = (none, s3) →
      LinesOk c bs0 (placedLinesList s3.newChildren pie all)) := by
  unfold floatStep floatDone
  cases hfr : r.frag with
  | none =>
    simp only
    exact ⟨fun out s3 h => by simp only [Prod.mk.injEq, Option.some.injEq] at h; rw [← h.1]; exact hs,
      fun s3 h => by simp at h⟩
  | some f0 =>
    have hf0 := hrf f0 hfr
    simp only
    split
    · constructor
      · intro out s3 h; simp at h
      · intro s3 h
        simp only [Prod.mk.injEq, true_and] at h
        subst h
        simp only
        rw [placedLinesList_snoc_oof _ _ _ _ (by simp [hf0])]
        exact hs
    · constructor
      · intro out s3 h
        split at h
        · rename_i kept r' hearlier
          simp only [Prod.mk.injEq, Option.some.injEq] at h
          obtain ⟨rfl, rfl⟩ := h
          have hfound : (findEarlierGo s.newChildren).found = some (kept, r') := by
            split at hearlier
            · exact hearlier
            · cases hearlier
          exact linesOk_sub c bs0 _ _ (findEarlierGo_placed _ _ _ hfound pie all) hs
        · simp only [Prod.mk.injEq, Option.some.injEq] at h
          obtain ⟨rfl, rfl⟩ := h
          exact hs
      · intro s3 h
        split at h <;> simp at h

theorem pienc_noFlow (pie : Bool) (s : KidsLoop) (h : pienc pie s = true) :
    (pie && noFlow s.newChildren) = true := by
  simp only [pienc, Bool.and_eq_true] at h
  simp only [Bool.and_eq_true, h.1, true_and]
  have hall := h.2
  clear h
  generalize s.newChildren = xs at hall
  induction xs with
  | nil => rfl
  | cons x xs ih =>
    simp only [List.all_cons, Bool.and_eq_true] at hall
    simp only [noFlow, List.all_cons, Bool.and_eq_true, Bool.not_eq_true']
    refine ⟨?_, by simpa [noFlow] using ih hall.2⟩
    cases x <;> simp_all [OFrag.isPh, OFrag.inFlow]

mutual
/-- **Every in-flow line of a layout fits** above `pageBottom − bs`, except the first in-flow line when the
layout started on an empty page. -/
theorem box_fits : (box : OBox) → DecoOk box → ∀ (c : Ctx) (idx : Nat) (y bs : Rat) (skip : Option Resume)
    (cb pie : Bool) (adjL : List Rat) (w : World) (f : OFrag),
    (layoutBox c box idx y bs skip cb pie adjL w).frag = some f → LinesOk c bs (placedLines f pie box)
  | .para id n lineH st => by
    intro hd c idx y bs skip cb pie adjL w f hf
    unfold DecoOk at hd
    simp only [layoutBox, seenByCaller_frag] at hf
    obtain ⟨g, rfl, _⟩ := finishPara_frag' _ _ _ _ _ _ _ _ _ _ hf
    simp only [placedLines]
    apply linesOk_mono c bs _ _ (prepare_bs_le c st y bs skip cb pie adjL w.shapes hd)
    apply lineboxLayout_placed
    simp only [prepare_bb, prepare_pb]
    have := hd.1
    grind
  | .block id st kids => by
    intro hd c idx y bs skip cb pie adjL w f hf
    unfold DecoOk at hd
    simp only [layoutBox, seenByCaller_frag] at hf
    obtain ⟨g, rfl, _⟩ := finishBlock_frag _ _ _ _ _ _ _ _ hf
    simp only [placedLines]
    apply linesOk_mono c bs _ _ (prepare_bs_le c st y bs skip cb pie adjL w.shapes hd.1)
    exact kids_fits kids hd.2 c st _ _ kids 0 (skipIdxOf skip) _ pie _ (by intro j; simp)
      (by simp [placedLinesList, linesOk_nil])
theorem kids_fits : (rest : List OBox) → DecoOkList rest → ∀ (c : Ctx) (st : OStyle) (b : BoxSt) (cwc : Bool)
    (all : List OBox) (index skipIdx : Nat) (bs : Rat) (pie : Bool) (s : KidsLoop),
    (∀ j, rest[j]? = all[index + j]?) →
    LinesOk c bs (placedLinesList s.newChildren pie all) →
    LinesOk c bs (placedLinesList (layoutKids c st b cwc rest index skipIdx bs pie s).state.newChildren pie all)
  | [] => by
    intro _ c st b cwc all index skipIdx bs pie s _ hs
    simpa [layoutKids, KidsOutcome.state] using hs
  | child :: rest => by
    intro hd c st b cwc all index skipIdx bs pie s hall hs
    unfold DecoOkList at hd
    have hrest : ∀ j, rest[j]? = all[index + 1 + j]? := by
      intro j
      have := hall (j + 1)
      simp only [List.getElem?_cons_succ] at this
      rw [this]; congr 1; omega
    have hchild : all[index]? = some child := by
      have := hall 0
      simpa using this.symm
    unfold layoutKids
    split
    · exact kids_fits rest hd.2 c st b cwc all (index + 1) skipIdx bs pie s hrest hs
    · split
      · -- placeholder
        apply kids_fits rest hd.2 c st b cwc all (index + 1) skipIdx bs pie _ hrest
        simp only [placeAbs]
        rw [placedLinesList_snoc_oof _ _ _ _ rfl]
        exact hs
      · -- float
        rename_i hpos
        dsimp only
        have hcf : child.inFlow = false := by simp [OBox.inFlow, hpos]
        have hrf : ∀ f, (layoutBox c child index
            (floatY s.w.shapes child.st.clear (s.posY + collapseMargin s.cur)) bs none false true []
            { s.w with shapes := [] }).frag = some f → f.inFlow = false := by
          intro f hf
          rw [layoutBox_frag_inFlow _ _ _ _ _ _ _ _ _ _ _ hf, hcf]
        obtain ⟨h1, h2⟩ := floatStep_fits c bs bs all index pie child hcf s _ hrf hs
        split
        · rename_i out s3 heq
          exact h1 out s3 heq
        · rename_i s3 heq
          exact kids_fits rest hd.2 c st b cwc all (index + 1) skipIdx bs pie s3 hrest (h2 s3 heq)
      · -- child in the normal flow
        rename_i hpos
        dsimp only
        have hcin : child.inFlow = true := by simp [OBox.inFlow, hpos]
        have hdc : DecoOk child := hd.1 hcin
        split
        · simpa [KidsOutcome.state] using hs
        · obtain ⟨hpl, hnf⟩ := preFlow_placed c { b with y := s.boxY } cwc pie child s pie all
          have hs0 : LinesOk c bs
              (placedLinesList (preFlow c { b with y := s.boxY } cwc pie child s).newChildren pie all) := by
            rw [hpl]; exact hs
          have hflag : ∀ (f : OFrag), LinesOk c bs (placedLines f
              (pienc pie (preFlow c { b with y := s.boxY } cwc pie child s)) child) →
              LinesOk c bs (placedLines f
                (pie && noFlow (preFlow c { b with y := s.boxY } cwc pie child s).newChildren) child) :=
            fun f h => placedLines_flag' c bs f child _ _ (pienc_noFlow pie _) h
          split
          · -- first pass kept (or discarded) the child
            rename_i frag posY hfp
            have hfrag : ∀ f, frag = some f → LinesOk c bs (placedLines f
                (pie && noFlow (preFlow c { b with y := s.boxY } cwc pie child s).newChildren) child) := by
              intro f hf
              apply hflag
              rcases firstPass_keep _ _ _ _ _ _ _ hfp with h | h
              · rw [h] at hf; cases hf
              · rw [h] at hf
                exact box_fits child hdc _ _ _ _ _ _ _ _ _ f hf
            split
            · rename_i out s3 heq
              refine (concludeKid_fits c bs all index pie _ child _ _ _ hchild ?_ ?_).1 out s3 heq
              · simpa using hs0
              · simpa using hfrag
            · rename_i s3 heq
              refine kids_fits rest hd.2 c st b cwc all (index + 1) skipIdx bs pie s3 hrest
                ((concludeKid_fits c bs all index pie _ child _ _ _ hchild ?_ ?_).2 s3 heq)
              · simpa using hs0
              · simpa using hfrag
          · -- second layout with a larger bottom space
            rename_i bs' hfp
            obtain ⟨f1, hf1, hbs'⟩ := firstPass_redo _ _ _ _ _ _ hfp
            have hle : bs ≤ bs' := by
              have h1 := layoutBox_frag_deco _ _ _ _ _ _ _ _ _ _ _ hf1
              have h2 := (DecoOk.st child hdc).1
              rcases h1 with ⟨h3, h4⟩ | ⟨h3, h4⟩ <;> rw [hbs', h3, h4] <;> grind
            have hfrag : ∀ (sk : Option Resume) (cb' : Bool) (adjL' : List Rat) (w' : World) (f : OFrag),
                (layoutBox c child index s.posY bs' sk cb'
                  (pienc pie (preFlow c { b with y := s.boxY } cwc pie child s)) adjL' w').frag = some f →
                LinesOk c bs (placedLines f
                  (pie && noFlow (preFlow c { b with y := s.boxY } cwc pie child s).newChildren) child) := by
              intro sk cb' adjL' w' f hf
              apply hflag
              exact linesOk_mono c bs bs' _ hle (box_fits child hdc _ _ _ _ _ _ _ _ _ f hf)
            split
            · rename_i out s3 heq
              refine (concludeKid_fits c bs all index pie _ child _ _ _ hchild ?_ ?_).1 out s3 heq
              · simpa using hs0
              · simpa using hfrag _ _ _ _
            · rename_i s3 heq
              refine kids_fits rest hd.2 c st b cwc all (index + 1) skipIdx bs pie s3 hrest
                ((concludeKid_fits c bs all index pie _ child _ _ _ hchild ?_ ?_).2 s3 heq)
              · simpa using hs0
              · simpa using hfrag _ _ _ _
end

/-! ### at most one exempt line: the first in-flow line, and only on an empty page -/

mutual
theorem placedLines_exempt : (f : OFrag) → ∀ (pie : Bool) (box : OBox), ExemptHeadOnly pie (placedLines f pie box)
  | .para _ id idx st n g lines => by
    intro pie box
    cases box with
    | para id' n' lh st' => simp only [placedLines]; exact paraPlaced_exempt _ _ _ _
    | block _ _ _ => simp [placedLines, ExemptHeadOnly]
  | .block _ id idx st g fkids => by
    intro pie box
    cases box with
    | para _ _ _ _ => simp [placedLines, ExemptHeadOnly]
    | block id' st' kids => simp only [placedLines]; exact placedLinesList_exempt fkids pie kids
  | .ph _ _ _ _ => by intro pie box; simp [placedLines, ExemptHeadOnly]
theorem placedLinesList_exempt : (fs : List OFrag) → ∀ (pie : Bool) (kids : List OBox),
    ExemptHeadOnly pie (placedLinesList fs pie kids)
  | [] => by intro pie kids; simp [placedLinesList, ExemptHeadOnly]
  | f :: rest => by
    intro pie kids
    simp only [placedLinesList]
    cases hf : f.inFlow with
    | true =>
      simp only [if_true, Bool.not_true, Bool.and_false]
      apply exemptHeadOnly_append
      · split
        · exact placedLines_exempt f pie _
        · simp [ExemptHeadOnly]
      · exact (placedLinesList_exempt rest false kids).2 rfl
    | false =>
      simp only [Bool.false_eq_true, if_false, List.nil_append, Bool.not_false, Bool.and_true]
      exact placedLinesList_exempt rest pie kids
end

/-! ### pages: the final root fragment has the in-flow lines of the raw one -/

theorem placedLinesList_append_noFlow (xs ys : List OFrag) (pie : Bool) (kids : List OBox)
    (h : noFlow xs = true) : placedLinesList (xs ++ ys) pie kids = placedLinesList ys pie kids := by
  induction xs generalizing pie with
  | nil => rfl
  | cons x xs ih =>
    simp only [noFlow, List.all_cons, Bool.and_eq_true, Bool.not_eq_true'] at h
    simp only [List.cons_append, placedLinesList, h.1, Bool.false_eq_true, if_false, List.nil_append,
      Bool.not_false, Bool.and_true]
    exact ih _ (by simpa [noFlow] using h.2)

@[simp] theorem substAbs_idx_inFlow (res : List (Nat × OFrag)) (f : OFrag) (h : f.inFlow = true) :
    (substAbs res f).idx = f.idx := by
  cases f <;> simp_all [substAbs, OFrag.inFlow, OFrag.idx]

mutual
theorem substAbs_placed (res : List (Nat × OFrag)) (hres : ∀ p ∈ res, p.2.inFlow = false) :
    (f : OFrag) → f.inFlow = true → ∀ (pie : Bool) (box : OBox),
      placedLines (substAbs res f) pie box = placedLines f pie box
  | .para _ _ _ _ _ _ _, _, pie, box => by simp [substAbs]
  | .block _ _ _ _ _ kids, _, pie, box => by
    cases box with
    | para _ _ _ _ => simp [substAbs, placedLines]
    | block _ _ bkids => simp only [substAbs, placedLines]; exact substAbsList_placed res hres kids pie bkids
  | .ph _ _ _ _, h, pie, box => by simp [OFrag.inFlow] at h
theorem substAbsList_placed (res : List (Nat × OFrag)) (hres : ∀ p ∈ res, p.2.inFlow = false) :
    (fs : List OFrag) → ∀ (pie : Bool) (kids : List OBox),
      placedLinesList (substAbsList res fs) pie kids = placedLinesList fs pie kids
  | [], pie, kids => rfl
  | f :: fs, pie, kids => by
    simp only [substAbsList, placedLinesList, substAbs_inFlow res hres f,
      substAbsList_placed res hres fs]
    congr 1
    cases hf : f.inFlow with
    | false => simp
    | true =>
      simp only [if_true, substAbs_idx_inFlow res f hf]
      cases kids[f.idx]? with
      | none => rfl
      | some kb => simp only; exact substAbs_placed res hres f hf pie kb
end

theorem finalRoot_placed (height : Len) (shapes : List Shape) (conts : List OFrag) (res : List (Nat × OFrag))
    (f : OFrag) (hc : ∀ g ∈ conts, g.inFlow = false) (hres : ∀ p ∈ res, p.2.inFlow = false)
    (hroot : f.isPh = false) (pie : Bool) (box : OBox) :
    placedLines (finishRoot height shapes conts (substAbs res f)) pie box = placedLines f pie box := by
  cases f with
  | para _ _ _ _ _ _ _ => simp [substAbs, finishRoot]
  | ph _ _ _ _ => simp [OFrag.isPh] at hroot
  | block ser id idx st g kids =>
    cases box with
    | para _ _ _ _ => simp [substAbs, finishRoot, placedLines]
    | block _ _ bkids =>
      simp only [substAbs, finishRoot, placedLines]
      rw [placedLinesList_append_noFlow _ _ _ _ (by
        simp only [noFlow, List.all_eq_true, Bool.not_eq_true']
        exact hc)]
      exact substAbsList_placed res hres kids pie bkids

/-- The source the root fragment of a page was laid out from. -/
def pageSource (d : Doc) (p : Page) : OBox := if p.type.blank then emptyRoot d.root else d.root

theorem decoOk_emptyRoot (b : OBox) (h : DecoOk b) : DecoOk (emptyRoot b) := by
  cases b with
  | para id n lh st => simpa [emptyRoot, DecoOk] using h
  | block id st kids =>
    simp only [DecoOk] at h
    simp [emptyRoot, DecoOk, DecoOkList, h.1]

/-- **Line fits, pages**: on every page made by `remake_page`, every in-flow line of the final root
fragment ends above the bottom of the page area, except the first in-flow line of the page. -/
theorem remakePage_fits (d : Doc) (hd : DecoOk d.root) (index : Nat) (resume : Option Resume) (np : NextPage)
    (right : Bool) (brokenIn : List Broken) (rootTop : Rat) (p : Page)
    (hp : remakePage d index resume np right brokenIn rootTop = some p) :
    ∃ c : Ctx, c.pageBottom = d.pageH ∧ LinesOk c 0 (placedLines p.root true (pageSource d p)) := by
  unfold remakePage at hp
  dsimp only at hp
  split at hp
  · simp at hp
  · rename_i f hfrag
    simp only [Option.some.injEq] at hp
    subst hp
    refine ⟨{ pageBottom := d.pageH, currentPage := index + 1, forcedBreak := forcedBreakOf np }, rfl, ?_⟩
    simp only [pageSource]
    rw [finalRoot_placed _ _ _ _ f
      (substAbsList_oof _ (absFold_oof _ _ (_, []) (fun q hq => by simp at hq)) _
        (contFold_oof _ _ _ (World.empty, []) (fun g hg => by simp at hg)))
      (absFold_oof _ _ (_, []) (fun q hq => by simp at hq)) (layoutBox_frag_isPh _ _ _ _ _ _ _ _ _ _ _ hfrag)]
    split
    · rename_i hb
      simp only [hb, if_true] at hfrag
      exact box_fits _ (decoOk_emptyRoot _ hd) _ _ _ _ _ _ _ _ _ f hfrag
    · rename_i hb
      simp only [hb, if_false] at hfrag
      exact box_fits _ hd _ _ _ _ _ _ _ _ _ f hfrag

end Wp.PMO
