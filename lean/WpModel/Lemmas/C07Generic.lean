/-
C07 — helper lemmas about `generic_expander` (`checkItems`, `fillOne`, `genericFill`): used by Props/C07*.lean.
-/
import WpModel.Model.Declarations

namespace Wp.C07
open Wp Wp.Decl

theorem checkItems_cons {α : Type} (expanded seen : List String) (n : String) (t : α)
    (rest : List (String × α)) :
    checkItems expanded seen ((n, t) :: rest) =
      if n ∉ expanded then .error .assertion
      else if n ∈ seen then .error .invalid
      else checkItems expanded (n :: seen) rest := by
  rw [checkItems]
  by_cases he : n ∈ expanded <;> by_cases hs : n ∈ seen <;> simp [he, hs] <;> rfl

theorem checkItems_ok {α : Type} (expanded : List String) :
    ∀ (items : List (String × α)) (seen : List String), checkItems expanded seen items = .ok () →
      (∀ n ∈ items.map Prod.fst, n ∈ expanded) ∧ (items.map Prod.fst).Nodup ∧
      ∀ n ∈ items.map Prod.fst, n ∉ seen
  | [], _, _ => by simp
  | (n, t) :: rest, seen, h => by
    rw [checkItems_cons] at h
    by_cases he : n ∈ expanded
    · by_cases hs : n ∈ seen
      · simp [he, hs] at h
      · simp only [he, hs, not_true_eq_false, if_false] at h
        have ih := checkItems_ok expanded rest (n :: seen) h
        refine ⟨?_, ?_, ?_⟩
        · intro m hm
          simp only [List.map_cons, List.mem_cons] at hm
          rcases hm with rfl | hm
          · exact he
          · exact ih.1 m hm
        · simp only [List.map_cons, List.nodup_cons]
          refine ⟨?_, ih.2.1⟩
          intro hm
          exact ih.2.2 n hm (by simp)
        · intro m hm
          simp only [List.map_cons, List.mem_cons] at hm
          rcases hm with rfl | hm
          · exact hs
          · intro hms
            exact ih.2.2 m hm (by simp [hms])
    · simp [he] at h

theorem checkItems_of_nodup {α : Type} (expanded : List String) :
    ∀ (items : List (String × α)) (seen : List String),
      (∀ n ∈ items.map Prod.fst, n ∈ expanded) → (items.map Prod.fst).Nodup →
      (∀ n ∈ items.map Prod.fst, n ∉ seen) → checkItems expanded seen items = .ok ()
  | [], _, _, _, _ => rfl
  | (n, t) :: rest, seen, h1, h2, h3 => by
    rw [checkItems_cons]
    have he : n ∈ expanded := h1 n (by simp)
    have hs : n ∉ seen := h3 n (by simp)
    simp only [he, hs, not_true_eq_false, if_false]
    simp only [List.map_cons, List.nodup_cons] at h2
    apply checkItems_of_nodup expanded rest (n :: seen)
    · intro m hm; exact h1 m (by simp [hm])
    · exact h2.2
    · intro m hm hms
      simp only [List.mem_cons] at hms
      rcases hms with rfl | hms
      · exact h2.1 hm
      · exact h3 m (by simp [hm]) hms

/-- When every yielded name is one of the declared names, the only way the collecting loop fails is
`InvalidValues` ("got multiple … values"). -/
theorem checkItems_invalid {α : Type} (expanded : List String) :
    ∀ (items : List (String × α)) (seen : List String), (∀ n ∈ items.map Prod.fst, n ∈ expanded) →
      checkItems expanded seen items = .ok () ∨ checkItems expanded seen items = .error .invalid
  | [], _, _ => Or.inl rfl
  | (n, t) :: rest, seen, h1 => by
    rw [checkItems_cons]
    have he : n ∈ expanded := h1 n (by simp)
    by_cases hs : n ∈ seen
    · right; simp [he, hs]
    · simp only [he, hs, not_true_eq_false, if_false]
      exact checkItems_invalid expanded rest (n :: seen) (fun m hm => h1 m (by simp [hm]))

theorem fillOne_fst {α β : Type} (name : String) (items : List (String × α))
    (validate : String → α → R β) (n : String) (r : String × OutV β)
    (h : fillOne name items validate n = .ok r) : r.1 = actualName name n := by
  unfold fillOne at h
  split at h
  · rename_i t hl
    cases hv : validate (actualName name n) t with
    | error f => rw [hv] at h; cases h
    | ok b => rw [hv] at h; cases h; rfl
  · cases h; rfl

theorem mapM_ok_cons {α β : Type} (f : α → R β) (a : α) (l : List α) (out : List β)
    (h : (a :: l).mapM f = .ok out) : ∃ b bs, f a = .ok b ∧ l.mapM f = .ok bs ∧ out = b :: bs := by
  rw [List.mapM_cons] at h
  cases hf : f a with
  | error e => simp [hf, bind, Except.bind] at h
  | ok b =>
    cases hl : l.mapM f with
    | error e => simp [hf, hl, bind, Except.bind] at h
    | ok bs =>
      simp [hf, hl, bind, Except.bind, pure, Except.pure] at h
      exact ⟨b, bs, rfl, rfl, h.symm⟩

theorem mapM_fill_names {α β : Type} (name : String) (items : List (String × α))
    (validate : String → α → R β) :
    ∀ (expanded : List String) (out : Longhands β),
      expanded.mapM (fillOne name items validate) = .ok out →
      out.map Prod.fst = expanded.map (actualName name)
  | [], out, h => by
    simp [List.mapM_nil, pure, Except.pure] at h; subst h; rfl
  | n :: ns, out, h => by
    obtain ⟨b, bs, hb, hbs, rfl⟩ := mapM_ok_cons _ n ns out h
    simp [fillOne_fst name items validate n b hb, mapM_fill_names name items validate ns bs hbs]

theorem mapM_fill_mem {α β : Type} (name : String) (items : List (String × α))
    (validate : String → α → R β) :
    ∀ (expanded : List String) (out : Longhands β),
      expanded.mapM (fillOne name items validate) = .ok out →
      ∀ n ∈ expanded, ∃ r ∈ out, fillOne name items validate n = .ok r
  | [], _, _ => by simp
  | m :: ns, out, h => by
    obtain ⟨b, bs, hb, hbs, rfl⟩ := mapM_ok_cons _ m ns out h
    intro n hn
    simp only [List.mem_cons] at hn
    rcases hn with rfl | hn
    · exact ⟨b, by simp, hb⟩
    · obtain ⟨r, hr, hf⟩ := mapM_fill_mem name items validate ns bs hbs n hn
      exact ⟨r, by simp [hr], hf⟩

/-- What `.plain` evaluation amounts to once it succeeds. -/
theorem generic_plain_ok {α β : Type} (expanded : List String) (name : String) (raw : Raw α)
    (validate : String → α → R β) (out : Longhands β)
    (h : genericFill expanded name .plain raw validate = .ok out) :
    checkItems expanded [] raw.items = .ok () ∧ raw.ends = none ∧
      expanded.mapM (fillOne name raw.items validate) = .ok out := by
  unfold genericFill at h
  simp only at h
  cases hc : checkItems expanded [] raw.items with
  | error f => simp [hc, bind, Except.bind] at h
  | ok u =>
    cases he : raw.ends with
    | some f => simp [hc, he, bind, Except.bind, throw, throwThe, MonadExceptOf.throw] at h
    | none =>
      simp [hc, he, bind, Except.bind] at h
      exact ⟨rfl, rfl, h⟩

/-- A longhand yielded twice makes the whole shorthand invalid. -/
theorem genericFill_dup_invalid {α β : Type} (expanded : List String) (name : String) (raw : Raw α)
    (validate : String → α → R β) (hin : ∀ n ∈ raw.items.map Prod.fst, n ∈ expanded)
    (hdup : ¬ (raw.items.map Prod.fst).Nodup) :
    genericFill expanded name .plain raw validate = .error .invalid := by
  unfold genericFill
  simp only
  rcases checkItems_invalid expanded raw.items [] hin with hc | hc
  · exact absurd (checkItems_ok expanded raw.items [] hc).2.1 hdup
  · simp [hc, bind, Except.bind]

theorem lookup_perm {α : Type} {l l' : List (String × α)} (hp : l.Perm l')
    (hn : (l.map Prod.fst).Nodup) (n : String) : l.lookup n = l'.lookup n := by
  induction hp with
  | nil => rfl
  | cons x _ ih =>
    obtain ⟨a, b⟩ := x
    simp only [List.map_cons, List.nodup_cons] at hn
    simp only [List.lookup_cons, ih hn.2]
  | swap x y l =>
    obtain ⟨a, b⟩ := x
    obtain ⟨c, d⟩ := y
    simp only [List.map_cons, List.nodup_cons, List.mem_cons, not_or] at hn
    simp only [List.lookup_cons]
    by_cases h1 : n = c
    · have e1 : (n == c) = true := by simp [h1]
      have e2 : (n == a) = false := by
        simp only [beq_eq_false_iff_ne, ne_eq]
        intro e
        exact hn.1.1 (h1.symm.trans e)
      simp only [e1, e2]
    · have e1 : (n == c) = false := by simp [h1]
      simp only [e1]
  | trans h1 _ ih1 ih2 =>
    rw [ih1 hn, ih2 ((h1.map Prod.fst).nodup_iff.mp hn)]

/-- The generic wrapper does not depend on the order in which the wrapped expander yields its items. -/
theorem genericFill_perm {α β : Type} (expanded : List String) (name : String) (raw raw' : Raw α)
    (validate : String → α → R β) (he : raw.ends = none) (he' : raw'.ends = none)
    (hp : raw.items.Perm raw'.items) (hin : ∀ n ∈ raw.items.map Prod.fst, n ∈ expanded) :
    genericFill expanded name .plain raw validate = genericFill expanded name .plain raw' validate := by
  have hpn := hp.map Prod.fst
  have hin' : ∀ n ∈ raw'.items.map Prod.fst, n ∈ expanded := fun n hn => hin n (hpn.mem_iff.mpr hn)
  by_cases hnd : (raw.items.map Prod.fst).Nodup
  · have hnd' := hpn.nodup_iff.mp hnd
    have hc := checkItems_of_nodup expanded raw.items [] hin hnd (by simp)
    have hc' := checkItems_of_nodup expanded raw'.items [] hin' hnd' (by simp)
    have hf : fillOne name raw.items validate = fillOne name raw'.items validate := by
      funext n
      simp only [fillOne, lookup_perm hp hnd n]
    unfold genericFill
    simp only [hc, hc', he, he', hf]
  · rw [genericFill_dup_invalid expanded name raw validate hin hnd,
      genericFill_dup_invalid expanded name raw' validate hin' (fun h => hnd (hpn.nodup_iff.mpr h))]

theorem genericFill_ends_invalid {α β : Type} (expanded : List String) (name : String) (raw : Raw α)
    (validate : String → α → R β) (he : raw.ends = some .invalid)
    (hin : ∀ n ∈ raw.items.map Prod.fst, n ∈ expanded) :
    genericFill expanded name .plain raw validate = .error .invalid := by
  unfold genericFill
  simp only
  rcases checkItems_invalid expanded raw.items [] hin with hc | hc
  · simp [hc, he, bind, Except.bind, throw, throwThe, MonadExceptOf.throw]
  · simp [hc, bind, Except.bind]


end Wp.C07
