/-
Rule 3.2 of the anonymous-table fix-ups (CSS 2.1 §17.2.1; Model/AnonBoxes.lean `tbc` step 3): *which*
anonymous table is generated around misparented table parts.  Core Lean only.
-/
import WpModel.Lemmas.Tables

namespace Wp.Bx
open KBox

/-- Every output of `wrap_improper` is an input that passes the test, or the result of
`table_boxes_children` on a fresh anonymous box of the class: it has every property `Q` such results have. -/
theorem wrapImproper_spec_gen (Q : KBox → Prop) (box : KBox) (wt : BoxKind)
    (hQ : ∀ n l w, tbc n (anonFrom wt box []) l = .ok w → Q w) : ∀ (n : Nat) (children : List KBox)
    (test : KBox → Bool) (improper out : List KBox),
    wrapImproper n box children wt test improper = .ok out →
    ∀ o ∈ out, (o ∈ children ∧ test o = true) ∨ Q o
  | 0, children, test, improper, out, h => by unfold wrapImproper at h; cases h
  | n + 1, [], test, improper, out, h => by
    unfold wrapImproper at h
    split at h
    · split at h
      · cases h
      · rename_i w hw
        cases h
        intro o ho
        simp only [List.mem_singleton] at ho
        subst ho
        right
        exact hQ n _ o hw
    · cases h; intro o ho; cases ho
  | n + 1, c :: cs, test, improper, out, h => by
    unfold wrapImproper at h
    split at h
    · rename_i htest
      split at h
      · split at h
        · cases h
        · rename_i w hw
          split at h
          · cases h
          · rename_i rest hrest
            cases h
            intro o ho
            cases ho with
            | head =>
              right
              exact hQ n _ w hw
            | tail _ ho' =>
              cases ho' with
              | head => exact Or.inl ⟨List.mem_cons_self, htest⟩
              | tail _ ho'' =>
                rcases wrapImproper_spec_gen Q box wt hQ n cs test [] rest hrest o ho'' with ⟨h1, h2⟩ | h1
                · exact Or.inl ⟨List.mem_cons_of_mem _ h1, h2⟩
                · exact Or.inr h1
      · split at h
        · cases h
        · rename_i rest hrest
          cases h
          intro o ho
          cases ho with
          | head => exact Or.inl ⟨List.mem_cons_self, htest⟩
          | tail _ ho' =>
            rcases wrapImproper_spec_gen Q box wt hQ n cs test [] rest hrest o ho' with ⟨h1, h2⟩ | h1
            · exact Or.inl ⟨List.mem_cons_of_mem _ h1, h2⟩
            · exact Or.inr h1
    · intro o ho
      rcases wrapImproper_spec_gen Q box wt hQ n cs test (c :: improper) out h o ho with ⟨h1, h2⟩ | h1
      · exact Or.inl ⟨List.mem_cons_of_mem _ h1, h2⟩
      · exact Or.inr h1


/-- The anonymous table wrapper rule 3.2 generates in a parent `box`: an anonymous inline-block holding
an inline-table when the parent is an inline box, an anonymous block holding a table otherwise. -/
def Rule32Wrapper (box : KBox) (o : KBox) : Prop :=
  IsWrapper o ∧ o.st.anon = true ∧
  o.kind = (if box.isA .InlineBox = true then BoxKind.InlineBlockBox else .BlockBox) ∧
  ∃ t ∈ o.kids, t.kind = (if box.isA .InlineBox = true then BoxKind.InlineTableBox else .TableBox)

theorem anonFrom_isA (cls : BoxKind) (p : KBox) (ks : List KBox) (c : BoxClass) :
    (anonFrom cls p ks).isA c = Gen.isSub cls c := rfl

/-- `table_boxes_children` on a fresh anonymous (inline-)table: a wrapper of the matching class. -/
theorem tbc_anon_table (wt : BoxKind) (hwt : wt = .TableBox ∨ wt = .InlineTableBox) (box : KBox) :
    ∀ n l w, tbc n (anonFrom wt box []) l = .ok w →
      IsWrapper w ∧ w.st.anon = true ∧
      w.kind = (if wt = .InlineTableBox then BoxKind.InlineBlockBox else .BlockBox) ∧ ∃ t ∈ w.kids, t.kind = wt := by
  intro n l w h
  cases n with
  | zero => unfold tbc at h; cases h
  | succ n =>
    obtain ⟨c3, sh, _⟩ := tbc_table n (anonFrom wt box []) l w (by rw [anonFrom_kind]; exact hwt) h
    obtain ⟨top, table, bottom, hk, htk, _⟩ := sh.parts
    refine ⟨sh.wrapper, sh.anon, ?_, table, by rw [hk]; simp, by rw [htk, anonFrom_kind]⟩
    rw [sh.kind, anonFrom_isA]
    rcases hwt with rfl | rfl <;> rfl

/-- Rule 3.2 for every parent that is not itself a table part: the children are the given ones that are
no internal table boxes, and anonymous table wrappers whose class follows the parent: inline-block ⊃
inline-table inside an inline box, block ⊃ table anywhere else (block, inline-block, cell, caption,
flex, grid …). -/
theorem tbc_other_kinds (n : Nat) (box : KBox) (children : List KBox) (r : KBox)
    (e1 : Gen.isSub box.kind .TableColumnBox = false) (e2 : Gen.isSub box.kind .TableColumnGroupBox = false)
    (e3 : Gen.isSub box.kind .TableBox = false) (e4 : Gen.isSub box.kind .TableRowGroupBox = false)
    (e5 : Gen.isSub box.kind .TableRowBox = false)
    (hpp : ∀ j, (Gen.properParents j).contains box.kind = false)
    (h : tbc (n + 1) box children = .ok r) :
    ∃ ks, r = box.withKids ks ∧
      ∀ o ∈ ks, (o ∈ children ∧ Gen.internalTableOrCaption o.kind = false) ∨ Rule32Wrapper box o := by
  unfold tbc at h
  simp only [e1, e2, e3, e4, e5, Bool.false_eq_true, if_false] at h
  generalize hc0 : rule14 none (if Gen.tabularContainer box.kind = true then rule13 children else children) = c0 at h
  have hsub : ∀ o ∈ c0, o ∈ children := by
    intro o ho
    rw [← hc0] at ho
    have := mem_rule14 _ none o ho
    split at this
    · exact mem_rule13 _ o this
    · exact this
  split at h
  · cases h
  · rename_i c2 h2
    have hc2 : ∀ o ∈ c2, (o ∈ children ∧ o.isA .TableCellBox = false) ∨ o.kind = .TableRowBox := by
      intro o ho
      rcases wrapImproper_spec n box _ _ _ [] c2 h2 o ho with ⟨hm, ht⟩ | hw
      · exact Or.inl ⟨hsub o hm, by simpa using ht⟩
      · exact Or.inr (wrappedAs_kind _ o hw rfl)
    have key : ∀ (wt : BoxKind) (c3 : List KBox), (wt = .TableBox ∨ wt = .InlineTableBox) →
        wrapImproper n box c2 wt (fun c => !Gen.properTableChild c.kind) [] = .ok c3 →
        ∀ o ∈ c3, (o ∈ children ∧ Gen.internalTableOrCaption o.kind = false) ∨
          (IsWrapper o ∧ o.st.anon = true ∧
            o.kind = (if wt = .InlineTableBox then BoxKind.InlineBlockBox else .BlockBox) ∧ ∃ t ∈ o.kids, t.kind = wt) := by
      intro wt c3 hwt h3 o ho
      rcases wrapImproper_spec_gen _ box wt (tbc_anon_table wt hwt box) n _ _ [] c3 h3 o ho with ⟨hm, ht⟩ | hw
      · have hnp : Gen.properTableChild o.kind = false := by simpa using ht
        rcases hc2 o hm with ⟨hin, hcell⟩ | hrow
        · left
          refine ⟨hin, ?_⟩
          rw [internal_iff, hnp]
          cases hk : (o.kind == BoxKind.TableCellBox)
          · rfl
          · have : o.kind = .TableCellBox := by simpa using hk
            rw [(isA_cell_iff o).2 this] at hcell; cases hcell
        · rw [hrow] at hnp; exact absurd hnp (by decide)
      · exact Or.inr hw
    by_cases hin : Gen.isSub box.kind .InlineBox = true
    · -- the parent is an inline box: rule 3.2 with an inline table
      rw [if_pos hin] at h
      split at h
      · cases h
      · rename_i c3 h3
        cases h
        refine ⟨c3, rfl, fun o ho => ?_⟩
        rcases key .InlineTableBox c3 (Or.inr rfl) h3 o ho with h1 | h1
        · exact Or.inl h1
        · right
          unfold Rule32Wrapper
          rw [show box.isA .InlineBox = true from hin]
          simpa using h1
    · rw [if_neg hin] at h
      split at h
      · cases h
      · rename_i c3 h3
        cases h
        have h3' : wrapImproper n box c2 .TableBox (fun c => !Gen.properTableChild c.kind) [] = .ok c3 := by
          have : (fun c : KBox => !Gen.properTableChild c.kind || (Gen.properParents c.kind).contains box.kind) =
              (fun c : KBox => !Gen.properTableChild c.kind) := by
            funext c; rw [hpp c.kind, Bool.or_false]
          rw [← this]; exact h3
        refine ⟨c3, rfl, fun o ho => ?_⟩
        rcases key .TableBox c3 (Or.inl rfl) h3' o ho with h1 | h1
        · exact Or.inl h1
        · right
          unfold Rule32Wrapper
          have hin' : box.isA .InlineBox = false := by simpa [KBox.isA] using hin
          rw [hin']
          simpa using h1


end Wp.Bx
