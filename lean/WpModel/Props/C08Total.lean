/-
C08 — box generation is total: `element_to_box` (with `::marker`, `::before`, `::after`, `content:`
strings and quotes) raises nothing for any element tree whose computed styles are values the validators
produce.  Property theorems only (helper lemmas private).

`DomOk d`: every element and pseudo-element of `d` has a `display` the `display` validator returns
(`Gen.displayValues`, regenerated from the validator on every run), a `float` / `position` keyword, and a
`quotes` value that is `auto`, `none` or at least one pair; every element has a `::marker` style
(`style_for(element, 'marker')` always exists).
-/
import WpModel.Props.C08
import WpModel.Lemmas.BoxGenTidy
import WpModel.Lemmas.InlineDoc

namespace Wp.C08
open Wp Wp.Bx

def QuotesOk (q : Quotes) : Prop :=
  match q with
  | .pairs o c => o ≠ [] ∧ c ≠ []
  | _ => True

/-- A computed style as the validators and `computed_values` can hand it to `element_to_box`. -/
def StyleOk (s : EStyle) : Prop :=
  s.display ∈ Gen.displayValues ∧ s.float ∈ ["none", "left", "right", "footnote"] ∧
  s.position ∈ ["static", "relative", "absolute", "fixed", "running"] ∧ QuotesOk s.quotes

def PseudoOk : Option Pseudo → Prop
  | none => True
  | some p => StyleOk p.st

mutual
def DomOk : Dom → Prop
  | .el st _ marker before after _ kids _ =>
    StyleOk st ∧ (∃ m, marker = some m ∧ StyleOk m.st) ∧ PseudoOk before ∧ PseudoOk after ∧ DomOkL kids
def DomOkL : List Dom → Prop
  | [] => True
  | d :: ds => DomOk d ∧ DomOkL ds
end

private theorem box_type_ok (s : EStyle) (h : StyleOk s) (root : Bool) :
    blockify s.display s.float s.position root = ["none"] ∨
    ∃ k, boxTypeFromDisplay (blockify s.display s.float s.position root) = some k := by
  obtain ⟨h1, h2, h3, _⟩ := h
  rcases display_to_box_total s.display h1 s.float h2 s.position h3 root with h | h
  · exact Or.inl h
  · exact Or.inr (Option.isSome_iff_exists.mp h)

private theorem contentToBoxes_total (q : Quotes) (hq : QuotesOk q) (c : Content) (parent : KBox) (depth : Nat) :
    ∃ r, contentToBoxes q c parent depth = .ok r := by
  unfold contentToBoxes
  cases c with
  | inhibit => exact ⟨_, rfl⟩
  | items l =>
    obtain ⟨r, hr⟩ := content_total q hq l [] depth
    simp only [hr]
    exact ⟨_, rfl⟩

/-- `marker_to_box` never fails. -/
theorem marker_to_box_total (m : MarkerSpec) (hm : StyleOk m.st) (attrs : El) (outside : Bool) (depth : Nat) :
    ∃ r, markerToBox m attrs outside depth = .ok r := by
  unfold markerToBox
  simp only
  split
  · exact ⟨_, rfl⟩
  · rename_i hnone
    rcases box_type_ok m.st hm false with h | ⟨k, hk⟩
    · rw [h] at hnone; exact (hnone (by decide)).elim
    · simp only [hk]
      cases hc : m.content with
      | items l =>
        obtain ⟨r, hr⟩ := contentToBoxes_total m.st.quotes hm.2.2.2 (.items l)
          (KBox.mk k (mkStyle m.st (blockify m.st.display m.st.float m.st.position false)) attrs (initInst k attrs) [] [] []) depth
        simp only [hr]
        split <;> (try split) <;> exact ⟨_, rfl⟩
      | inhibit =>
        cases ht : m.typeText with
        | none => simp
        | some t =>
          simp only
          split <;> (try split) <;> exact ⟨_, rfl⟩


/-- `before_after_to_box` never fails (the `::marker` of a pseudo-element with `display: list-item` is the
element's). -/
theorem before_after_to_box_total (p : Option Pseudo) (hp : PseudoOk p) (m : MarkerSpec) (hm : StyleOk m.st)
    (attrs : El) (depth : Nat) : ∃ r, beforeAfterToBox p (some m) attrs depth = .ok r := by
  unfold beforeAfterToBox
  cases p with
  | none => exact ⟨_, rfl⟩
  | some p =>
    simp only
    split
    · exact ⟨_, rfl⟩
    · rename_i hnone
      cases hc : p.content with
      | inhibit => exact ⟨_, rfl⟩
      | items l =>
        simp only
        rcases box_type_ok p.st hp false with h | ⟨k, hk⟩
        · rw [h] at hnone; exact (hnone (by decide)).elim
        · simp only [hk]
          have hmk : ∃ r, (if (blockify p.st.display p.st.float p.st.position false).contains "list-item" = true then
              markerToBox m attrs p.st.listOutside depth else Except.ok ([], depth)) = .ok r := by
            split
            · exact marker_to_box_total m hm attrs _ depth
            · exact ⟨_, rfl⟩
          obtain ⟨⟨ms, d1⟩, hr⟩ := hmk
          simp only [hr]
          obtain ⟨⟨cs, d2⟩, hr2⟩ := contentToBoxes_total p.st.quotes hp.2.2.2 (.items l)
            (KBox.mk k (mkStyle p.st (blockify p.st.display p.st.float p.st.position false)) attrs (initInst k attrs) [] [] []) d1
          simp only [hr2]
          exact ⟨_, rfl⟩

mutual
/-- **`element_to_box` is total** on every well-styled element tree, as the root or not, at any quote
depth: every element generates its boxes (or none for `display: none`), no KeyError for a display without
box class, no IndexError in the quotes. -/
theorem element_to_box_total : ∀ (root : Bool) (d : Dom) (depth : Nat), DomOk d →
    ∃ r, elementToBox root d depth = .ok r
  | root, .el es attrs marker before after text kids tail, depth, h => by
    unfold DomOk at h
    obtain ⟨hs, ⟨m, rfl, hm⟩, hb, ha, hk⟩ := h
    unfold elementToBox
    simp only
    split
    · exact ⟨_, rfl⟩
    · rename_i hnone
      rcases box_type_ok es hs root with h | ⟨k, hk'⟩
      · rw [h] at hnone; exact (hnone (by decide)).elim
      · simp only [hk']
        have hmk : ∃ r, (if (blockify es.display es.float es.position root).contains "list-item" = true then
            markerToBox m attrs es.listOutside depth else Except.ok ([], depth)) = .ok r := by
          split
          · exact marker_to_box_total m hm attrs _ depth
          · exact ⟨_, rfl⟩
        obtain ⟨⟨ms, d1⟩, hr⟩ := hmk
        simp only [hr]
        obtain ⟨⟨bs, d2⟩, hr2⟩ := before_after_to_box_total before hb m hm attrs d1
        simp only [hr2]
        obtain ⟨⟨accRev, d3⟩, hr3⟩ := element_kids_total
          (KBox.mk k (mkStyle es (blockify es.display es.float es.position root)) attrs (initInst k attrs) [] [] [])
          kids (if text.isEmpty = true then bs.reverse ++ ms.reverse else
            textBoxFrom (KBox.mk k (mkStyle es (blockify es.display es.float es.position root)) attrs
              (initInst k attrs) [] [] []) text :: (bs.reverse ++ ms.reverse)) d2 hk
        simp only [hr3]
        obtain ⟨⟨as, d4⟩, hr4⟩ := before_after_to_box_total after ha m hm attrs d3
        simp only [hr4]
        exact ⟨_, rfl⟩
theorem element_kids_total : ∀ (parent : KBox) (ds : List Dom) (acc : List KBox) (depth : Nat), DomOkL ds →
    ∃ r, elementKids parent ds acc depth = .ok r
  | _, [], _, _, _ => by unfold elementKids; exact ⟨_, rfl⟩
  | parent, d :: ds, acc, depth, h => by
    unfold DomOkL at h
    unfold elementKids
    obtain ⟨⟨boxes, d1⟩, hr⟩ := element_to_box_total false d depth h.1
    simp only [hr]
    exact element_kids_total parent ds _ d1 h.2
end


private theorem pw_st (b : KBox) (f : Bool) : (pw b f).1.st = b.st ∧ (pw b f).1.el = b.el := by
  obtain ⟨k, st, el, inst, text, kids, cols⟩ := b
  unfold pw
  split
  · split <;> exact ⟨rfl, rfl⟩
  · exact ⟨rfl, rfl⟩

private theorem ptt_st (b : KBox) : (ptt b).st = b.st ∧ (ptt b).el = b.el := by
  obtain ⟨k, st, el, inst, text, kids, cols⟩ := b
  unfold ptt
  split
  · exact ⟨rfl, rfl⟩
  · split <;> exact ⟨rfl, rfl⟩

private theorem withKids_el (b : KBox) (ks : List KBox) : (b.withKids ks).el = b.el := by
  obtain ⟨k, st, el, inst, text, kids, cols⟩ := b
  rfl

/-- After the computation of `display` (blockification of floats, positioned boxes and the root) every
validator value is `none` or has a box class of the nature css-display-3 prescribes for the *computed*
value (`rightBox`; which computed value that is, is `blockify_partial` and its known finding). -/
theorem computed_display_to_box_right :
    ∀ v ∈ Gen.displayValues, ∀ f ∈ ["none", "left", "right", "footnote"],
    ∀ p ∈ ["static", "relative", "absolute", "fixed", "running"], ∀ r : Bool,
      blockify v f p r = ["none"] ∨
      ∃ k, boxTypeFromDisplay (blockify v f p r) = some k ∧ rightBox ((blockify v f p r).take 2) k = true := by
  decide +kernel

/-- **Elements generate the boxes their computed display prescribes**: whatever `element_to_box` returns
for an element is nothing when its computed display is `none`, and otherwise exactly one box, of the class
`BOX_TYPE_FROM_DISPLAY` gives for the computed display — a class of the prescribed nature — carrying the
element's `float` / `position` (computed) and attributes; white-space processing, text-transform, markers,
`::before` / `::after` and children change neither. -/
theorem element_to_box_class (root : Bool) (es : EStyle) (attrs : El) (marker : Option MarkerSpec)
    (before after : Option Pseudo) (text : Text) (kids : List Dom) (tail : Text) (depth : Nat)
    (out : List KBox) (depth' : Nat) (hs : StyleOk es)
    (h : elementToBox root (.el es attrs marker before after text kids tail) depth = .ok (out, depth')) :
    (blockify es.display es.float es.position root = ["none"] ∧ out = [] ∧ depth' = depth) ∨
    ∃ b k, out = [b] ∧ b.kind = k ∧ boxTypeFromDisplay (blockify es.display es.float es.position root) = some k ∧
      rightBox ((blockify es.display es.float es.position root).take 2) k = true ∧
      b.st = mkStyle es (blockify es.display es.float es.position root) ∧ b.el = attrs := by
  unfold elementToBox at h
  simp only at h
  split at h
  · rename_i hn
    cases h
    exact Or.inl ⟨by simpa using hn, rfl, rfl⟩
  · rename_i hn
    right
    rcases computed_display_to_box_right es.display hs.1 es.float hs.2.1 es.position hs.2.2.1 root with h0 | ⟨k, hk, hr⟩
    · rw [h0] at hn; exact (hn (by decide)).elim
    · simp only [hk] at h
      split at h
      · cases h
      · split at h
        · cases h
        · split at h
          · cases h
          · split at h
            · cases h
            · cases h
              refine ⟨_, k, rfl, ?_, hk, hr, ?_, ?_⟩
              · split
                · rw [(withKids_proj _ _).1, ptt_kind, pw_kind, (withKids_proj _ _).1]; rfl
                · rw [ptt_kind, pw_kind, (withKids_proj _ _).1]; rfl
              · split
                · rw [(withKids_proj _ _).2.1, (ptt_st _).1, (pw_st _ _).1, (withKids_proj _ _).2.1]; rfl
                · rw [(ptt_st _).1, (pw_st _ _).1, (withKids_proj _ _).2.1]; rfl
              · split
                · rw [withKids_el, (ptt_st _).2, (pw_st _ _).2, withKids_el]; rfl
                · rw [(ptt_st _).2, (pw_st _ _).2, withKids_el]; rfl


/-- Hence, on a well-styled document whose root element generates a box, **whatever makes
`build_formatting_structure` fail lies in the anonymous-box fix-ups**, never in box generation: the root box
exists, has the class of the root's computed display, and the failure is `create_anonymous_boxes`' (of which
`build_formatting_structure_errors` lists the kinds and `Witness.C08.running_row_not_fixed` is the one known
instance). -/
theorem build_formatting_structure_fails_only_in_fixups (es : EStyle) (attrs : El) (marker : Option MarkerSpec)
    (before after : Option Pseudo) (text : Text) (kids : List Dom) (tail : Text)
    (hd : DomOk (.el es attrs marker before after text kids tail))
    (hroot : blockify es.display es.float es.position true ≠ ["none"]) (e : BErr)
    (h : buildFormattingStructure (.el es attrs marker before after text kids tail) = .error e) :
    ∃ b depth k, elementToBox true (.el es attrs marker before after text kids tail) 0 = .ok ([b], depth) ∧
      b.kind = k ∧ boxTypeFromDisplay (blockify es.display es.float es.position true) = some k ∧
      createAnonymousBoxes b = .error e := by
  obtain ⟨⟨out, depth⟩, hr⟩ := element_to_box_total true _ 0 hd
  have hs : StyleOk es := by unfold DomOk at hd; exact hd.1
  rcases element_to_box_class true es attrs marker before after text kids tail 0 out depth hs hr with
    ⟨hn, _, _⟩ | ⟨b, k, rfl, hk, hbt, _, _, _⟩
  · exact absurd hn hroot
  · refine ⟨b, depth, k, hr, hk, hbt, ?_⟩
    unfold buildFormattingStructure at h
    rw [hr] at h
    exact h

/-! ## From the function-level white-space theorem to elements

`InlineDom d`: `d` and its descendants are inline elements in normal flow (`display: inline`, no float, static
position) with a collapsing `white-space`, no `text-transform`, no `::before` / `::after`. -/

private theorem pw_parent (k : BoxKind) (st : Style) (el : El) (inst : Inst) (ks : List KBox)
    (hnt : Gen.isSub k .TextBox = false) :
    (pw (.mk k st el inst [] ks []) false).1 = .mk k st el inst [] (pwKids ks false).1 [] := by
  unfold pw
  simp only [hnt, Bool.false_eq_true, if_false]

private theorem ptt_parent (k : BoxKind) (st : Style) (el : El) (inst : Inst) (ks : List KBox)
    (hnt : Gen.isSub k .TextBox = false) (hks : ICPL ks) :
    ptt (.mk k st el inst [] ks []) = .mk k st el inst [] ks [] := by
  unfold ptt
  simp only [hnt, Bool.false_eq_true, if_false, pttKids_icp ks hks]
  split <;> rfl

/-- **The white-space clause on elements.**  An element of *any* display — block, list-less inline-block,
table cell, a float, an absolutely positioned box, the root — whose content is text and inline elements in
normal flow with a collapsing `white-space` (`InlineDomL kids`, and the element's own `white-space`
collapses): the text of the box `element_to_box` returns for it never has two consecutive spaces, whatever
spaces, tabs and newlines the text nodes and tails of its subtree contain and however they are split over
elements — the state "a collapsible space precedes" is threaded through all of them. -/
theorem element_inline_content_no_double_space (root : Bool) (es : EStyle) (attrs : El) (marker : Option MarkerSpec)
    (text : Text) (kids : List Dom) (tail : Text) (depth : Nat) (b : KBox) (depth' : Nat)
    (hplain : spaceCollapse es.ws = true ∧ es.tt = .none ∧ es.hyph = false)
    (hli : (blockify es.display es.float es.position root).contains "list-item" = false)
    (hk : InlineDomL kids)
    (h : elementToBox root (.el es attrs marker none none text kids tail) depth = .ok ([b], depth')) :
    noDoubleSp (leafText b) = true := by
  unfold elementToBox at h
  simp only [beforeAfter_none, hli, Bool.false_eq_true, if_false] at h
  split at h
  · cases h
  · split at h
    · cases h
    · rename_i k hkind
      have hnt := boxKind_not_text _ k hkind
      split at h
      · cases h
      · rename_i accRev d3 hkids
        simp only [List.isEmpty_nil, Bool.not_true, Bool.false_and, Bool.false_eq_true, if_false,
          List.append_nil, Except.ok.injEq, Prod.mk.injEq, List.cons.injEq, and_true] at h
        obtain ⟨rfl, _⟩ := h
        have hpar : PlainParent (KBox.mk k (mkStyle es (blockify es.display es.float es.position root)) attrs
            (initInst k attrs) [] [] []) := ⟨hplain.2.1, hplain.2.2, hplain.1⟩
        have hacc := elementKids_inline _ kids _ depth accRev d3 hpar hk (by
          intro c hc
          split at hc
          · simp at hc
          · simp at hc
            subst hc
            exact textBoxFrom_icp _ _ hpar) hkids
        have hicp : ICPL accRev.reverse := (icpl_iff _).2 (fun c hc => hacc c (List.mem_reverse.mp hc))
        simp only [KBox.withKids]
        rw [pw_parent _ _ _ _ _ hnt, ptt_parent _ _ _ _ _ hnt (pwKids_icp _ false hicp), ← pw_parent _ _ _ _ _ hnt]
        have hifc : IFC (KBox.mk k (mkStyle es (blockify es.display es.float es.position root)) attrs
            (initInst k attrs) [] accRev.reverse []) := by
          unfold IFC
          exact ⟨hnt, rfl, icpl_icl _ hicp⟩
        exact (whitespace_across_boxes_any_container _ false hifc).1

/-! Non-vacuity: `li(list-item, float: left)[ ::marker{display: none}, ::before{display: list-item; content:
open-quote "x"}, "a", span(inline-table) ]` is `DomOk`; it generates one block box holding the pseudo-element's
box, the text and the inline table. -/
private def mk0 : MarkerSpec := ⟨{ display := ["none"] }, .inhibit, some [8226, 32]⟩
private def sampleDom : Dom :=
  .el { display := ["block", "flow", "list-item"], float := "left" } {} (some mk0)
    (some ⟨{ display := ["block", "flow", "list-item"] }, .items [.quote true true, .str [120]]⟩) none [97]
    [.el { display := ["inline", "table"] } {} (some mk0) none none [98] [] []] []

example : DomOk sampleDom := by
  simp only [sampleDom, mk0, DomOk, DomOkL, StyleOk, PseudoOk, QuotesOk]
  refine ⟨⟨by decide, by decide, by decide, trivial⟩, ⟨_, rfl, by decide, by decide, by decide, trivial⟩,
    ⟨by decide, by decide, by decide, trivial⟩, trivial,
    ⟨⟨by decide, by decide, by decide, trivial⟩, ⟨_, rfl, by decide, by decide, by decide, trivial⟩, trivial, trivial,
      trivial⟩, trivial⟩

example : (match elementToBox true sampleDom 0 with
    | .ok (out, depth) => (out.map (fun (b : KBox) => (b.kind, b.st.flt, b.kids.map (fun (c : KBox) => c.kind))), depth)
    | .error _ => ([], 99)) = ([(.BlockBox, true, [.BlockBox, .TextBox, .InlineTableBox])], 1) := by
  decide +kernel

/-! Non-vacuity: `div(float: left)[ "a \t", span[ " b ", em[" "], "\n" ], " c" ]` → `a b c`. -/
private def inl (text : Text) (kids : List Dom) (tail : Text) : Dom :=
  .el { display := ["inline", "flow"] } {} (some mk0) none none text kids tail
private def floatDiv : Dom :=
  .el { display := ["block", "flow"], float := "left" } {} (some mk0) none none [97, 32, 9]
    [inl [32, 98, 32] [inl [32] [] [10]] [32, 99]] []

example : (match floatDiv with | .el _ _ _ _ _ _ kids _ => InlineDomL kids) := by
  simp only [floatDiv, inl, InlineDomL, InlineDom, InlineStyle]
  repeat' constructor
  all_goals first | trivial | rfl | decide

example : (match elementToBox false floatDiv 0 with
    | .ok ([b], _) => (b.kind, b.st.flt, leafText b) | _ => (.TextBox, false, [])) =
    (.BlockBox, true, [97, 32, 98, 32, 99]) := by
  decide +kernel

end Wp.C08
