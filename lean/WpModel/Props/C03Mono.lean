/-
C03 — which boxes are monolithic (cannot be fragmented), from the source.

`Gen/Monolithic.lean` is the complete graph of the real `Box.is_monolithic` (formatting_structure/boxes.py), regenerated
on every run: every box class × every `overflow` keyword the real validator accepts × the kinds of `height`.
`_in_flow_layout` uses it in `can_break = not (page_is_empty_with_no_children or box.is_monolithic())`: inside a
monolithic container a child that crosses the page bottom is *not* sent to the next page. The theorems state which
boxes that is - in particular that a block container with `overflow: hidden` and automatic height (the clearfix /
clipping idiom) is fragmented like any other block - and justify two things that were hand-written: the pagination
model's `canBreak := !pienc` (its grammar has only `overflow: visible` blocks) and the rule by which the geometry
trace harness (`wide_trace.fit_items`) treats a container as one unbreakable item.
-/
import WpModel.Gen.Monolithic

namespace Wp.C03Mono
open Wp Wp.Gen

abbrev Row := String × Bool × Bool × String × Bool × Bool
def Row.cls (r : Row) : String := r.1
def Row.atomic (r : Row) : Bool := r.2.1
def Row.replaced (r : Row) : Bool := r.2.2.1
def Row.overflow (r : Row) : String := r.2.2.2.1
def Row.heightAuto (r : Row) : Bool := r.2.2.2.2.1
def Row.monolithic (r : Row) : Bool := r.2.2.2.2.2

/-- css-break-3 §4.1 as WeasyPrint reads it: atomic inlines and replaced boxes; scrollable boxes (`overflow: auto |
scroll`); boxes that clip (`overflow: hidden`) *and* have a definite height. -/
def spec (r : Row) : Bool :=
  r.atomic || r.replaced || r.overflow == "auto" || r.overflow == "scroll" ||
    (r.overflow == "hidden" && !r.heightAuto)

theorem overflow_keywords : overflowKeywords = ["visible", "hidden", "auto", "scroll"] := by decide

private theorem all_spec : monolithicGraph.all (fun r => Row.monolithic r == spec r) = true := by decide +kernel

theorem monolithic_iff_spec : ∀ r ∈ monolithicGraph, Row.monolithic r = spec r := by
  intro r hr
  have := List.all_eq_true.mp all_spec r hr
  simpa using this


/-- The class matters only through the two `isinstance` facts: rows that agree on them, on `overflow` and on the
kind of height agree on the result. -/
theorem class_only_through_kind : ∀ r ∈ monolithicGraph, ∀ r' ∈ monolithicGraph,
    Row.atomic r = Row.atomic r' → Row.replaced r = Row.replaced r' → Row.overflow r = Row.overflow r' →
    Row.heightAuto r = Row.heightAuto r' → Row.monolithic r = Row.monolithic r' := by
  intro r hr r' hr' h1 h2 h3 h4
  rw [monolithic_iff_spec r hr, monolithic_iff_spec r' hr']
  simp only [spec, h1, h2, h3, h4]

/-- **A clipping container of automatic height is fragmented like any other block** (and so is every
`overflow: visible` box that is neither an atomic inline nor replaced): it is not monolithic, so its children that
cross the page bottom are sent to the next page. -/
theorem clipped_auto_height_not_monolithic : ∀ r ∈ monolithicGraph,
    Row.atomic r = false → Row.replaced r = false →
    (Row.overflow r = "visible" ∨ (Row.overflow r = "hidden" ∧ Row.heightAuto r = true)) →
    Row.monolithic r = false := by
  intro r hr ha hp ho
  rw [monolithic_iff_spec r hr]
  rcases ho with ho | ⟨ho, hh⟩
  · simp [spec, ha, hp, ho]
  · simp [spec, ha, hp, ho, hh]

/-- **Scrollable boxes and clipped boxes of definite height are monolithic**, whatever their class. -/
theorem scrollable_or_clipped_definite_monolithic : ∀ r ∈ monolithicGraph,
    (Row.overflow r = "auto" ∨ Row.overflow r = "scroll" ∨ (Row.overflow r = "hidden" ∧ Row.heightAuto r = false)) →
    Row.monolithic r = true := by
  intro r hr ho
  rw [monolithic_iff_spec r hr]
  rcases ho with ho | ho | ⟨ho, hh⟩
  · simp [spec, ho]
  · simp [spec, ho]
  · simp [spec, ho, hh]

/-- The grammar of the pagination model (block boxes, `overflow: visible`) has no monolithic box: this is why
`Model/Paginate.firstPass` computes `can_break` as `!pienc` alone. Non-vacuity: the rows exist. -/
theorem pm_grammar_has_no_monolithic_box : ∀ r ∈ monolithicGraph,
    Row.cls r = "BlockBox" → Row.overflow r = "visible" → Row.monolithic r = false := by
  intro r hr hc ho
  have hall : monolithicGraph.all (fun r => !(Row.cls r == "BlockBox") || (!Row.atomic r && !Row.replaced r)) = true := by
    decide +kernel
  have := List.all_eq_true.mp hall r hr
  simp only [hc, beq_self_eq_true, Bool.not_true, Bool.false_or, Bool.and_eq_true, Bool.not_eq_eq_eq_not] at this
  exact clipped_auto_height_not_monolithic r hr (by simpa using this.1) (by simpa using this.2) (Or.inl ho)

example : [("BlockBox", false, false, "visible", true, false), ("BlockBox", false, false, "hidden", true, false),
    ("BlockBox", false, false, "hidden", false, true), ("BlockBox", false, false, "scroll", true, true),
    ("InlineBlockBox", true, false, "visible", true, true),
    ("BlockReplacedBox", false, true, "visible", true, true)].all (fun r => monolithicGraph.contains r) = true := by
  decide +kernel

end Wp.C03Mono
