/-
C03 — refinement: the verified geometric trace checker (`Trace.overflowing`, soundness in
`Props/C03Trace.lean`) accepts every page produced by PM.
-/
import WpModel.Model.Trace
import WpModel.Props.C03Geo
import WpModel.Props.C03Trace
import WpModel.Props.C02
import WpModel.Lemmas.LossyPages

namespace Wp.C03Pm2
open Wp Wp.PM

/-- What the harness extracts from a rendered page (`wide_trace.fit_items`): the bottom edge of every
in-flow line box in tree order, the very first one flagged "first content placed on its page". -/
def itemsOf (d : Doc) (p : Page) : List Trace.Item :=
  match placedLines p.root true (pageSource d p) with
  | [] => []
  | l :: rest => { bottom := l.y + l.lineH, first := true } ::
      rest.map (fun l => { bottom := l.y + l.lineH, first := false })

/-- The checker reports nothing iff every item is first or fits (converse of `C03Trace.fits_sound`). -/
theorem overflowing_eq_nil_of (pageBottom : Rat) (items : List Trace.Item)
    (h : ∀ it ∈ items, it.first = true ∨ Trace.overflows pageBottom it.bottom = false) :
    Trace.overflowing pageBottom items = [] := by
  unfold Trace.overflowing
  simp only [List.map_eq_nil_iff, List.filter_eq_nil_iff]
  intro x hx
  rcases h x.1 (List.fst_mem_of_mem_zipIdx hx) with h | h <;> simp [h]

/-- **The geometry checker accepts PM**: on every page of every pagination (bottom padding + border ≥ 0 in
every box: `DecoOk`), run on the items of the page with the page height as content-box bottom, the checker
reports no overflowing item. -/
theorem geometry_checker_accepts_pm (d : Doc) (hd : DecoOk d.root) (fuel : Nat) (pages : List Page)
    (h : paginate d fuel = some pages) :
    ∀ p ∈ pages, Trace.overflowing d.pageH (itemsOf d p) = [] := by
  intro p hp
  apply overflowing_eq_nil_of
  intro it hit
  have hfit := C03Geo.paginate_line_fits d hd fuel pages h p hp
  unfold itemsOf at hit
  split at hit
  · cases hit
  · rename_i l rest heq
    rw [heq] at hfit
    rcases List.mem_cons.mp hit with rfl | hit
    · left; rfl
    · right
      obtain ⟨l', hl', rfl⟩ := List.mem_map.mp hit
      have := hfit l' (by simpa using hl')
      simp only [Trace.overflows, decide_eq_false_iff_not]
      grind

/-! Non-vacuity: the four pages of `C03Geo.exDoc` (cloned decorations, a top margin). -/
example : DecoOk C03Geo.exDoc.root := by
  simp only [C03Geo.exDoc, DecoOk, DecoOkList, PStyle.DecoOk, plainSt]
  decide +kernel

example : (paginate C03Geo.exDoc 10).map (fun ps => ps.map (fun p =>
      ((itemsOf C03Geo.exDoc p).map (fun it => (it.bottom, it.first)),
       Trace.overflowing C03Geo.exDoc.pageH (itemsOf C03Geo.exDoc p)))) =
    some [([(14, true), (24, false), (34, false), (44, false), (54, false)], []),
      ([(10, true), (20, false), (30, false), (40, false)], []),
      ([(10, true), (20, false), (30, false), (40, false)], []),
      ([(10, true), (20, false)], [])] := by decide +kernel

/-! ### progress and page-count bound for every document (fixed heights allowed) -/

/-- **Strict progress of `block_level_layout`, every box**: a returned resume position is strictly later than
the skip position (forgetting under a fixed height returns *no* resume position, so it cannot stall). -/
theorem layout_progress_all (box : PBox) (hW : WellFormed box) (c : Ctx) (idx : Nat)
    (y bs : Rat) (skip : Option Resume) (cb pie : Bool) (adjL : List Rat) (f : Frag) (r : Resume)
    (hf : (layoutBox c box idx y bs skip cb pie adjL).frag = some f)
    (hr : (layoutBox c box idx y bs skip cb pie adjL).resume = some r) :
    pos box skip < pos box (some r) :=
  (boxPostT_sand _ _ _ _ _ (box_specT box hW c idx y bs skip cb pie adjL false) hf).2 r hr

/-- **Strict progress of pages, every document.** -/
theorem page_progress_all (d : Doc) (hW : WellFormed d.root) (index : Nat)
    (resume : Option Resume) (np : NextPage) (right : Bool) (p : Page)
    (hp : remakePage d index resume np right = some p) (hnb : p.type.blank = false) :
    p.resume = none ∨ pos d.root resume < pos d.root p.resume := by
  obtain ⟨_, h2⟩ := remakePage_linesT d hW index resume np right p hp
  cases hr : p.resume with
  | none => left; rfl
  | some r => right; exact (h2 hnb).2 r hr

/-- Whatever the fuel, `make_all_pages` never makes more than `pagesNeeded` pages from a state. -/
theorem makeAllPages_length_le (d : Doc) (hW : WellFormed d.root) :
    ∀ (fuel index : Nat) (resume : Option Resume) (np : NextPage) (right : Bool) (pages : List Page),
    makeAllPages d fuel index resume np right = some pages →
    pages.length ≤ C02.pagesNeeded d resume np right := by
  intro fuel
  induction fuel with
  | zero => intro index resume np right pages h; simp [makeAllPages] at h
  | succ fuel ih =>
    intro index resume np right pages h
    have hlt := PM.pos_lt_size d.root resume
    unfold makeAllPages at h
    split at h
    · cases h
    · rename_i p hp
      split at h
      · simp only [Option.some.injEq] at h
        subst h
        unfold C02.pagesNeeded
        simp only [List.length_singleton]
        omega
      · rename_i r hr
        split at h
        · rename_i ps hps
          simp only [Option.some.injEq] at h
          subst h
          obtain ⟨hbl, _, _⟩ := remakePage_spec d index resume np right p hp
          have key : C02.pagesNeeded d (some r) p.nextPage (!right) + 1 ≤ C02.pagesNeeded d resume np right := by
            cases hb : p.type.blank with
            | true =>
              obtain ⟨hres, hnp, _⟩ := C03.blank_then_nonblank d index resume np right p hp hb
              have hflip : isBlank (requestedSide d.rootLtr np.brk) (!right) = false := by
                cases hside : requestedSide d.rootLtr np.brk with
                | none => cases right <;> simp [isBlank]
                | some sd =>
                  rw [hb, hside] at hbl
                  revert hbl; cases sd <;> cases right <;> simp [isBlank]
              unfold C02.pagesNeeded
              rw [hnp, hflip, ← hbl, hb, ← hr, hres]
              simp
            | false =>
              have hprog := page_progress_all d hW index resume np right p hp hb
              rw [hr] at hprog
              have hprog : pos d.root resume < pos d.root (some r) := by
                rcases hprog with h | h
                · cases h
                · exact h
              have hlt' := PM.pos_lt_size d.root (some r)
              unfold C02.pagesNeeded
              rw [← hbl, hb]
              split <;> simp <;> omega
          have := ih (index + 1) (some r) p.nextPage (!right) ps (by rw [← hr]; exact hps)
          simp only [List.length_cons]
          omega
        · cases h

/-- **Page count bounded by the amount of content** (every document, blank pages included, any fuel):
at most two pages per unit of content (`size` = one unit per line and per box; a blank page is always followed
by a non-blank one, which makes progress). -/
theorem page_count_bound (d : Doc) (hW : WellFormed d.root) (fuel : Nat) (pages : List Page)
    (h : paginate d fuel = some pages) : pages.length ≤ 2 * size d.root + 2 := by
  unfold paginate at h
  have := makeAllPages_length_le d hW fuel 0 none _ _ pages h
  unfold C02.pagesNeeded at this
  simp [requestedSide, isBlank] at this
  omega

/-- …in fact at most `2 * size`. -/
theorem page_count_bound_sharp (d : Doc) (hW : WellFormed d.root) (fuel : Nat) (pages : List Page)
    (h : paginate d fuel = some pages) : pages.length ≤ 2 * size d.root := by
  unfold paginate at h
  have := makeAllPages_length_le d hW fuel 0 none _ _ pages h
  unfold C02.pagesNeeded at this
  simp [requestedSide, isBlank] at this
  omega

/-! Non-vacuity: a document with a fixed-height paragraph that forgets lines (size 10, 2 pages). -/
def lossDoc : Doc :=
  { pageH := 25, rootLtr := true,
    root := .block 0 { plainSt with isRoot := true }
      [.para 1 5 10 { plainSt with height := some 10 }, .para 2 3 10 plainSt] }

example : WellFormed lossDoc.root ∧ size lossDoc.root = 11 ∧
    (paginate lossDoc 20).map (fun ps => ps.map (fun p => pos lossDoc.root p.resume)) = some [7, 0] := by
  refine ⟨?_, ?_, by decide +kernel⟩
  · simp [lossDoc, WellFormed, WellFormedList, plainSt]
  · simp [lossDoc, size, sizeList]

end Wp.C03Pm2
