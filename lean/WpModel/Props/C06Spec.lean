/-
C06 — the regenerated property tables against the CSS definition (`Model/CssSpec.lean`, written from
the specifications, not from `/repo`).  `Gen/Units.lean` follows `weasyprint/css/properties.py`;
these theorems are what breaks when an entry of `INHERITED` or `INITIAL_VALUES` is edited away from
CSS, and they carry the function-level theorems of `Props/C06.lean` to the statement of the
property: "properties without a winning declaration inherit *if inherited* and take *the initial
value* otherwise".
-/
import WpModel.Model.CssSpec
import WpModel.Props.C06

namespace Wp.C06
open Wp Wp.Cascade Wp.Computed Wp.Style Wp.Gen.Units Wp.CssSpec

/-- `INHERITED` is the set of inherited properties of CSS, property by property over every key of
`INITIAL_VALUES` — full strength since commit 8f3706e added `image_orientation` (before, the theorem
excluded that one property and `Witness.C06.image_orientation_not_inherited` refuted the rest). -/
theorem inherited_is_css : ∀ k ∈ initialKeys, isInherited k = specInherits k := by
  decide +kernel

/-- The two tables are the same set. -/
theorem css_inherited_subset : ∀ k ∈ cssInherited, isInherited k = true := by decide +kernel

/-- The code never inherits a property that CSS does not inherit … -/
theorem inherited_subset_css : ∀ k ∈ inherited, specInherits k = true := by decide +kernel

/-- … and the spec table only speaks of properties the code knows. -/
theorem css_inherited_known : ∀ k ∈ cssInherited, k ∈ initialKeys := by decide +kernel

/-- `INITIAL_VALUES` holds the initial value of CSS for each of the pinned properties. -/
theorem initial_values_are_css : ∀ p ∈ cssInitial, lookup p.1 initialValues = some p.2 := by
  decide +kernel

theorem css_initial_known : ∀ p ∈ cssInitial, p.1 ∈ initialKeys := by decide +kernel

/-- The property statement for a property that CSS does not inherit: without a cascaded
declaration the element gets the initial value, with or without a parent, whatever the parent's
value (text decorations and `page` are propagated by their own rules and excluded). -/
theorem css_non_inherited_takes_initial (e : Elem) (parent : ParentGet) (key : String)
    (hk : key ∈ initialKeys) (hs : specInherits key = false)
    (hc : lookup key e.cascaded = none) (hcu : isCustom key = false)
    (htd : isTextDecoration key = false) (hpage : key ≠ "page") :
    specified e parent key = initialResult key := by
  have hi : isInherited key = false := by rw [inherited_is_css key hk]; exact hs
  exact not_cascaded_initial e parent key hc hi hcu (Or.inl htd) hpage

/-- … and for a property that CSS inherits: the parent's computed value, as it is. -/
theorem css_inherited_takes_parent (e : Elem) (get : String → Except CErr Val) (key : String)
    (hk : key ∈ initialKeys) (hs : specInherits key = true)
    (hc : lookup key e.cascaded = none) :
    specified e (some get) key = (get key).map (fun v => (v, true)) := by
  have hi : isInherited key = true := by rw [inherited_is_css key hk]; exact hs
  exact every_inherited_property_inherits e get key (by simpa [isInherited] using hi) hc

/-- The same for an element without any declaration (`AnonymousStyle`: anonymous boxes, elements
no rule matches). -/
theorem css_anonymous_follows_spec (get : String → Except CErr Val) (key : String)
    (hk : key ∈ initialKeys)
    (hb : ["border_top_width", "border_bottom_width", "border_left_width", "border_right_width",
           "outline_width"].contains key = false)
    (hcu : isCustom key = false) (hp : plainKey key) :
    anonymousKey get key = if specInherits key then get key else initialValue key := by
  rw [← inherited_is_css key hk]
  by_cases hi : isInherited key = true
  · simp [hi, anonymous_inherits get key (Or.inl hi) hb]
  · have hi' : isInherited key = false := by simpa using hi
    simp [hi', anonymous_initial get key hi' hcu hp hb]

/-- `COMPUTER_FUNCTIONS`, pinned: which computing function is registered for which property.  The
generated registry follows the decorators in `computed_values.py`; dropping or moving one
(`@register_computer('text-indent')` …) leaves a specified value (`2em`) as the computed value of
that property.  The document oracle then reports the relative unit that survives. -/
theorem computer_registry_pinned :
    computerFunctions =
  [("background_image", "background_image"), ("list_style_image", "image"), ("mask_border_source", "image"),
   ("border_image_source", "image"), ("object_position", "compute_position"), ("background_position", "compute_position"),
   ("transform_origin", "length_or_percentage_tuple"), ("clip", "length_tuple"), ("size", "length_tuple"),
   ("border_spacing", "length_tuple"), ("break_before", "break_before_after"), ("break_after", "break_before_after"),
   ("text_decoration_thickness", "length"), ("text_underline_offset", "length"), ("flex_basis", "length"),
   ("hyphenate_limit_zone", "length"), ("text_indent", "length"), ("padding_left", "length"),
   ("padding_bottom", "length"), ("padding_right", "length"), ("padding_top", "length"),
   ("max_height", "length"), ("max_width", "length"), ("min_height", "length"),
   ("min_width", "length"), ("width", "length"), ("height", "length"),
   ("margin_left", "length"), ("margin_bottom", "length"), ("margin_right", "length"),
   ("margin_top", "length"), ("bottom", "length"), ("left", "length"),
   ("right", "length"), ("top", "length"), ("bleed_bottom", "bleed"),
   ("bleed_top", "bleed"), ("bleed_right", "bleed"), ("bleed_left", "bleed"),
   ("letter_spacing", "pixel_length"), ("background_size", "background_size"), ("image_orientation", "image_orientation"),
   ("outline_width", "border_width"), ("column_rule_width", "border_width"), ("border_bottom_width", "border_width"),
   ("border_left_width", "border_width"), ("border_right_width", "border_width"), ("border_top_width", "border_width"),
   ("mask_border_slice", "border_image_slice"), ("border_image_slice", "border_image_slice"), ("mask_border_width", "border_image_width"),
   ("border_image_width", "border_image_width"), ("mask_border_outset", "border_image_outset"), ("border_image_outset", "border_image_outset"),
   ("mask_border_repeat", "border_image_repeat"), ("border_image_repeat", "border_image_repeat"), ("outline_offset", "length_pixels_only"),
   ("column_width", "length_pixels_only"), ("border_bottom_right_radius", "border_radius"), ("border_bottom_left_radius", "border_radius"),
   ("border_top_right_radius", "border_radius"), ("border_top_left_radius", "border_radius"), ("row_gap", "gap"),
   ("column_gap", "gap"), ("bookmark_label", "bookmark_label"), ("string_set", "string_set"),
   ("content", "content"), ("display", "display"), ("float", "compute_float"),
   ("font_size", "font_size"), ("font_weight", "font_weight"), ("grid_template_rows", "grid_template"),
   ("grid_template_columns", "grid_template"), ("grid_auto_rows", "grid_auto"), ("grid_auto_columns", "grid_auto"),
   ("line_height", "line_height"), ("anchor", "anchor"), ("link", "link"),
   ("lang", "lang"), ("tab_size", "tab_size"), ("transform", "transform"),
   ("vertical_align", "vertical_align"), ("word_spacing", "word_spacing")] := by
  rfl

/-- Every property whose registered function is one of the length-computing functions resolves
`em` against the element's font size: the registry entries of the plain `<length>` properties. -/
theorem length_properties_registered :
    ∀ k ∈ ["width", "height", "min_width", "min_height", "max_width", "max_height", "margin_top", "margin_right",
           "margin_bottom", "margin_left", "padding_top", "padding_right", "padding_bottom", "padding_left",
           "top", "right", "bottom", "left", "text_indent", "hyphenate_limit_zone", "flex_basis",
           "text_underline_offset", "text_decoration_thickness"],
      lookup k computerFunctions = some "length" := by
  decide +kernel

-- non-vacuity: `text-overflow` (not inherited) and `text-indent` (inherited) below a parent
example : specInherits "text_overflow" = false ∧ specInherits "text_indent" = true ∧
    "text_overflow" ∈ initialKeys ∧ specInherits "image_orientation" = true := by decide +kernel
example :
    let parent : Elem := ⟨[("text_overflow", .val (.kw "ellipsis")), ("text_indent", .val (.dim 4 "px"))], none, [], none⟩
    let child : Elem := ⟨[("width", .val (.kw "auto"))], none, [], none⟩
    (styleAt (1 / 2) (1 / 2) [child, parent] "text_overflow").toOption = some (.kw "clip") ∧
    (styleAt (1 / 2) (1 / 2) [child, parent] "text_indent").toOption = some (.dim 4 "px") ∧
    (styleAt (1 / 2) (1 / 2) [⟨[], none, [], none⟩, parent] "text_overflow").toOption = some (.kw "clip") := by
  decide +kernel

end Wp.C06
