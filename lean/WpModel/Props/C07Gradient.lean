/-
C07 (part 9) — gradients used as images: every property whose validator takes a gradient has a computer that turns
the gradient's lengths (colour-stop positions, radial centre, explicit radial size) into px.
-/
import WpModel.Model.GradientC07
import WpModel.Props.C07Tracks

namespace Wp.C07
open Wp Wp.Len07 Wp.Tracks07 Wp.Grad07

/-! ## 29. Gradient images -/

theorem compute_dim_done (ctx : FontCtx) (d : Dim) (h : dimKnown d = true) : dimDone (computeDim ctx d) = true :=
  length_dim_done ctx d.1 d.2 h

private theorem stops_done (ctx : FontCtx) : ∀ (l : List (Option Dim)), l.all (optAll dimKnown) = true →
    (l.map (Option.map (computeDim ctx))).all (optAll dimDone) = true
  | [], _ => rfl
  | none :: rest, h => by
    simp only [List.all_cons, Bool.and_eq_true] at h
    simp [optAll, stops_done ctx rest h.2]
  | some d :: rest, h => by
    simp only [List.all_cons, optAll, Bool.and_eq_true] at h
    simp [optAll, compute_dim_done ctx d h.1, stops_done ctx rest h.2]

private theorem dims_done (ctx : FontCtx) : ∀ (l : List Dim), l.all dimKnown = true →
    (l.map (computeDim ctx)).all dimDone = true
  | [], _ => rfl
  | d :: rest, h => by
    simp only [List.all_cons, Bool.and_eq_true] at h
    simp [compute_dim_done ctx d h.1, dims_done ctx rest h.2]

/-- **The gradient computer leaves no absolute or font-relative unit**: colour-stop positions, the centre of a
radial gradient and its explicit size all come out in px (or stay percentages / the unitless zero). -/
theorem compute_image_all_px (ctx : FontCtx) (im : Image) (h : im.all dimKnown = true) :
    (computeImage ctx im).all dimDone = true := by
  cases im with
  | other k => rfl
  | linear g =>
    simp only [Image.all] at h
    simp [computeImage, Image.all, stops_done ctx g.stops h]
  | radial g =>
    simp only [Image.all, Gradient.all, Bool.and_eq_true] at h
    obtain ⟨⟨hs, hc⟩, hz⟩ := h
    simp only [computeImage, Image.all, Gradient.all, Bool.and_eq_true]
    refine ⟨⟨stops_done ctx g.stops hs, ?_⟩, ?_⟩
    · cases hcen : g.center with
      | none => rfl
      | some c =>
        rw [hcen] at hc
        simp only [Bool.and_eq_true] at hc
        simp [compute_dim_done ctx c.1 hc.1, compute_dim_done ctx c.2 hc.2]
    · cases hsz : g.explicitSize with
      | none => rfl
      | some l =>
        rw [hsz] at hz
        simp [dims_done ctx l hz]

/-- **Every property whose validator takes a gradient has a gradient computer** (full strength since `fix:`
e161f80; before it `border-image-source` and `mask-border-source` had none — finding
`border-image-gradient-lengths-not-computed`): decided on the tables regenerated from the runtime registries. -/
theorem gradient_valued_properties_have_computer :
    ∀ name ∈ Gen.NumericC07.gradientValued, (imageComputer name).isSome = true := by
  decide +kernel

/-- **A gradient of any image-valued property reaches layout in px**: for every property the validators accept a
gradient for, the computed value of a value whose dimensions carry units the validators let through holds px, %,
or the unitless zero only — `layout.percent.percentage` never meets `in`, `pt`, `em`. -/
theorem gradient_property_all_px (ctx : FontCtx) (name : String) (hn : name ∈ Gen.NumericC07.gradientValued)
    (layers : List Image) (h : layers.all (Image.all dimKnown) = true) :
    (computeProperty ctx name layers).all (Image.all dimDone) = true := by
  have hall : ∀ (l : List Image), l.all (Image.all dimKnown) = true →
      (l.map (computeImage ctx)).all (Image.all dimDone) = true := by
    intro l
    induction l with
    | nil => intro _; rfl
    | cons im rest ih =>
      intro hl
      simp only [List.all_cons, Bool.and_eq_true] at hl
      simp [compute_image_all_px ctx im hl.1, ih hl.2]
  have himg : ∀ (l : List Image), l.map (image ctx) = l.map (computeImage ctx) := by
    intro l
    apply List.map_congr_left
    intro im _
    simp [image, backgroundImage]
  have hc := gradient_valued_properties_have_computer name hn
  have hcases : imageComputer name = some "background_image" ∨ imageComputer name = some "image" := by
    have hvals : ∀ n ∈ Gen.NumericC07.gradientValued,
        imageComputer n = some "background_image" ∨ imageComputer n = some "image" := by decide +kernel
    exact hvals name hn
  unfold computeProperty
  rcases hcases with hb | hi
  · rw [hb]; exact hall layers h
  · rw [hi]
    simp only [himg]
    exact hall layers h

/-- Regression (`border-image-source: linear-gradient(red 1in, blue 2in)` and
`radial-gradient(1in 0.5in at 72pt 3pc, …)`, repaired by e161f80): the stops are 96px and 192px. -/
example :
    let ctx : FontCtx := { fontSize := 16, rootFontSize := 16, exRatio := 1 / 2, chRatio := 1 / 2 }
    computeProperty ctx "border-image-source"
        [.linear { stops := [some (1, some "in"), some (2, some "in")], center := none, explicitSize := none }]
      = [.linear { stops := [some (96, some "px"), some (192, some "px")], center := none, explicitSize := none }] ∧
    computeProperty ctx "mask-border-source"
        [.radial { stops := [none, some (50, some "%")], center := some ((72, some "pt"), (3, some "pc")),
                   explicitSize := some [(1, some "in"), (1 / 2, some "in")] }]
      = [.radial { stops := [none, some (50, some "%")], center := some ((96, some "px"), (48, some "px")),
                   explicitSize := some [(96, some "px"), (48, some "px")] }] ∧
    computeProperty ctx "width" [.linear { stops := [some (1, some "in")], center := none, explicitSize := none }]
      = [.linear { stops := [some (1, some "in")], center := none, explicitSize := none }] := by
  refine ⟨by decide +kernel, by decide +kernel, by decide +kernel⟩

end Wp.C07
