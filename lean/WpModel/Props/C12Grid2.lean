/-
C12 (round 2) — grid: placement by line names and areas (`placement_names`), and the box of an
item inside its area (`item_in_area`).
-/
import WpModel.Props.C12

namespace Wp.C12
open Wp Wp.Grid

/-! ## `placement_names` -/

/-- `findName` returns the index (counted from `k`) of the first line that holds the name. -/
theorem findName_spec (name : String) :
    ∀ (lines : List (List String)) (k i : Nat), findName name lines k = some i →
      k ≤ i ∧ (∃ l, lines[i - k]? = some l ∧ l.contains name = true) ∧
      ∀ j, j < i - k → ∀ l, lines[j]? = some l → l.contains name = false := by
  intro lines
  induction lines with
  | nil => intro k i h; simp [findName] at h
  | cons l rest ih =>
    intro k i h
    unfold findName at h
    by_cases hc : l.contains name = true
    · simp only [hc, if_true, Option.some.injEq] at h
      subst h
      refine ⟨Nat.le_refl _, ⟨l, by simp, hc⟩, ?_⟩
      intro j hj; omega
    · simp only [hc, Bool.false_eq_true, if_false] at h
      obtain ⟨h1, ⟨l', hl', hc'⟩, h3⟩ := ih (k + 1) i h
      refine ⟨by omega, ⟨l', ?_, hc'⟩, ?_⟩
      · have : i - k = (i - (k + 1)) + 1 := by omega
        rw [this]; simpa using hl'
      · intro j hj l'' hl''
        cases j with
        | zero => simp at hl''; subst hl''; simpa using hc
        | succ j' =>
          simp at hl''
          exact h3 j' (by omega) l'' hl''

private theorem scanNamed_first (id : String) :
    ∀ (lines : List (List String)) (k i : Nat) (last : Option Nat), findName id lines k = some i →
      scanNamed id 1 lines k 1 last = (some i, 0, true) := by
  intro lines
  induction lines with
  | nil => intro k i last h; simp [findName] at h
  | cons l rest ih =>
    intro k i last h
    unfold findName at h
    unfold scanNamed
    by_cases hc : l.contains id = true
    · simp only [hc, if_true, Option.some.injEq] at h ⊢
      subst h; simp
    · simp only [hc, Bool.false_eq_true, if_false] at h ⊢
      simp only [show ((1 : Int) == 0) = false by decide, Bool.false_eq_true, if_false]
      exact ih (k + 1) i _ h

/-- `placement_names`, area edge: `grid-column-start: a` where a line is called `a-start`
resolves to the first such line (0-based). -/
theorem getLine_area_edge (id side : String) (lines : List (List String)) (i : Nat) (hne : id.isEmpty = false)
    (h : findName (id ++ "-" ++ side) lines 0 = some i) :
    getLine false none (some id) lines side =
      .ok { span := false, number := none, ident := some id, coord := some (i : Int) } := by
  simp [getLine, hne, h, pure, Except.pure, bind, Except.bind]

/-- `placement_names`, plain name: `grid-column-start: foo` (no `foo-start` line) or `1 foo`
resolves to the first line called `foo`. -/
theorem getLine_first_named (id side : String) (lines : List (List String)) (i : Nat) (hne : id.isEmpty = false)
    (hnone : findName (id ++ "-" ++ side) lines 0 = none) (h : findName id lines 0 = some i) :
    (getLine false none (some id) lines side).toOption.map (·.coord) = some (some (i : Int)) ∧
    (getLine false (some 1) (some id) lines side).toOption.map (·.coord) = some (some (i : Int)) := by
  have hs := scanNamed_first id lines 0 i none h
  constructor
  · simp [getLine, hne, hnone, hs, pure, Except.pure, bind, Except.bind, Except.toOption]
  · simp [getLine, hs, pure, Except.pure, bind, Except.bind, Except.toOption]

/-- index (counted from `k`) of the `n`-th line (`n ≥ 1`) that holds `name` -/
def nthName (name : String) : List (List String) → Nat → Nat → Option Nat
  | [], _, _ => none
  | l :: rest, k, n =>
    if l.contains name then (if n ≤ 1 then some k else nthName name rest (k + 1) (n - 1))
    else nthName name rest (k + 1) n

private theorem scanNamed_nth (id : String) :
    ∀ (lines : List (List String)) (k n i : Nat) (last : Option Nat), 1 ≤ n → nthName id lines k n = some i →
      scanNamed id 1 lines k (n : Int) last = (some i, 0, true) := by
  intro lines
  induction lines with
  | nil => intro k n i last hn h; simp [nthName] at h
  | cons l rest ih =>
    intro k n i last hn h
    unfold nthName at h
    unfold scanNamed
    by_cases hc : l.contains id = true
    · simp only [hc, if_true] at h ⊢
      by_cases h1 : n ≤ 1
      · have hn1 : n = 1 := by omega
        subst hn1
        simp only [Nat.le_refl, if_true, Option.some.injEq] at h
        subst h
        simp
      · simp only [h1, if_false] at h
        have hne : ((n : Int) - 1 == 0) = false := by
          have : (n : Int) - 1 ≠ 0 := by omega
          simpa using this
        simp only [hne, Bool.false_eq_true, if_false]
        have hcast : ((n : Int) - 1) = ((n - 1 : Nat) : Int) := by omega
        rw [hcast]
        exact ih (k + 1) (n - 1) i _ (by omega) h
    · simp only [hc, Bool.false_eq_true, if_false] at h ⊢
      have hne : ((n : Int) == 0) = false := by
        have : (n : Int) ≠ 0 := by omega
        simpa using this
      simp only [hne, Bool.false_eq_true, if_false]
      exact ih (k + 1) n i _ hn h

/-- `placement_names`, `<integer> <name>` (full strength since repair c8a4ac7): `grid-column-start: n foo` with a
positive `n` resolves to the `n`-th line called `foo` (0-based index `i`), whatever the other names on the lines. -/
theorem getLine_nth_named (id side : String) (lines : List (List String)) (n i : Nat) (hn : 1 ≤ n)
    (h : nthName id lines 0 n = some i) :
    (getLine false (some (n : Int)) (some id) lines side).toOption.map (·.coord) = some (some (i : Int)) := by
  have hs := scanNamed_nth id lines 0 n i none hn h
  have hpos : 0 < n := hn
  have hn0 : n ≠ 0 := by omega
  simp [getLine, hpos, hn0, hs, pure, Except.pure, bind, Except.bind, Except.toOption]

/-- what `nthName` returns: a line that holds the name -/
theorem nthName_holds (name : String) :
    ∀ (lines : List (List String)) (k n i : Nat), nthName name lines k n = some i →
      k ≤ i ∧ ∃ l, lines[i - k]? = some l ∧ l.contains name = true := by
  intro lines
  induction lines with
  | nil => intro k n i h; simp [nthName] at h
  | cons l rest ih =>
    intro k n i h
    unfold nthName at h
    by_cases hc : l.contains name = true
    · simp only [hc, if_true] at h
      by_cases h1 : n ≤ 1
      · simp only [h1, if_true, Option.some.injEq] at h
        subst h
        exact ⟨Nat.le_refl _, l, by simp, hc⟩
      · simp only [h1, if_false] at h
        obtain ⟨hk, l', hl', hc'⟩ := ih (k + 1) (n - 1) i h
        refine ⟨by omega, l', ?_, hc'⟩
        have : i - k = (i - (k + 1)) + 1 := by omega
        rw [this]; simpa using hl'
    · simp only [hc, Bool.false_eq_true, if_false] at h
      obtain ⟨hk, l', hl', hc'⟩ := ih (k + 1) n i h
      refine ⟨by omega, l', ?_, hc'⟩
      have : i - k = (i - (k + 1)) + 1 := by omega
      rw [this]; simpa using hl'

private theorem spanBackward_nth (name : String) :
    ∀ (seq : List (List String)) (k0 n j : Nat), 1 ≤ n → nthName name seq k0 n = some j →
      spanBackward name seq (k0 : Int) (n : Int) = (some (j : Int), 0, true) := by
  intro seq
  induction seq with
  | nil => intro k0 n j hn h; simp [nthName] at h
  | cons l rest ih =>
    intro k0 n j hn h
    unfold nthName at h
    unfold spanBackward
    by_cases hc : l.contains name = true
    · simp only [hc, if_true] at h ⊢
      by_cases h1 : n ≤ 1
      · have hn1 : n = 1 := by omega
        subst hn1
        simp only [Nat.le_refl, if_true, Option.some.injEq] at h
        subst h
        simp
      · simp only [h1, if_false] at h
        have hne : ((n : Int) - 1 == 0) = false := by
          have : (n : Int) - 1 ≠ 0 := by omega
          simpa using this
        simp only [hne, Bool.false_eq_true, if_false]
        have hcast : ((n : Int) - 1) = ((n - 1 : Nat) : Int) := by omega
        have hk : ((k0 : Int) + 1) = ((k0 + 1 : Nat) : Int) := by omega
        rw [hcast, hk, ih (k0 + 1) (n - 1) j (by omega) h]
    · simp only [hc, Bool.false_eq_true, if_false] at h ⊢
      have hne : ((n : Int) == 0) = false := by
        have : (n : Int) ≠ 0 := by omega
        simpa using this
      simp only [hne, Bool.false_eq_true, if_false]
      have hk : ((k0 : Int) + 1) = ((k0 + 1 : Nat) : Int) := by omega
      rw [hk, ih (k0 + 1) n j hn h]

/-- `placement_names`, backward named span (full strength since repair 5e11506): `grid-column: span k name / e` with a
definite end line (0-based index `ce = e − 1 > 0`): walking back from the line before the end line, the `k`-th line
called `name` (found `j` steps back) is the start line: the item occupies the tracks `ce − 1 − j … ce − 1`.  The count
is the span's own `k`, whatever the integer of the end line. -/
theorem placement_span_named_back (name : String) (lines : List (List String)) (k ce j : Nat) (hk : 1 ≤ k)
    (hce : 0 < ce) (h : nthName name (pyBackFrom lines ((ce : Int) - 1)) 0 k = some j) :
    getPlacement (.mk true (some (k : Int)) (some name)) (lineNo ((ce : Int) + 1)) lines =
      .ok (some ((ce : Int) - 1 - (j : Int), (j : Int) + 1)) := by
  have hb := spanBackward_nth name _ 0 k j hk h
  have hk0 : ((k : Int) == 0) = false := by
    have : (k : Int) ≠ 0 := by omega
    simpa using this
  have hcepos : ((ce : Int) > 0) := by omega
  have hsz1 : ¬ ((ce : Int) - ((ce : Int) - 1 - (j : Int)) < 0) := by omega
  have hsz2 : ¬ ((ce : Int) - ((ce : Int) - 1 - (j : Int)) = 0) := by omega
  have hsz3 : (ce : Int) - ((ce : Int) - 1 - (j : Int)) = (j : Int) + 1 := by omega
  have hb' : spanBackward name (pyBackFrom lines ((ce : Int) - 1)) 0 (k : Int) = (some (j : Int), 0, true) := by
    simpa using hb
  simp [getPlacement, isAutoOrSpan, getLine, lineNo, numOr1, hk0, hce, hb', bind, Except.bind, pure, Except.pure]
  rw [hsz3]
  have hj1 : ¬ ((j : Int) + 1 < 0) := by omega
  have hj2 : ¬ ((j : Int) + 1 = 0) := by omega
  simp only [hj1, if_false, hj2]
  exact ⟨trivial, trivial⟩

private theorem spanForward_nth (name : String) :
    ∀ (seq : List (List String)) (k0 n j : Nat) (sz : Int), 1 ≤ n → nthName name seq k0 n = some j →
      spanForward name seq ((k0 : Int) + 1) sz (n : Int) = ((j : Int) + 1, 0, true) := by
  intro seq
  induction seq with
  | nil => intro k0 n j sz hn h; simp [nthName] at h
  | cons l rest ih =>
    intro k0 n j sz hn h
    unfold nthName at h
    unfold spanForward
    by_cases hc : l.contains name = true
    · simp only [hc, if_true] at h ⊢
      by_cases h1 : n ≤ 1
      · have hn1 : n = 1 := by omega
        subst hn1
        simp only [Nat.le_refl, if_true, Option.some.injEq] at h
        subst h
        simp
      · simp only [h1, if_false] at h
        have hne : ((n : Int) - 1 == 0) = false := by
          have : (n : Int) - 1 ≠ 0 := by omega
          simpa using this
        simp only [hne, Bool.false_eq_true, if_false]
        have hcast : ((n : Int) - 1) = ((n - 1 : Nat) : Int) := by omega
        have hk : ((k0 : Int) + 1 + 1) = ((k0 + 1 : Nat) : Int) + 1 := by omega
        rw [hcast, hk, ih (k0 + 1) (n - 1) j _ (by omega) h]
    · simp only [hc, Bool.false_eq_true, if_false] at h ⊢
      have hne : ((n : Int) == 0) = false := by
        have : (n : Int) ≠ 0 := by omega
        simpa using this
      simp only [hne, Bool.false_eq_true, if_false]
      have hk : ((k0 : Int) + 1 + 1) = ((k0 + 1 : Nat) : Int) + 1 := by omega
      rw [hk, ih (k0 + 1) n j _ hn h]

/-- `placement_names`, forward named span: `grid-column: s / span k name` with a definite start line (0-based index `c`):
the end line is the `k`-th line called `name` after the start line (found at offset `j` in `lines[c+1:]`): the item
occupies the `j + 1` tracks from `c`. -/
theorem placement_span_named_forward (name : String) (lines : List (List String)) (k c j : Nat) (hk : 1 ≤ k)
    (h : nthName name (pySliceFrom lines ((c : Int) + 1)) 0 k = some j) :
    getPlacement (lineNo ((c : Int) + 1)) (.mk true (some (k : Int)) (some name)) lines =
      .ok (some ((c : Int), (j : Int) + 1)) := by
  have hf := spanForward_nth name _ 0 k j 0 hk h
  have hf' : spanForward name (pySliceFrom lines ((c : Int) + 1)) 1 0 (k : Int) = ((j : Int) + 1, 0, true) := by
    simpa using hf
  have hk0 : ((k : Int) == 0) = false := by
    have : (k : Int) ≠ 0 := by omega
    simpa using this
  have hj1 : ¬ ((j : Int) + 1 < 0) := by omega
  have hj2 : ¬ ((j : Int) + 1 = 0) := by omega
  simp [getPlacement, isAutoOrSpan, getLine, lineNo, numOr1, hk0, hf', hj1, hj2, bind, Except.bind, pure, Except.pure]

/-- `placement_names`, areas: `grid-column: a` (both edges named after the area `a`), with the
implicit names `a-start` on line `i` and `a-end` on a later line `j`: the item occupies the tracks
`i … j − 1`. -/
theorem placement_area (id : String) (lines : List (List String)) (i j : Nat) (hne : id.isEmpty = false)
    (hs : findName (id ++ "-" ++ "start") lines 0 = some i)
    (he : findName (id ++ "-" ++ "end") lines 0 = some j) (hij : i < j) :
    getPlacement (.mk false none (some id)) (.mk false none (some id)) lines =
      .ok (some ((i : Int), (j : Int) - (i : Int))) := by
  have h1 := getLine_area_edge id "start" lines i hne hs
  have h2 := getLine_area_edge id "end" lines j hne he
  simp only [getPlacement, isAutoOrSpan, h1, h2, bind, Except.bind, pure, Except.pure]
  have hlt : ¬ ((j : Int) - (i : Int) < 0) := by omega
  have hz : ¬ ((j : Int) - (i : Int) = 0) := by omega
  simp [hlt, hz]

/-! ## `item_in_area` -/

/-- `item_in_area`, stretch: an item with `width: auto`, `justify-self` stretch / normal and no auto
margin, in an area that can hold its margins, paddings and borders, has a margin box that is exactly
the area horizontally; the same vertically for `height: auto` and `align-self`. -/
theorem item_in_area_stretch (c : GContainer) (it : GItem) (px py areaW areaH ml mr mt mb : Rat)
    (hml : it.ml = some ml) (hmr : it.mr = some mr) (hmt : it.mt = some mt) (hmb : it.mb = some mb)
    (hjs : isStretch (resolveSelf c.justifyItems it.justifySelf) = true) (hw : it.sWidth = none)
    (has : isStretch (resolveSelf c.alignItems it.alignSelf) = true) (hh : it.sHeight = none)
    (hfitW : 0 ≤ areaW - (ml + mr + (it.pl + it.pr + it.bl + it.br)))
    (hfitH : 0 ≤ areaH - (mt + mb + (it.pt + it.pb + it.bt + it.bb))) :
    (itemRect c it px py areaW areaH).x = px + ml ∧
    (itemRect c it px py areaW areaH).x + (itemRect c it px py areaW areaH).w + mr = px + areaW ∧
    (itemRect c it px py areaW areaH).y = py + mt ∧
    (itemRect c it px py areaW areaH).y + (itemRect c it px py areaW areaH).h + mb = py + areaH := by
  unfold itemRect
  simp only [hml, hmr, hmt, hmb, hjs, has, hw, hh, lenOr0, Option.isNone_none, Bool.and_self, if_true]
  have hnotgt : ¬ (it.pl + it.pr + it.bl + it.br + (areaW - (ml + mr + (it.pl + it.pr + it.bl + it.br))) + ml + mr > areaW) := by
    grind
  simp only [blockLevelWidth, lenOr0, hnotgt, if_false]
  have hnn : ¬ (areaW - (ml + mr + (it.pl + it.pr + it.bl + it.br)) < 0) := by grind
  simp only [hnn, if_false]
  refine ⟨trivial, ?_, trivial, ?_⟩
  · grind
  · grind

/-- `item_in_area`, aligned: an item without margins, paddings and borders, of width `w0` and
height `h0`, aligned `start` / `center` / `end` (here: anything but stretch / normal), keeps its size
and is flush with the start of its area, centred in it, or flush with its end. -/
theorem item_in_area_aligned (c : GContainer) (it : GItem) (px py areaW areaH w0 h0 : Rat)
    (hm : it.ml = some 0 ∧ it.mr = some 0 ∧ it.mt = some 0 ∧ it.mb = some 0)
    (hp : it.pl = 0 ∧ it.pr = 0 ∧ it.bl = 0 ∧ it.br = 0 ∧ it.pt = 0 ∧ it.pb = 0 ∧ it.bt = 0 ∧ it.bb = 0)
    (hw : it.sWidth = some w0) (hh : it.sHeight = some h0) (hw0 : 0 ≤ w0) (hh0 : 0 ≤ h0)
    (hjs : isStretch (resolveSelf c.justifyItems it.justifySelf) = false)
    (has : isStretch (resolveSelf c.alignItems it.alignSelf) = false) :
    let r := itemRect c it px py areaW areaH
    let js := resolveSelf c.justifyItems it.justifySelf
    let as := resolveSelf c.alignItems it.alignSelf
    r.w = w0 ∧ r.h = h0 ∧
    (js = .center → r.x - px = (px + areaW) - (r.x + r.w)) ∧
    ((js = .endLike ∨ js = .right) → r.x + r.w = px + areaW) ∧
    (js ≠ .center → js ≠ .endLike → js ≠ .right → r.x = px) ∧
    (as = .center → r.y - py = (py + areaH) - (r.y + r.h)) ∧
    (as = .endLike → r.y + r.h = py + areaH) ∧
    (as ≠ .center → as ≠ .endLike → r.y = py) := by
  intro r js as
  obtain ⟨hml, hmr, hmt, hmb⟩ := hm
  obtain ⟨h1, h2, h3, h4, h5, h6, h7, h8⟩ := hp
  have hr : r = itemRect c it px py areaW areaH := rfl
  unfold itemRect at hr
  simp only [hml, hmr, hmt, hmb, h1, h2, h3, h4, h5, h6, h7, h8, hw, hh, lenOr0, hjs, has, Bool.false_and,
    Bool.false_eq_true, if_false] at hr
  have hjs' : js = resolveSelf c.justifyItems it.justifySelf := rfl
  have has' : as = resolveSelf c.alignItems it.alignSelf := rfl
  rw [← hjs', ← has'] at hr
  simp only [blockLevelWidth, lenOr0] at hr
  have hnn : ¬ (w0 < 0) := Rat.not_lt.mpr hw0
  have hmaxh : max 0 h0 = h0 := by grind
  by_cases hgt : 0 + 0 + 0 + 0 + w0 + 0 + 0 > areaW
  all_goals (
    simp only [hgt, if_true, if_false, hnn, hmaxh] at hr
    refine ⟨by rw [hr]; simp only []; grind, by rw [hr]; simp only []; grind, ?_, ?_, ?_, ?_, ?_, ?_⟩
    · intro hc; rw [hr]; simp [hc]; grind
    · intro hc; rw [hr]; rcases hc with hc | hc <;> simp [hc] <;> grind
    · intro a b d
      have e1 : (js == SelfAlign.center) = false := by simpa using a
      have e2 : (js == SelfAlign.endLike) = false := by simpa using b
      have e3 : (js == SelfAlign.right) = false := by simpa using d
      rw [hr]; simp [e1, e2, e3]; grind
    · intro hc; rw [hr]; simp [hc]; grind
    · intro hc; rw [hr]; simp [hc]; grind
    · intro a b
      have e1 : (as == SelfAlign.center) = false := by simpa using a
      have e2 : (as == SelfAlign.endLike) = false := by simpa using b
      rw [hr]; simp [e1, e2]; grind)

private theorem blw_some (cb l w r pb : Rat) : blockLevelWidth cb (some l) (some w) (some r) pb = (l, w, r) := by
  by_cases hc : pb + w + l + r > cb <;> simp [blockLevelWidth, lenOr0, hc]

/-- `item_in_area`, aligned, full strength (since repair ca85a65 the content width of a `justify-self`-aligned item is
its max-content *content* width): an item of width `w0` and height `h0` with any non-auto margins, paddings and
borders, aligned `start` / `center` / `end` (anything but stretch / normal), keeps its size, and its *margin box* is
flush with the start of its area, centred in it, or flush with its end, on both axes. -/
theorem item_in_area_aligned_full (c : GContainer) (it : GItem) (px py areaW areaH w0 h0 ml mr mt mb : Rat)
    (hml : it.ml = some ml) (hmr : it.mr = some mr) (hmt : it.mt = some mt) (hmb : it.mb = some mb)
    (hw : it.sWidth = some w0) (hh : it.sHeight = some h0) (hw0 : 0 ≤ w0) (hh0 : 0 ≤ h0)
    (hjs : isStretch (resolveSelf c.justifyItems it.justifySelf) = false)
    (has : isStretch (resolveSelf c.alignItems it.alignSelf) = false) :
    let r := itemRect c it px py areaW areaH
    let js := resolveSelf c.justifyItems it.justifySelf
    let as := resolveSelf c.alignItems it.alignSelf
    r.w = w0 + (it.pl + it.pr + it.bl + it.br) ∧ r.h = h0 + (it.pt + it.pb + it.bt + it.bb) ∧
    (js = .center → (r.x - ml) - px = (px + areaW) - (r.x + r.w + mr)) ∧
    ((js = .endLike ∨ js = .right) → r.x + r.w + mr = px + areaW) ∧
    (js ≠ .center → js ≠ .endLike → js ≠ .right → r.x = px + ml) ∧
    (as = .center → (r.y - mt) - py = (py + areaH) - (r.y + r.h + mb)) ∧
    (as = .endLike → r.y + r.h + mb = py + areaH) ∧
    (as ≠ .center → as ≠ .endLike → r.y = py + mt) := by
  intro r js as
  have hr : r = itemRect c it px py areaW areaH := rfl
  unfold itemRect at hr
  simp only [hml, hmr, hmt, hmb, hw, hh, lenOr0, hjs, has, Bool.false_and,
    Bool.false_eq_true, if_false, blw_some] at hr
  have hjs' : js = resolveSelf c.justifyItems it.justifySelf := rfl
  have has' : as = resolveSelf c.alignItems it.alignSelf := rfl
  rw [← hjs', ← has'] at hr
  have hnn : ¬ (w0 < 0) := Rat.not_lt.mpr hw0
  have hmaxh : max 0 h0 = h0 := by grind
  simp only [hnn, if_false, hmaxh] at hr
  refine ⟨by rw [hr], by rw [hr], ?_, ?_, ?_, ?_, ?_, ?_⟩
  · intro hc; rw [hr]; simp [hc]; grind
  · intro hc; rw [hr]; rcases hc with hc | hc <;> simp [hc] <;> grind
  · intro a b d
    have e1 : (js == SelfAlign.center) = false := by simpa using a
    have e2 : (js == SelfAlign.endLike) = false := by simpa using b
    have e3 : (js == SelfAlign.right) = false := by simpa using d
    rw [hr]; simp [e1, e2, e3]
  · intro hc; rw [hr]; simp [hc]; grind
  · intro hc; rw [hr]; simp [hc]; grind
  · intro a b
    have e1 : (as == SelfAlign.center) = false := by simpa using a
    have e2 : (as == SelfAlign.endLike) = false := by simpa using b
    rw [hr]; simp [e1, e2]

/-! ## step 3.5: the tracks, the gaps and the distributed free space partition the container -/

/-- plain sum of a list (the model's `sumR` is a `foldl`: `sumR_eq_sumL`) -/
def sumL : List Rat → Rat
  | [] => 0
  | x :: xs => x + sumL xs

private theorem foldl_add (l : List Rat) : ∀ acc : Rat, l.foldl (· + ·) acc = acc + sumL l := by
  induction l with
  | nil => intro acc; simp only [List.foldl_nil, sumL]; grind
  | cons x xs ih => intro acc; simp only [List.foldl_cons, sumL, ih]; grind

theorem sumR_eq_sumL (l : List Rat) : sumR l = sumL l := by
  unfold sumR; rw [foldl_add]; grind

/-- position of the first track -/
def alignStart (a : ContentAlign) (start free : Rat) (n : Nat) : Rat :=
  match a with
  | .center => start + free / 2
  | .endLike => start + free
  | .spaceAround => start + free / 2 / n
  | .spaceEvenly => start + free / (n + 1 : Nat)
  | _ => start

/-- distance between the end of a track and the start of the next one -/
def alignBetween (a : ContentAlign) (free gap : Rat) (n : Nat) : Rat :=
  match a with
  | .spaceAround => free / n + gap
  | .spaceBetween => if n ≥ 2 then free / (n - 1 : Nat) + gap else 0
  | .spaceEvenly => free / (n + 1 : Nat) + gap
  | _ => gap

/-- space left after the last track -/
def alignTrail (a : ContentAlign) (free : Rat) (n : Nat) : Rat :=
  match a with
  | .center => free / 2
  | .endLike => 0
  | .spaceAround => free / 2 / n
  | .spaceBetween => 0
  | .spaceEvenly => free / (n + 1 : Nat)
  | _ => free

private theorem alignTracks_eq (a : ContentAlign) (start free gap : Rat) (sizes : List Rat) :
    alignTracks a start free gap sizes =
      alignTracks.go (alignBetween a free gap sizes.length) (a == .spaceBetween && decide (sizes.length < 2)) sizes
        (alignStart a start free sizes.length) := by
  unfold alignTracks alignStart alignBetween
  cases a <;> rfl

private theorem go_pos (between : Rat) :
    ∀ (sizes : List Rat) (x : Rat) (i : Nat), i < sizes.length →
      (alignTracks.go between false sizes x)[i]? = some (x + sumL (sizes.take i) + (i : Rat) * between) := by
  intro sizes
  induction sizes with
  | nil => intro x i hi; simp at hi
  | cons s rest ih =>
    intro x i hi
    unfold alignTracks.go
    cases i with
    | zero => simp [sumL]; grind
    | succ j =>
      have hj : j < rest.length := by simpa using hi
      simp only [Bool.false_eq_true, if_false, List.getElem?_cons_succ, List.take_succ_cons, sumL]
      rw [ih _ j hj]
      congr 1
      push_cast
      grind

/-- `tracks_partition`, step 3.5 (all inputs): whatever the `justify-content` / `align-content` value, track `i` starts
at `first + Σ_{j<i} size_j + i·between`, and the leading space, the tracks, the spaces between them (gap + distributed
share) and the trailing space add up to the free space, the tracks and the gaps: with
`free = container − Σ sizes − (n − 1)·gap ≥ 0` (what `grid_layout` passes since repair 0e77b99) they partition the
container (`alignTracks_fills`).  For `space-between` at least two tracks are needed (with fewer the code keeps
every track at the start). -/
theorem alignTracks_partition (a : ContentAlign) (start free gap : Rat) (sizes : List Rat) (hn : sizes ≠ [])
    (hsb : a = .spaceBetween → 2 ≤ sizes.length) :
    (∀ i, i < sizes.length → (alignTracks a start free gap sizes)[i]? =
      some (alignStart a start free sizes.length + sumL (sizes.take i) +
        (i : Rat) * alignBetween a free gap sizes.length)) ∧
    (alignStart a start free sizes.length - start) + sumL sizes +
      ((sizes.length : Rat) - 1) * alignBetween a free gap sizes.length + alignTrail a free sizes.length =
      free + sumL sizes + ((sizes.length : Rat) - 1) * gap := by
  have hstay : (a == ContentAlign.spaceBetween && decide (sizes.length < 2)) = false := by
    cases a <;> simp
    have := hsb rfl
    omega
  constructor
  · intro i hi
    rw [alignTracks_eq, hstay]
    exact go_pos _ sizes _ i hi
  · obtain ⟨m, hm⟩ : ∃ m, sizes.length = m + 1 := by
      cases sizes with
      | nil => exact absurd rfl hn
      | cons x xs => exact ⟨xs.length, rfl⟩
    rw [hm]
    have h1 : ((m + 1 : Nat) : Rat) = (m : Rat) + 1 := by push_cast; rfl
    have h2 : ((m + 1 + 1 : Nat) : Rat) = (m : Rat) + 2 := by push_cast; grind
    have h0 : (0 : Rat) ≤ (m : Rat) := Rat.natCast_nonneg
    have h3 : (m : Rat) + 1 ≠ 0 := by grind
    have h4 : (m : Rat) + 2 ≠ 0 := by grind
    cases a <;> simp only [alignStart, alignBetween, alignTrail, h1, h2] <;> try grind
    -- space-between
    have h2le : 2 ≤ m + 1 := by have := hsb rfl; omega
    have hm' : (m : Rat) ≠ 0 := by
      have : m ≠ 0 := by omega
      intro h; apply this; exact_mod_cast h
    simp only [ge_iff_le, h2le, if_true, Nat.add_sub_cancel]
    grind

/-- `tracks_partition`, step 3.5, as `grid_layout` calls it: when the tracks and gaps fit in the container
(`container − Σ sizes − (n − 1)·gap ≥ 0`), the leading space, the tracks, the spaces between them and the trailing
space fill the container exactly. -/
theorem alignTracks_fills (a : ContentAlign) (container gap : Rat) (sizes : List Rat) (hn : sizes ≠ [])
    (hsb : a = .spaceBetween → 2 ≤ sizes.length)
    (hfit : 0 ≤ container - sumR sizes - ((sizes.length : Int) - 1 : Int) * gap) :
    let free := max 0 (container - sumR sizes - ((sizes.length : Int) - 1 : Int) * gap)
    alignStart a 0 free sizes.length + sumL sizes +
      ((sizes.length : Rat) - 1) * alignBetween a free gap sizes.length + alignTrail a free sizes.length = container := by
  intro free
  have hfree : free = container - sumR sizes - ((sizes.length : Int) - 1 : Int) * gap := by
    show max 0 _ = _
    rw [Rat.max_def]
    split
    · rfl
    · rename_i hneg; exact absurd hfit hneg
  have h := (alignTracks_partition a 0 free gap sizes hn hsb).2
  rw [sumR_eq_sumL] at hfree
  have hc : (((sizes.length : Int) - 1 : Int) : Rat) = (sizes.length : Rat) - 1 := by push_cast; rfl
  rw [hc] at hfree
  grind

/-! Non-vacuity -/

-- names: `[p] 10px [foo] 20px [a-start] 30px [a-end foo]`
example :
    let lines := [["p"], ["foo"], ["a-start"], ["a-end", "foo"]]
    findName "a-start" lines 0 = some 2 ∧ findName "a-end" lines 0 = some 3 ∧
    findName "foo-start" lines 0 = none ∧ findName "foo" lines 0 = some 1 ∧
    (getPlacement (.mk false none (some "a")) (.mk false none (some "a")) lines).toOption = some (some (2, 1)) ∧
    (getPlacement (.mk false none (some "foo")) .auto lines).toOption = some (some (1, 1)) := by
  decide +kernel

-- template areas give the implicit names: `grid-template-areas: "a a ."` on three columns, `grid-column: a`
example :
    let cols : List TElem := [.names [], .size (.one (.px 10)), .names [], .size (.one (.px 20)), .names [], .size (.one (.px 30)), .names []]
    let c : GContainer := { (default : GContainer) with templateCols := some cols, autoRows := [.one .auto], autoCols := [.one .auto], areas := some [[some "a", some "a", none]] }
    (explicitGrid c).toOption.map (fun e => lineNames e.cols) = some [["a-start"], [], ["a-end"], []] := by
  decide +kernel

-- item_in_area: a stretched item with margins 2 / 3 and 1px padding in a 50 x 20 area at (10, 5)
example :
    let it : GItem := { (default : GItem) with ml := some 2, mr := some 3, mt := some 0, mb := some 0, pl := 1, pr := 1, justifySelf := .auto, alignSelf := .auto }
    let c : GContainer := { (default : GContainer) with justifyItems := .normal, alignItems := .normal }
    let r := itemRect c it 10 5 50 20
    (r.x, r.y, r.w, r.h) = (12, 5, 45, 20) := by decide +kernel

-- getLine_nth_named: `[foo] [bar foo] [] [foo]`: the third `foo` line is line 3 (0-based)
example :
    let lines := [["foo"], ["bar", "foo"], [], ["foo"]]
    nthName "foo" lines 0 3 = some 3 ∧ nthName "foo" lines 0 2 = some 1 ∧
    (getLine false (some 3) (some "foo") lines "start").toOption.map (·.coord) = some (some 3) := by
  decide +kernel

-- item_in_area_aligned_full: `justify-self: center; align-self: end`, 20 x 10 with margins 2 / 4 / 1 / 3 and
-- 5px horizontal padding, in a 100 x 40 area at (10, 5): border box 30 wide, centred margin box, bottom flush
example :
    let it0 : GItem := { (default : GItem) with ml := some 2, mr := some 4, mt := some 1, mb := some 3 }
    let it : GItem := { it0 with pl := 5, pr := 5, sWidth := some 20, sHeight := some 10, justifySelf := .center, alignSelf := .endLike }
    let c : GContainer := { (default : GContainer) with justifyItems := .normal, alignItems := .normal }
    let r := itemRect c it 10 5 100 40
    (r.x, r.y, r.w, r.h) = (44, 32, 30, 10) := by decide +kernel

-- placement_span_named_back: `[foo] [foo] [bar foo] []`, `span 2 foo / 4`: walking back from line index 2, the second
-- `foo` line is one step back: tracks 1 … 2 (and the hypothesis is met)
example :
    let lines := [["foo"], ["foo"], ["bar", "foo"], []]
    nthName "foo" (pyBackFrom lines 2) 0 2 = some 1 ∧
    (getPlacement (.mk true (some 2) (some "foo")) (lineNo 4) lines).toOption = some (some (1, 2)) := by
  decide +kernel

-- placement_span_named_forward: `[] [foo] [] [foo] []`, `1 / span 2 foo`: the second `foo` line after line 1 is at
-- offset 2 of `lines[1:]`: three tracks from 0
example :
    let lines := [[], ["foo"], [], ["foo"], []]
    nthName "foo" (pySliceFrom lines 1) 0 2 = some 2 ∧
    (getPlacement (lineNo 1) (.mk true (some 2) (some "foo")) lines).toOption = some (some (0, 3)) := by
  decide +kernel

-- alignTracks_partition / alignTracks_fills: two 20px tracks, gap 10, `space-around` in 90px (free 40): the tracks
-- start at 10 and 60, the trailing space is 10: 10 + 20 + 30 + 20 + 10 = 90
example :
    alignTracks .spaceAround 0 40 10 [20, 20] = [10, 60] ∧ alignStart .spaceAround 0 40 2 = 10 ∧
    alignBetween .spaceAround 40 10 2 = 30 ∧ alignTrail .spaceAround 40 2 = 10 ∧
    (0 : Rat) ≤ 90 - sumR [20, 20] - ((([20, 20] : List Rat).length : Int) - 1 : Int) * 10 := by
  decide +kernel

end Wp.C12
