/-
C12 (round 2) — grid: placement by line names and areas (`placement_names`), and the box of an
item inside its area (`item_in_area`).
-/
import WpModel.Props.C12

namespace Wp.C12
open Wp Wp.Grid

/-! ## `placement_names` -/

/-- `findName` returns the index (counted from `k`) of the first line that holds the name. -/
theorem findName_spec (name : String) :
    ∀ (lines : List (List String)) (k i : Nat), findName name lines k = some i →
      k ≤ i ∧ (∃ l, lines[i - k]? = some l ∧ l.contains name = true) ∧
      ∀ j, j < i - k → ∀ l, lines[j]? = some l → l.contains name = false := by
  intro lines
  induction lines with
  | nil => intro k i h; simp [findName] at h
  | cons l rest ih =>
    intro k i h
    unfold findName at h
    by_cases hc : l.contains name = true
    · simp only [hc, if_true, Option.some.injEq] at h
      subst h
      refine ⟨Nat.le_refl _, ⟨l, by simp, hc⟩, ?_⟩
      intro j hj; omega
    · simp only [hc, Bool.false_eq_true, if_false] at h
      obtain ⟨h1, ⟨l', hl', hc'⟩, h3⟩ := ih (k + 1) i h
      refine ⟨by omega, ⟨l', ?_, hc'⟩, ?_⟩
      · have : i - k = (i - (k + 1)) + 1 := by omega
        rw [this]; simpa using hl'
      · intro j hj l'' hl''
        cases j with
        | zero => simp at hl''; subst hl''; simpa using hc
        | succ j' =>
          simp at hl''
          exact h3 j' (by omega) l'' hl''

private theorem scanNamed_first (id : String) :
    ∀ (lines : List (List String)) (k i : Nat) (last : Option Nat), findName id lines k = some i →
      scanNamed id 1 lines k 1 last = (some i, 0, true) := by
  intro lines
  induction lines with
  | nil => intro k i last h; simp [findName] at h
  | cons l rest ih =>
    intro k i last h
    unfold findName at h
    unfold scanNamed
    by_cases hc : l.contains id = true
    · simp only [hc, if_true, Option.some.injEq] at h ⊢
      subst h; simp
    · simp only [hc, Bool.false_eq_true, if_false] at h ⊢
      simp only [show ((1 : Int) == 0) = false by decide, Bool.false_eq_true, if_false]
      exact ih (k + 1) i _ h

/-- `placement_names`, area edge: `grid-column-start: a` where a line is called `a-start`
resolves to the first such line (0-based). -/
theorem getLine_area_edge (id side : String) (lines : List (List String)) (i : Nat) (hne : id.isEmpty = false)
    (h : findName (id ++ "-" ++ side) lines 0 = some i) :
    getLine false none (some id) lines side =
      .ok { span := false, number := none, ident := some id, coord := some (i : Int) } := by
  simp [getLine, hne, h, pure, Except.pure, bind, Except.bind]

/-- `placement_names`, plain name: `grid-column-start: foo` (no `foo-start` line) or `1 foo`
resolves to the first line called `foo`. -/
theorem getLine_first_named (id side : String) (lines : List (List String)) (i : Nat) (hne : id.isEmpty = false)
    (hnone : findName (id ++ "-" ++ side) lines 0 = none) (h : findName id lines 0 = some i) :
    (getLine false none (some id) lines side).toOption.map (·.coord) = some (some (i : Int)) ∧
    (getLine false (some 1) (some id) lines side).toOption.map (·.coord) = some (some (i : Int)) := by
  have hs := scanNamed_first id lines 0 i none h
  constructor
  · simp [getLine, hne, hnone, hs, pure, Except.pure, bind, Except.bind, Except.toOption]
  · simp [getLine, hs, pure, Except.pure, bind, Except.bind, Except.toOption]

/-- index (counted from `k`) of the `n`-th line (`n ≥ 1`) that holds `name` -/
def nthName (name : String) : List (List String) → Nat → Nat → Option Nat
  | [], _, _ => none
  | l :: rest, k, n =>
    if l.contains name then (if n ≤ 1 then some k else nthName name rest (k + 1) (n - 1))
    else nthName name rest (k + 1) n

private theorem scanNamed_nth (id : String) :
    ∀ (lines : List (List String)) (k n i : Nat) (last : Option Nat), 1 ≤ n → nthName id lines k n = some i →
      scanNamed id 1 lines k (n : Int) last = (some i, 0, true) := by
  intro lines
  induction lines with
  | nil => intro k n i last hn h; simp [nthName] at h
  | cons l rest ih =>
    intro k n i last hn h
    unfold nthName at h
    unfold scanNamed
    by_cases hc : l.contains id = true
    · simp only [hc, if_true] at h ⊢
      by_cases h1 : n ≤ 1
      · have hn1 : n = 1 := by omega
        subst hn1
        simp only [Nat.le_refl, if_true, Option.some.injEq] at h
        subst h
        simp
      · simp only [h1, if_false] at h
        have hne : ((n : Int) - 1 == 0) = false := by
          have : (n : Int) - 1 ≠ 0 := by omega
          simpa using this
        simp only [hne, Bool.false_eq_true, if_false]
        have hcast : ((n : Int) - 1) = ((n - 1 : Nat) : Int) := by omega
        rw [hcast]
        exact ih (k + 1) (n - 1) i _ (by omega) h
    · simp only [hc, Bool.false_eq_true, if_false] at h ⊢
      have hne : ((n : Int) == 0) = false := by
        have : (n : Int) ≠ 0 := by omega
        simpa using this
      simp only [hne, Bool.false_eq_true, if_false]
      exact ih (k + 1) n i _ hn h

/-- `placement_names`, `<integer> <name>` (full strength since repair c8a4ac7): `grid-column-start: n foo` with a
positive `n` resolves to the `n`-th line called `foo` (0-based index `i`), whatever the other names on the lines. -/
theorem getLine_nth_named (id side : String) (lines : List (List String)) (n i : Nat) (hn : 1 ≤ n)
    (h : nthName id lines 0 n = some i) :
    (getLine false (some (n : Int)) (some id) lines side).toOption.map (·.coord) = some (some (i : Int)) := by
  have hs := scanNamed_nth id lines 0 n i none hn h
  have hpos : 0 < n := hn
  have hn0 : n ≠ 0 := by omega
  simp [getLine, hpos, hn0, hs, pure, Except.pure, bind, Except.bind, Except.toOption]

/-- what `nthName` returns: a line that holds the name -/
theorem nthName_holds (name : String) :
    ∀ (lines : List (List String)) (k n i : Nat), nthName name lines k n = some i →
      k ≤ i ∧ ∃ l, lines[i - k]? = some l ∧ l.contains name = true := by
  intro lines
  induction lines with
  | nil => intro k n i h; simp [nthName] at h
  | cons l rest ih =>
    intro k n i h
    unfold nthName at h
    by_cases hc : l.contains name = true
    · simp only [hc, if_true] at h
      by_cases h1 : n ≤ 1
      · simp only [h1, if_true, Option.some.injEq] at h
        subst h
        exact ⟨Nat.le_refl _, l, by simp, hc⟩
      · simp only [h1, if_false] at h
        obtain ⟨hk, l', hl', hc'⟩ := ih (k + 1) (n - 1) i h
        refine ⟨by omega, l', ?_, hc'⟩
        have : i - k = (i - (k + 1)) + 1 := by omega
        rw [this]; simpa using hl'
    · simp only [hc, Bool.false_eq_true, if_false] at h
      obtain ⟨hk, l', hl', hc'⟩ := ih (k + 1) n i h
      refine ⟨by omega, l', ?_, hc'⟩
      have : i - k = (i - (k + 1)) + 1 := by omega
      rw [this]; simpa using hl'

private theorem spanBackward_nth (name : String) :
    ∀ (seq : List (List String)) (k0 n j : Nat), 1 ≤ n → nthName name seq k0 n = some j →
      spanBackward name seq (k0 : Int) (n : Int) = (some (j : Int), 0, true) := by
  intro seq
  induction seq with
  | nil => intro k0 n j hn h; simp [nthName] at h
  | cons l rest ih =>
    intro k0 n j hn h
    unfold nthName at h
    unfold spanBackward
    by_cases hc : l.contains name = true
    · simp only [hc, if_true] at h ⊢
      by_cases h1 : n ≤ 1
      · have hn1 : n = 1 := by omega
        subst hn1
        simp only [Nat.le_refl, if_true, Option.some.injEq] at h
        subst h
        simp
      · simp only [h1, if_false] at h
        have hne : ((n : Int) - 1 == 0) = false := by
          have : (n : Int) - 1 ≠ 0 := by omega
          simpa using this
        simp only [hne, Bool.false_eq_true, if_false]
        have hcast : ((n : Int) - 1) = ((n - 1 : Nat) : Int) := by omega
        have hk : ((k0 : Int) + 1) = ((k0 + 1 : Nat) : Int) := by omega
        rw [hcast, hk, ih (k0 + 1) (n - 1) j (by omega) h]
    · simp only [hc, Bool.false_eq_true, if_false] at h ⊢
      have hne : ((n : Int) == 0) = false := by
        have : (n : Int) ≠ 0 := by omega
        simpa using this
      simp only [hne, Bool.false_eq_true, if_false]
      have hk : ((k0 : Int) + 1) = ((k0 + 1 : Nat) : Int) := by omega
      rw [hk, ih (k0 + 1) n j hn h]

/-- `placement_names`, backward named span (full strength since repair 5e11506): `grid-column: span k name / e` with a
definite end line (0-based index `ce = e − 1 > 0`): walking back from the line before the end line, the `k`-th line
called `name` (found `j` steps back) is the start line: the item occupies the tracks `ce − 1 − j … ce − 1`.  The count
is the span's own `k`, whatever the integer of the end line. -/
theorem placement_span_named_back (name : String) (lines : List (List String)) (k ce j : Nat) (hk : 1 ≤ k)
    (hce : 0 < ce) (h : nthName name (pyBackFrom lines ((ce : Int) - 1)) 0 k = some j) :
    getPlacement (.mk true (some (k : Int)) (some name)) (lineNo ((ce : Int) + 1)) lines =
      .ok (some ((ce : Int) - 1 - (j : Int), (j : Int) + 1)) := by
  have hb := spanBackward_nth name _ 0 k j hk h
  have hk0 : ((k : Int) == 0) = false := by
    have : (k : Int) ≠ 0 := by omega
    simpa using this
  have hcepos : ((ce : Int) > 0) := by omega
  have hsz1 : ¬ ((ce : Int) - ((ce : Int) - 1 - (j : Int)) < 0) := by omega
  have hsz2 : ¬ ((ce : Int) - ((ce : Int) - 1 - (j : Int)) = 0) := by omega
  have hsz3 : (ce : Int) - ((ce : Int) - 1 - (j : Int)) = (j : Int) + 1 := by omega
  have hb' : spanBackward name (pyBackFrom lines ((ce : Int) - 1)) 0 (k : Int) = (some (j : Int), 0, true) := by
    simpa using hb
  simp [getPlacement, isAutoOrSpan, getLine, lineNo, numOr1, hk0, hce, hb', bind, Except.bind, pure, Except.pure]
  rw [hsz3]
  have hj1 : ¬ ((j : Int) + 1 < 0) := by omega
  have hj2 : ¬ ((j : Int) + 1 = 0) := by omega
  simp only [hj1, if_false, hj2]
  exact ⟨trivial, trivial⟩

private theorem spanForward_nth (name : String) :
    ∀ (seq : List (List String)) (k0 n j : Nat) (sz : Int), 1 ≤ n → nthName name seq k0 n = some j →
      spanForward name seq ((k0 : Int) + 1) sz (n : Int) = ((j : Int) + 1, 0, true) := by
  intro seq
  induction seq with
  | nil => intro k0 n j sz hn h; simp [nthName] at h
  | cons l rest ih =>
    intro k0 n j sz hn h
    unfold nthName at h
    unfold spanForward
    by_cases hc : l.contains name = true
    · simp only [hc, if_true] at h ⊢
      by_cases h1 : n ≤ 1
      · have hn1 : n = 1 := by omega
        subst hn1
        simp only [Nat.le_refl, if_true, Option.some.injEq] at h
        subst h
        simp
      · simp only [h1, if_false] at h
        have hne : ((n : Int) - 1 == 0) = false := by
          have : (n : Int) - 1 ≠ 0 := by omega
          simpa using this
        simp only [hne, Bool.false_eq_true, if_false]
        have hcast : ((n : Int) - 1) = ((n - 1 : Nat) : Int) := by omega
        have hk : ((k0 : Int) + 1 + 1) = ((k0 + 1 : Nat) : Int) + 1 := by omega
        rw [hcast, hk, ih (k0 + 1) (n - 1) j _ (by omega) h]
    · simp only [hc, Bool.false_eq_true, if_false] at h ⊢
      have hne : ((n : Int) == 0) = false := by
        have : (n : Int) ≠ 0 := by omega
        simpa using this
      simp only [hne, Bool.false_eq_true, if_false]
      have hk : ((k0 : Int) + 1 + 1) = ((k0 + 1 : Nat) : Int) + 1 := by omega
      rw [hk, ih (k0 + 1) n j _ hn h]

/-- `placement_names`, forward named span: `grid-column: s / span k name` with a definite start line (0-based index `c`):
the end line is the `k`-th line called `name` after the start line (found at offset `j` in `lines[c+1:]`): the item
occupies the `j + 1` tracks from `c`. -/
theorem placement_span_named_forward (name : String) (lines : List (List String)) (k c j : Nat) (hk : 1 ≤ k)
    (h : nthName name (pySliceFrom lines ((c : Int) + 1)) 0 k = some j) :
    getPlacement (lineNo ((c : Int) + 1)) (.mk true (some (k : Int)) (some name)) lines =
      .ok (some ((c : Int), (j : Int) + 1)) := by
  have hf := spanForward_nth name _ 0 k j 0 hk h
  have hf' : spanForward name (pySliceFrom lines ((c : Int) + 1)) 1 0 (k : Int) = ((j : Int) + 1, 0, true) := by
    simpa using hf
  have hk0 : ((k : Int) == 0) = false := by
    have : (k : Int) ≠ 0 := by omega
    simpa using this
  have hj1 : ¬ ((j : Int) + 1 < 0) := by omega
  have hj2 : ¬ ((j : Int) + 1 = 0) := by omega
  simp [getPlacement, isAutoOrSpan, getLine, lineNo, numOr1, hk0, hf', hj1, hj2, bind, Except.bind, pure, Except.pure]

/-- `placement_names`, areas: `grid-column: a` (both edges named after the area `a`), with the
implicit names `a-start` on line `i` and `a-end` on a later line `j`: the item occupies the tracks
`i … j − 1`. -/
theorem placement_area (id : String) (lines : List (List String)) (i j : Nat) (hne : id.isEmpty = false)
    (hs : findName (id ++ "-" ++ "start") lines 0 = some i)
    (he : findName (id ++ "-" ++ "end") lines 0 = some j) (hij : i < j) :
    getPlacement (.mk false none (some id)) (.mk false none (some id)) lines =
      .ok (some ((i : Int), (j : Int) - (i : Int))) := by
  have h1 := getLine_area_edge id "start" lines i hne hs
  have h2 := getLine_area_edge id "end" lines j hne he
  simp only [getPlacement, isAutoOrSpan, h1, h2, bind, Except.bind, pure, Except.pure]
  have hlt : ¬ ((j : Int) - (i : Int) < 0) := by omega
  have hz : ¬ ((j : Int) - (i : Int) = 0) := by omega
  simp [hlt, hz]

/-! ## `item_in_area` -/

/-- `item_in_area`, stretch: an item with `width: auto`, `justify-self` stretch / normal and no auto
margin, in an area that can hold its margins, paddings and borders, has a margin box that is exactly
the area horizontally; the same vertically for `height: auto` and `align-self`. -/
theorem item_in_area_stretch (c : GContainer) (it : GItem) (px py areaW areaH ml mr mt mb : Rat)
    (hml : it.ml = some ml) (hmr : it.mr = some mr) (hmt : it.mt = some mt) (hmb : it.mb = some mb)
    (hjs : isStretch (resolveSelf c.justifyItems it.justifySelf) = true) (hw : it.sWidth = none)
    (has : isStretch (resolveSelf c.alignItems it.alignSelf) = true) (hh : it.sHeight = none)
    (hfitW : 0 ≤ areaW - (ml + mr + (it.pl + it.pr + it.bl + it.br)))
    (hfitH : 0 ≤ areaH - (mt + mb + (it.pt + it.pb + it.bt + it.bb))) :
    (itemRect c it px py areaW areaH).x = px + ml ∧
    (itemRect c it px py areaW areaH).x + (itemRect c it px py areaW areaH).w + mr = px + areaW ∧
    (itemRect c it px py areaW areaH).y = py + mt ∧
    (itemRect c it px py areaW areaH).y + (itemRect c it px py areaW areaH).h + mb = py + areaH := by
  unfold itemRect
  simp only [hml, hmr, hmt, hmb, hjs, has, hw, hh, lenOr0, Option.isNone_none, Bool.and_self, if_true]
  have hnotgt : ¬ (it.pl + it.pr + it.bl + it.br + (areaW - (ml + mr + (it.pl + it.pr + it.bl + it.br))) + ml + mr > areaW) := by
    grind
  simp only [blockLevelWidth, lenOr0, hnotgt, if_false]
  have hnn : ¬ (areaW - (ml + mr + (it.pl + it.pr + it.bl + it.br)) < 0) := by grind
  simp only [hnn, if_false]
  refine ⟨trivial, ?_, trivial, ?_⟩
  · grind
  · grind

/-- `item_in_area`, aligned: an item without margins, paddings and borders, of width `w0` and
height `h0`, aligned `start` / `center` / `end` (here: anything but stretch / normal), keeps its size
and is flush with the start of its area, centred in it, or flush with its end. -/
theorem item_in_area_aligned (c : GContainer) (it : GItem) (px py areaW areaH w0 h0 : Rat)
    (hm : it.ml = some 0 ∧ it.mr = some 0 ∧ it.mt = some 0 ∧ it.mb = some 0)
    (hp : it.pl = 0 ∧ it.pr = 0 ∧ it.bl = 0 ∧ it.br = 0 ∧ it.pt = 0 ∧ it.pb = 0 ∧ it.bt = 0 ∧ it.bb = 0)
    (hw : it.sWidth = some w0) (hh : it.sHeight = some h0) (hw0 : 0 ≤ w0) (hh0 : 0 ≤ h0)
    (hjs : isStretch (resolveSelf c.justifyItems it.justifySelf) = false)
    (has : isStretch (resolveSelf c.alignItems it.alignSelf) = false) :
    let r := itemRect c it px py areaW areaH
    let js := resolveSelf c.justifyItems it.justifySelf
    let as := resolveSelf c.alignItems it.alignSelf
    r.w = w0 ∧ r.h = h0 ∧
    (js = .center → r.x - px = (px + areaW) - (r.x + r.w)) ∧
    ((js = .endLike ∨ js = .right) → r.x + r.w = px + areaW) ∧
    (js ≠ .center → js ≠ .endLike → js ≠ .right → r.x = px) ∧
    (as = .center → r.y - py = (py + areaH) - (r.y + r.h)) ∧
    (as = .endLike → r.y + r.h = py + areaH) ∧
    (as ≠ .center → as ≠ .endLike → r.y = py) := by
  intro r js as
  obtain ⟨hml, hmr, hmt, hmb⟩ := hm
  obtain ⟨h1, h2, h3, h4, h5, h6, h7, h8⟩ := hp
  have hr : r = itemRect c it px py areaW areaH := rfl
  unfold itemRect at hr
  simp only [hml, hmr, hmt, hmb, h1, h2, h3, h4, h5, h6, h7, h8, hw, hh, lenOr0, hjs, has, Bool.false_and,
    Bool.false_eq_true, if_false] at hr
  have hjs' : js = resolveSelf c.justifyItems it.justifySelf := rfl
  have has' : as = resolveSelf c.alignItems it.alignSelf := rfl
  rw [← hjs', ← has'] at hr
  simp only [blockLevelWidth, lenOr0] at hr
  have hnn : ¬ (w0 < 0) := Rat.not_lt.mpr hw0
  have hmaxh : max 0 h0 = h0 := by grind
  by_cases hgt : 0 + 0 + 0 + 0 + w0 + 0 + 0 > areaW
  all_goals (
    simp only [hgt, if_true, if_false, hnn, hmaxh] at hr
    refine ⟨by rw [hr]; simp only []; grind, by rw [hr]; simp only []; grind, ?_, ?_, ?_, ?_, ?_, ?_⟩
    · intro hc; rw [hr]; simp [hc]; grind
    · intro hc; rw [hr]; rcases hc with hc | hc <;> simp [hc] <;> grind
    · intro a b d
      have e1 : (js == SelfAlign.center) = false := by simpa using a
      have e2 : (js == SelfAlign.endLike) = false := by simpa using b
      have e3 : (js == SelfAlign.right) = false := by simpa using d
      rw [hr]; simp [e1, e2, e3]; grind
    · intro hc; rw [hr]; simp [hc]; grind
    · intro hc; rw [hr]; simp [hc]; grind
    · intro a b
      have e1 : (as == SelfAlign.center) = false := by simpa using a
      have e2 : (as == SelfAlign.endLike) = false := by simpa using b
      rw [hr]; simp [e1, e2]; grind)

private theorem blw_some (cb l w r pb : Rat) : blockLevelWidth cb (some l) (some w) (some r) pb = (l, w, r) := by
  by_cases hc : pb + w + l + r > cb <;> simp [blockLevelWidth, lenOr0, hc]

/-- `item_in_area`, aligned, full strength (since repair ca85a65 the content width of a `justify-self`-aligned item is
its max-content *content* width): an item of width `w0` and height `h0` with any non-auto margins, paddings and
borders, aligned `start` / `center` / `end` (anything but stretch / normal), keeps its size, and its *margin box* is
flush with the start of its area, centred in it, or flush with its end, on both axes. -/
theorem item_in_area_aligned_full (c : GContainer) (it : GItem) (px py areaW areaH w0 h0 ml mr mt mb : Rat)
    (hml : it.ml = some ml) (hmr : it.mr = some mr) (hmt : it.mt = some mt) (hmb : it.mb = some mb)
    (hw : it.sWidth = some w0) (hh : it.sHeight = some h0) (hw0 : 0 ≤ w0) (hh0 : 0 ≤ h0)
    (hjs : isStretch (resolveSelf c.justifyItems it.justifySelf) = false)
    (has : isStretch (resolveSelf c.alignItems it.alignSelf) = false) :
    let r := itemRect c it px py areaW areaH
    let js := resolveSelf c.justifyItems it.justifySelf
    let as := resolveSelf c.alignItems it.alignSelf
    r.w = w0 + (it.pl + it.pr + it.bl + it.br) ∧ r.h = h0 + (it.pt + it.pb + it.bt + it.bb) ∧
    (js = .center → (r.x - ml) - px = (px + areaW) - (r.x + r.w + mr)) ∧
    ((js = .endLike ∨ js = .right) → r.x + r.w + mr = px + areaW) ∧
    (js ≠ .center → js ≠ .endLike → js ≠ .right → r.x = px + ml) ∧
    (as = .center → (r.y - mt) - py = (py + areaH) - (r.y + r.h + mb)) ∧
    (as = .endLike → r.y + r.h + mb = py + areaH) ∧
    (as ≠ .center → as ≠ .endLike → r.y = py + mt) := by
  intro r js as
  have hr : r = itemRect c it px py areaW areaH := rfl
  unfold itemRect at hr
  simp only [hml, hmr, hmt, hmb, hw, hh, lenOr0, hjs, has, Bool.false_and,
    Bool.false_eq_true, if_false, blw_some] at hr
  have hjs' : js = resolveSelf c.justifyItems it.justifySelf := rfl
  have has' : as = resolveSelf c.alignItems it.alignSelf := rfl
  rw [← hjs', ← has'] at hr
  have hnn : ¬ (w0 < 0) := Rat.not_lt.mpr hw0
  have hmaxh : max 0 h0 = h0 := by grind
  simp only [hnn, if_false, hmaxh] at hr
  refine ⟨by rw [hr], by rw [hr], ?_, ?_, ?_, ?_, ?_, ?_⟩
  · intro hc; rw [hr]; simp [hc]; grind
  · intro hc; rw [hr]; rcases hc with hc | hc <;> simp [hc] <;> grind
  · intro a b d
    have e1 : (js == SelfAlign.center) = false := by simpa using a
    have e2 : (js == SelfAlign.endLike) = false := by simpa using b
    have e3 : (js == SelfAlign.right) = false := by simpa using d
    rw [hr]; simp [e1, e2, e3]
  · intro hc; rw [hr]; simp [hc]; grind
  · intro hc; rw [hr]; simp [hc]; grind
  · intro a b
    have e1 : (as == SelfAlign.center) = false := by simpa using a
    have e2 : (as == SelfAlign.endLike) = false := by simpa using b
    rw [hr]; simp [e1, e2]

/-! ## step 3.5: the tracks, the gaps and the distributed free space partition the container -/

/-- plain sum of a list (the model's `sumR` is a `foldl`: `sumR_eq_sumL`) -/
def sumL : List Rat → Rat
  | [] => 0
  | x :: xs => x + sumL xs

private theorem foldl_add (l : List Rat) : ∀ acc : Rat, l.foldl (· + ·) acc = acc + sumL l := by
  induction l with
  | nil => intro acc; simp only [List.foldl_nil, sumL]; grind
  | cons x xs ih => intro acc; simp only [List.foldl_cons, sumL, ih]; grind

theorem sumR_eq_sumL (l : List Rat) : sumR l = sumL l := by
  unfold sumR; rw [foldl_add]; grind

/-- position of the first track -/
def alignStart (a : ContentAlign) (start free : Rat) (n : Nat) : Rat :=
  match a with
  | .center => start + free / 2
  | .endLike => start + free
  | .spaceAround => start + free / 2 / n
  | .spaceEvenly => start + free / (n + 1 : Nat)
  | _ => start

/-- distance between the end of a track and the start of the next one -/
def alignBetween (a : ContentAlign) (free gap : Rat) (n : Nat) : Rat :=
  match a with
  | .spaceAround => free / n + gap
  | .spaceBetween => if n ≥ 2 then free / (n - 1 : Nat) + gap else 0
  | .spaceEvenly => free / (n + 1 : Nat) + gap
  | _ => gap

/-- space left after the last track -/
def alignTrail (a : ContentAlign) (free : Rat) (n : Nat) : Rat :=
  match a with
  | .center => free / 2
  | .endLike => 0
  | .spaceAround => free / 2 / n
  | .spaceBetween => 0
  | .spaceEvenly => free / (n + 1 : Nat)
  | _ => free

private theorem alignTracks_eq (a : ContentAlign) (start free gap : Rat) (sizes : List Rat) :
    alignTracks a start free gap sizes =
      alignTracks.go (alignBetween a free gap sizes.length) (a == .spaceBetween && decide (sizes.length < 2)) sizes
        (alignStart a start free sizes.length) := by
  unfold alignTracks alignStart alignBetween
  cases a <;> rfl

private theorem go_pos (between : Rat) :
    ∀ (sizes : List Rat) (x : Rat) (i : Nat), i < sizes.length →
      (alignTracks.go between false sizes x)[i]? = some (x + sumL (sizes.take i) + (i : Rat) * between) := by
  intro sizes
  induction sizes with
  | nil => intro x i hi; simp at hi
  | cons s rest ih =>
    intro x i hi
    unfold alignTracks.go
    cases i with
    | zero => simp [sumL]; grind
    | succ j =>
      have hj : j < rest.length := by simpa using hi
      simp only [Bool.false_eq_true, if_false, List.getElem?_cons_succ, List.take_succ_cons, sumL]
      rw [ih _ j hj]
      congr 1
      push_cast
      grind

/-- `tracks_partition`, step 3.5 (all inputs): whatever the `justify-content` / `align-content` value, track `i` starts
at `first + Σ_{j<i} size_j + i·between`, and the leading space, the tracks, the spaces between them (gap + distributed
share) and the trailing space add up to the free space, the tracks and the gaps: with
`free = container − Σ sizes − (n − 1)·gap ≥ 0` (what `grid_layout` passes since repair 0e77b99) they partition the
container (`alignTracks_fills`).  For `space-between` at least two tracks are needed (with fewer the code keeps
every track at the start). -/
theorem alignTracks_partition (a : ContentAlign) (start free gap : Rat) (sizes : List Rat) (hn : sizes ≠ [])
    (hsb : a = .spaceBetween → 2 ≤ sizes.length) :
    (∀ i, i < sizes.length → (alignTracks a start free gap sizes)[i]? =
      some (alignStart a start free sizes.length + sumL (sizes.take i) +
        (i : Rat) * alignBetween a free gap sizes.length)) ∧
    (alignStart a start free sizes.length - start) + sumL sizes +
      ((sizes.length : Rat) - 1) * alignBetween a free gap sizes.length + alignTrail a free sizes.length =
      free + sumL sizes + ((sizes.length : Rat) - 1) * gap := by
  have hstay : (a == ContentAlign.spaceBetween && decide (sizes.length < 2)) = false := by
    cases a <;> simp
    have := hsb rfl
    omega
  constructor
  · intro i hi
    rw [alignTracks_eq, hstay]
    exact go_pos _ sizes _ i hi
  · obtain ⟨m, hm⟩ : ∃ m, sizes.length = m + 1 := by
      cases sizes with
      | nil => exact absurd rfl hn
      | cons x xs => exact ⟨xs.length, rfl⟩
    rw [hm]
    have h1 : ((m + 1 : Nat) : Rat) = (m : Rat) + 1 := by push_cast; rfl
    have h2 : ((m + 1 + 1 : Nat) : Rat) = (m : Rat) + 2 := by push_cast; grind
    have h0 : (0 : Rat) ≤ (m : Rat) := Rat.natCast_nonneg
    have h3 : (m : Rat) + 1 ≠ 0 := by grind
    have h4 : (m : Rat) + 2 ≠ 0 := by grind
    cases a <;> simp only [alignStart, alignBetween, alignTrail, h1, h2] <;> try grind
    -- space-between
    have h2le : 2 ≤ m + 1 := by have := hsb rfl; omega
    have hm' : (m : Rat) ≠ 0 := by
      have : m ≠ 0 := by omega
      intro h; apply this; exact_mod_cast h
    simp only [ge_iff_le, h2le, if_true, Nat.add_sub_cancel]
    grind

/-- `tracks_partition`, step 3.5, as `grid_layout` calls it: when the tracks and gaps fit in the container
(`container − Σ sizes − (n − 1)·gap ≥ 0`), the leading space, the tracks, the spaces between them and the trailing
space fill the container exactly. -/
theorem alignTracks_fills (a : ContentAlign) (container gap : Rat) (sizes : List Rat) (hn : sizes ≠ [])
    (hsb : a = .spaceBetween → 2 ≤ sizes.length)
    (hfit : 0 ≤ container - sumR sizes - ((sizes.length : Int) - 1 : Int) * gap) :
    let free := max 0 (container - sumR sizes - ((sizes.length : Int) - 1 : Int) * gap)
    alignStart a 0 free sizes.length + sumL sizes +
      ((sizes.length : Rat) - 1) * alignBetween a free gap sizes.length + alignTrail a free sizes.length = container := by
  intro free
  have hfree : free = container - sumR sizes - ((sizes.length : Int) - 1 : Int) * gap := by
    show max 0 _ = _
    rw [Rat.max_def]
    split
    · rfl
    · rename_i hneg; exact absurd hfit hneg
  have h := (alignTracks_partition a 0 free gap sizes hn hsb).2
  rw [sumR_eq_sumL] at hfree
  have hc : (((sizes.length : Int) - 1 : Int) : Rat) = (sizes.length : Rat) - 1 := by push_cast; rfl
  rw [hc] at hfree
  grind

/-! Non-vacuity -/

-- names: `[p] 10px [foo] 20px [a-start] 30px [a-end foo]`
example :
    let lines := [["p"], ["foo"], ["a-start"], ["a-end", "foo"]]
    findName "a-start" lines 0 = some 2 ∧ findName "a-end" lines 0 = some 3 ∧
    findName "foo-start" lines 0 = none ∧ findName "foo" lines 0 = some 1 ∧
    (getPlacement (.mk false none (some "a")) (.mk false none (some "a")) lines).toOption = some (some (2, 1)) ∧
    (getPlacement (.mk false none (some "foo")) .auto lines).toOption = some (some (1, 1)) := by
  decide +kernel

-- template areas give the implicit names: `grid-template-areas: "a a ."` on three columns, `grid-column: a`
example :
    let cols : List TElem := [.names [], .size (.one (.px 10)), .names [], .size (.one (.px 20)), .names [], .size (.one (.px 30)), .names []]
    let c : GContainer := { (default : GContainer) with templateCols := some cols, autoRows := [.one .auto], autoCols := [.one .auto], areas := some [[some "a", some "a", none]] }
    (explicitGrid c).toOption.map (fun e => lineNames e.cols) = some [["a-start"], [], ["a-end"], []] := by
  decide +kernel

-- item_in_area: a stretched item with margins 2 / 3 and 1px padding in a 50 x 20 area at (10, 5)
example :
    let it : GItem := { (default : GItem) with ml := some 2, mr := some 3, mt := some 0, mb := some 0, pl := 1, pr := 1, justifySelf := .auto, alignSelf := .auto }
    let c : GContainer := { (default : GContainer) with justifyItems := .normal, alignItems := .normal }
    let r := itemRect c it 10 5 50 20
    (r.x, r.y, r.w, r.h) = (12, 5, 45, 20) := by decide +kernel

-- getLine_nth_named: `[foo] [bar foo] [] [foo]`: the third `foo` line is line 3 (0-based)
example :
    let lines := [["foo"], ["bar", "foo"], [], ["foo"]]
    nthName "foo" lines 0 3 = some 3 ∧ nthName "foo" lines 0 2 = some 1 ∧
    (getLine false (some 3) (some "foo") lines "start").toOption.map (·.coord) = some (some 3) := by
  decide +kernel

-- item_in_area_aligned_full: `justify-self: center; align-self: end`, 20 x 10 with margins 2 / 4 / 1 / 3 and
-- 5px horizontal padding, in a 100 x 40 area at (10, 5): border box 30 wide, centred margin box, bottom flush
example :
    let it0 : GItem := { (default : GItem) with ml := some 2, mr := some 4, mt := some 1, mb := some 3 }
    let it : GItem := { it0 with pl := 5, pr := 5, sWidth := some 20, sHeight := some 10, justifySelf := .center, alignSelf := .endLike }
    let c : GContainer := { (default : GContainer) with justifyItems := .normal, alignItems := .normal }
    let r := itemRect c it 10 5 100 40
    (r.x, r.y, r.w, r.h) = (44, 32, 30, 10) := by decide +kernel

-- placement_span_named_back: `[foo] [foo] [bar foo] []`, `span 2 foo / 4`: walking back from line index 2, the second
-- `foo` line is one step back: tracks 1 … 2 (and the hypothesis is met)
example :
    let lines := [["foo"], ["foo"], ["bar", "foo"], []]
    nthName "foo" (pyBackFrom lines 2) 0 2 = some 1 ∧
    (getPlacement (.mk true (some 2) (some "foo")) (lineNo 4) lines).toOption = some (some (1, 2)) := by
  decide +kernel

-- placement_span_named_forward: `[] [foo] [] [foo] []`, `1 / span 2 foo`: the second `foo` line after line 1 is at
-- offset 2 of `lines[1:]`: three tracks from 0
example :
    let lines := [[], ["foo"], [], ["foo"], []]
    nthName "foo" (pySliceFrom lines 1) 0 2 = some 2 ∧
    (getPlacement (lineNo 1) (.mk true (some 2) (some "foo")) lines).toOption = some (some (0, 3)) := by
  decide +kernel

-- alignTracks_partition / alignTracks_fills: two 20px tracks, gap 10, `space-around` in 90px (free 40): the tracks
-- start at 10 and 60, the trailing space is 10: 10 + 20 + 30 + 20 + 10 = 90
example :
    alignTracks .spaceAround 0 40 10 [20, 20] = [10, 60] ∧ alignStart .spaceAround 0 40 2 = 10 ∧
    alignBetween .spaceAround 40 10 2 = 30 ∧ alignTrail .spaceAround 40 2 = 10 ∧
    (0 : Rat) ≤ 90 - sumR [20, 20] - ((([20, 20] : List Rat).length : Int) - 1 : Int) * 10 := by
  decide +kernel

/-! ## step 1.4: auto-placement takes the *first* free position (dense: from the start of the grid; sparse: from the cursor) -/


/-- dense packing, second axis given (step 1.4): the loop returns the *first* candidate, counted from where the search
starts, that is not before the start of the grid and overlaps nothing placed before: every earlier candidate was
rejected for one of these two reasons. -/
theorem denseLocked_first (ffr : Bool) (fs fe : Place) (fl : List (List String)) (si ssz cfirst : Int)
    (positions : List Area) :
    ∀ (fuel : Nat) (k fi fsz : Int),
      denseLocked ffr fs fe fl si ssz cfirst positions fuel k = .ok (fi, fsz) →
      ∃ k', k ≤ k' ∧ placeAt fs fe fl k' = .ok (fi, fsz) ∧ cfirst ≤ fi ∧
        ∀ j, k ≤ j → j < k' → ∀ p, placeAt fs fe fl j = .ok p →
          p.1 < cfirst ∨ areaIntersects (mkArea ffr p.1 p.2 si ssz) positions = true := by
  intro fuel
  induction fuel with
  | zero => intro k fi fsz h; simp [denseLocked, throw, throwThe, MonadExceptOf.throw] at h
  | succ n ih =>
    intro k fi fsz h
    unfold denseLocked at h
    simp only [bind, Except.bind] at h
    cases h1 : placeAt fs fe fl k with
    | error e => simp [h1] at h
    | ok p =>
      obtain ⟨fi1, fsz1⟩ := p
      simp only [h1] at h
      by_cases hlt : fi1 < cfirst
      · simp only [hlt, if_true] at h
        obtain ⟨k', hk, hp, hc, hall⟩ := ih _ _ _ h
        refine ⟨k', by omega, hp, hc, ?_⟩
        intro j hj1 hj2 p hpj
        by_cases hjk : j = k
        · subst hjk; rw [h1] at hpj; cases hpj; exact Or.inl hlt
        · exact hall j (by omega) hj2 p hpj
      · simp only [hlt, if_false] at h
        by_cases hc : areaIntersects (mkArea ffr fi1 fsz1 si ssz) positions = true
        · simp only [hc, if_true] at h
          obtain ⟨k', hk, hp, hc', hall⟩ := ih _ _ _ h
          refine ⟨k', by omega, hp, hc', ?_⟩
          intro j hj1 hj2 p hpj
          by_cases hjk : j = k
          · subst hjk; rw [h1] at hpj; cases hpj; exact Or.inr hc
          · exact hall j (by omega) hj2 p hpj
        · simp only [hc, pure, Except.pure] at h
          cases h
          refine ⟨k, Int.le_refl _, h1, by omega, ?_⟩
          intro j hj1 hj2; omega

/-- an item whose auto-flow axis is fully automatic is tried in track `k`, one track wide -/
theorem placeAt_auto (fl : List (List String)) (k : Int) : placeAt .auto .auto fl k = .ok (k, 1) := by
  unfold placeAt getPlacement!
  simp [placement_line_auto, bind, Except.bind, pure, Except.pure]

/-- dense packing, item locked to tracks `si … si+ssz−1` of the second axis and automatic on the auto-flow axis
(`grid-column: N` in a `row dense` grid): it lands in the first row, from the start of the grid, where these tracks are
free — every row between the start of the grid and its row is occupied there (css-grid 8.5, the clause that the
`dense_violation` oracle samples, for all inputs). -/
theorem denseLocked_auto_first (ffr : Bool) (fl : List (List String)) (si ssz cfirst : Int)
    (positions : List Area) (fuel : Nat) (fi fsz : Int)
    (h : denseLocked ffr .auto .auto fl si ssz cfirst positions fuel cfirst = .ok (fi, fsz)) :
    fsz = 1 ∧ cfirst ≤ fi ∧ areaIntersects (mkArea ffr fi 1 si ssz) positions = false ∧
    ∀ j, cfirst ≤ j → j < fi → areaIntersects (mkArea ffr j 1 si ssz) positions = true := by
  obtain ⟨k', hk, hp, hc, hall⟩ := denseLocked_first ffr .auto .auto fl si ssz cfirst positions fuel cfirst fi fsz h
  rw [placeAt_auto] at hp
  cases hp
  refine ⟨rfl, hc, ?_, ?_⟩
  · exact denseLocked_free ffr .auto .auto fl si ssz cfirst positions fuel cfirst _ _ h
  · intro j hj1 hj2
    rcases hall j hj1 hj2 (j, 1) (placeAt_auto fl j) with h' | h'
    · simp at h'; omega
    · exact h'

/-- sparse packing, second axis given: the cursor stops at the *first* position, at or after where it was, whose
candidate is not before the cursor and overlaps nothing. -/
theorem sparseLocked_first (ffr : Bool) (fs fe : Place) (fl : List (List String)) (si ssz : Int)
    (positions : List Area) :
    ∀ (fuel : Nat) (cf cf' fi fsz : Int),
      sparseLocked ffr fs fe fl si ssz positions fuel cf = .ok (cf', fi, fsz) →
      placeAt fs fe fl cf' = .ok (fi, fsz) ∧
        ∀ j, cf ≤ j → j < cf' → ∀ p, placeAt fs fe fl j = .ok p →
          p.1 < j ∨ areaIntersects (mkArea ffr p.1 p.2 si ssz) positions = true := by
  intro fuel
  induction fuel with
  | zero => intro cf cf' fi fsz h; simp [sparseLocked, throw, throwThe, MonadExceptOf.throw] at h
  | succ n ih =>
    intro cf cf' fi fsz h
    have hcur := sparseLocked_cursor ffr fs fe fl si ssz positions (n + 1) cf cf' fi fsz h
    unfold sparseLocked at h
    simp only [bind, Except.bind] at h
    cases h1 : placeAt fs fe fl cf with
    | error e => simp [h1] at h
    | ok p =>
      obtain ⟨fi1, fsz1⟩ := p
      simp only [h1] at h
      by_cases hlt : fi1 < cf
      · simp only [hlt, if_true] at h
        obtain ⟨hp, hall⟩ := ih _ _ _ _ h
        refine ⟨hp, ?_⟩
        intro j hj1 hj2 p hpj
        by_cases hjk : j = cf
        · subst hjk; rw [h1] at hpj; cases hpj; exact Or.inl hlt
        · exact hall j (by omega) hj2 p hpj
      · simp only [hlt, if_false] at h
        by_cases hc : areaIntersects (mkArea ffr fi1 fsz1 si ssz) positions = true
        · simp only [hc, if_true] at h
          obtain ⟨hp, hall⟩ := ih _ _ _ _ h
          refine ⟨hp, ?_⟩
          intro j hj1 hj2 p hpj
          by_cases hjk : j = cf
          · subst hjk; rw [h1] at hpj; cases hpj; exact Or.inr hc
          · exact hall j (by omega) hj2 p hpj
        · simp only [hc, pure, Except.pure] at h
          cases h
          refine ⟨h1, ?_⟩
          intro j hj1 hj2; omega

/-- dense packing at the level of step 1.4 of `grid_layout`: an item locked on the second axis and automatic on the
auto-flow axis is appended to `children_positions` in the first track of the auto-flow axis, counted from the start of
the implicit grid (`implicit_first_1`: the cursor is reset for every such item), where its tracks are free. -/
theorem step14DenseGiven_first (ctx : PCtx) (st st' : PState) (it : GItem) (si ssz : Int)
    (hauto : itemFirst ctx.flowColumn it = (.auto, .auto))
    (h : step14DenseGiven ctx st it si ssz = .ok st') :
    ∃ fi, st'.positions = st.positions ++ [(it.id, mkArea ctx.firstFlowRow fi 1 si ssz)] ∧
      ctx.implicitFirst1 ≤ fi ∧ areaIntersects (mkArea ctx.firstFlowRow fi 1 si ssz) st.areas = false ∧
      ∀ j, ctx.implicitFirst1 ≤ j → j < fi →
        areaIntersects (mkArea ctx.firstFlowRow j 1 si ssz) st.areas = true := by
  unfold step14DenseGiven at h
  simp only [bind, Except.bind] at h
  cases h1 : denseLocked ctx.firstFlowRow (itemFirst ctx.flowColumn it).1 (itemFirst ctx.flowColumn it).2
      ctx.flines si ssz ctx.implicitFirst1 st.areas countBound ctx.implicitFirst1 with
  | error e => simp [h1] at h
  | ok r =>
    obtain ⟨fi, fsz⟩ := r
    simp only [h1, pure, Except.pure] at h
    cases h
    rw [hauto] at h1
    obtain ⟨hsz, hge, hfree, hall⟩ := denseLocked_auto_first _ _ _ _ _ _ _ _ _ h1
    subst hsz
    exact ⟨fi, rfl, hge, hfree, hall⟩

-- the situation of a column-locked item after the cursor has left a hole: cell (0, 0) and the whole row 1 are taken, the
-- item locked to column 1 goes back to row 0 (and the hypotheses of the theorems above are met)
example : (denseLocked true .auto .auto [[], [], []] 1 1 0 [(0, 0, 1, 1), (0, 1, 3, 1)] countBound 0).toOption =
    some (0, 1) := by decide +kernel

-- ... and when column 1 is taken in rows 0 and 1 it goes to row 2, the first free one
example : (denseLocked true .auto .auto [[], [], []] 1 1 0 [(0, 0, 2, 1), (0, 1, 3, 1)] countBound 0).toOption =
    some (2, 1) := by decide +kernel

-- sparse: from cursor 1 the same item stays at or after the cursor
example : (sparseLocked true .auto .auto [[], [], []] 1 1 [(0, 0, 1, 1), (0, 1, 3, 1)] countBound 1).toOption =
    some (2, 2, 1) := by decide +kernel


theorem rangeInt_nil (a b : Int) (h : b ≤ a) : rangeInt a b = [] := by
  unfold rangeInt
  have : (b - a).toNat = 0 := by omega
  rw [this]; rfl

theorem rangeInt_cons (a b : Int) (h : a < b) : rangeInt a b = a :: rangeInt (a + 1) b := by
  unfold rangeInt
  have hn : (b - a).toNat = (b - (a + 1)).toNat + 1 := by omega
  rw [hn, List.range_succ_eq_map]
  simp only [List.map_cons, List.map_map]
  congr 1
  · simp
  · apply List.map_congr_left
    intro k _
    simp only [Function.comp]
    push_cast
    omega

/-- the scan of one row (resp. column) by a fully automatic 1 × 1 item -/
theorem scanRange_auto (ffr : Bool) (fl sl : List (List String)) (b : Int) (positions : List Area) (fi : Int) :
    ∀ (n : Nat) (c : Int), (b - c).toNat = n →
      ∀ found fi', scanSecond ffr .auto .auto .auto .auto fl sl b positions (rangeInt c b) fi = .ok (found, fi') →
        fi' = fi ∧
        match found with
        | some (a, fsz) => ∃ s, c ≤ s ∧ s < b ∧ a = mkArea ffr fi 1 s 1 ∧ fsz = 1 ∧
            areaIntersects a positions = false ∧
            ∀ t, c ≤ t → t < s → areaIntersects (mkArea ffr fi 1 t 1) positions = true
        | none => ∀ t, c ≤ t → t < b → areaIntersects (mkArea ffr fi 1 t 1) positions = true := by
  intro n
  induction n with
  | zero =>
    intro c hn found fi' h
    rw [rangeInt_nil c b (by omega)] at h
    simp [scanSecond, pure, Except.pure] at h
    obtain ⟨rfl, rfl⟩ := h
    exact ⟨rfl, by intro t h1 h2; omega⟩
  | succ m ih =>
    intro c hn found fi' h
    have hlt : c < b := by omega
    rw [rangeInt_cons c b hlt] at h
    unfold scanSecond at h
    simp only [bind, Except.bind, placeAt_auto] at h
    by_cases hc : areaIntersects (mkArea ffr fi 1 c 1) positions = true
    · simp only [hc, Bool.true_or, if_true] at h
      obtain ⟨hfi, hrest⟩ := ih (c + 1) (by omega) found fi' h
      refine ⟨hfi, ?_⟩
      cases found with
      | none =>
        intro t h1 h2
        by_cases htc : t = c
        · subst htc; exact hc
        · exact hrest t (by omega) h2
      | some r =>
        obtain ⟨a, fsz⟩ := r
        obtain ⟨s, hs1, hs2, ha, hf, hfree, hall⟩ := hrest
        refine ⟨s, by omega, hs2, ha, hf, hfree, ?_⟩
        intro t h1 h2
        by_cases htc : t = c
        · subst htc; exact hc
        · exact hall t (by omega) h2
    · have hov : ¬ (c + 1 > b) := by omega
      simp only [hc, Bool.false_or, hov, decide_false, Bool.false_eq_true, if_false, pure, Except.pure] at h
      cases h
      refine ⟨rfl, c, Int.le_refl _, hlt, rfl, rfl, by simpa using hc, ?_⟩
      intro t h1 h2; omega

/-- dense / sparse packing, both axes automatic (step 1.4, fully automatic 1 × 1 item): the `while True` loop returns the
*first free cell in auto-flow order* from the cursor `(cf, cs)`: the cells of its own row before it, and every cell of the
rows between the cursor's row and its row (from `cs` in the cursor's row, from the start of the implicit grid `is1` in
the following ones), are occupied.  With the cursor reset to the start of the grid (dense packing) this is the
`dense_violation` clause for all inputs; with the running cursor (sparse) the item never goes back before the cursor. -/
theorem freeLoop_auto_first (ffr : Bool) (fl sl : List (List String)) (is1 is2 : Int) (positions : List Area) :
    ∀ (fuel : Nat) (cf cs if2 : Int) (a : Area) (fsz cf' cs' if2' fi' : Int),
      freeLoop ffr .auto .auto .auto .auto fl sl is1 is2 positions fuel cf cs if2 = .ok (a, fsz, cf', cs', if2', fi') →
      cf ≤ cf' ∧ ∃ s, a = mkArea ffr cf' 1 s 1 ∧ s < is2 ∧ areaIntersects a positions = false ∧
        (if cf' = cf then cs else is1) ≤ s ∧
        (∀ t, (if cf' = cf then cs else is1) ≤ t → t < s →
          areaIntersects (mkArea ffr cf' 1 t 1) positions = true) ∧
        (∀ r t, cf ≤ r → r < cf' → (if r = cf then cs else is1) ≤ t → t < is2 →
          areaIntersects (mkArea ffr r 1 t 1) positions = true) := by
  intro fuel
  induction fuel with
  | zero => intro cf cs if2 a fsz cf' cs' if2' fi' h; simp [freeLoop, throw, throwThe, MonadExceptOf.throw] at h
  | succ n ih =>
    intro cf cs if2 a fsz cf' cs' if2' fi' h
    unfold freeLoop at h
    simp only [bind, Except.bind] at h
    cases hscan : scanSecond ffr .auto .auto .auto .auto fl sl is2 positions (rangeInt cs is2) cf with
    | error e => simp [hscan] at h
    | ok r =>
      obtain ⟨found, fi⟩ := r
      simp only [hscan] at h
      have hs := scanRange_auto ffr fl sl is2 positions cf _ cs rfl found fi hscan
      cases found with
      | some q =>
        obtain ⟨a0, fsz0⟩ := q
        simp only [pure, Except.pure] at h
        cases h
        obtain ⟨_, s, hs1, hs2, ha, _, hfree, hall⟩ := hs
        refine ⟨Int.le_refl _, s, ha, hs2, hfree, by simpa using hs1, ?_, ?_⟩
        · intro t h1 h2
          simp only [if_true] at h1
          exact hall t h1 h2
        · intro r t h1 h2; omega
      | none =>
        simp only [] at h
        obtain ⟨hle, s, ha, hs2, hfree, hstart, hrow, hrows⟩ := ih _ _ _ _ _ _ _ _ _ h
        have hne : ¬ (cf' = cf) := by omega
        have hif : (if cf' = cf + 1 then is1 else is1) = is1 := by split <;> rfl
        rw [hif] at hstart hrow
        refine ⟨by omega, s, ha, hs2, hfree, by simpa [hne] using hstart, ?_, ?_⟩
        · intro t h1 h2
          simp only [hne, if_false] at h1
          exact hrow t h1 h2
        · intro r t h1 h2 h3 h4
          by_cases hr : r = cf
          · subst hr
            simp only [if_true] at h3
            exact hs.2 t h3 h4
          · simp only [hr, if_false] at h3
            have hif2 : (if r = cf + 1 then is1 else is1) = is1 := by split <;> rfl
            exact hrows r t (by omega) h2 (by rw [hif2]; exact h3) h4

-- two columns, cells (0,0), (1,0) and (0,1) taken: a fully automatic item searching from the start of the grid takes (1,1)
example : ((freeLoop true .auto .auto .auto .auto [[], []] [[], [], []] 0 2 [(0, 0, 1, 1), (1, 0, 1, 1), (0, 1, 1, 1)]
    whileBound 0 0 1).toOption.map fun r => r.1) = some (1, 1, 1, 1) := by decide +kernel

/-- dense packing at the level of step 1.4 of `grid_layout`, fully automatic 1 × 1 item: it is appended to
`children_positions` in the first free cell, in auto-flow order, from the start of the implicit grid
(`implicit_first_1`, `implicit_second_1`: the cursor is reset for every item). -/
theorem step14DenseFree_first (ctx : PCtx) (st st' : PState) (it : GItem)
    (hf : itemFirst ctx.flowColumn it = (.auto, .auto)) (hs : itemSecond ctx.flowColumn it = (.auto, .auto))
    (h : step14DenseFree ctx st it = .ok st') :
    ∃ r s, st'.positions = st.positions ++ [(it.id, mkArea ctx.firstFlowRow r 1 s 1)] ∧
      ctx.implicitFirst1 ≤ r ∧ ctx.implicitSecond1 ≤ s ∧ s < ctx.implicitSecond2 ∧
      areaIntersects (mkArea ctx.firstFlowRow r 1 s 1) st.areas = false ∧
      (∀ t, ctx.implicitSecond1 ≤ t → t < s → areaIntersects (mkArea ctx.firstFlowRow r 1 t 1) st.areas = true) ∧
      (∀ r' t, ctx.implicitFirst1 ≤ r' → r' < r → ctx.implicitSecond1 ≤ t → t < ctx.implicitSecond2 →
        areaIntersects (mkArea ctx.firstFlowRow r' 1 t 1) st.areas = true) := by
  unfold step14DenseFree at h
  simp only [bind, Except.bind] at h
  cases h1 : freeLoop ctx.firstFlowRow (itemFirst ctx.flowColumn it).1 (itemFirst ctx.flowColumn it).2
      (itemSecond ctx.flowColumn it).1 (itemSecond ctx.flowColumn it).2 ctx.flines ctx.slines
      ctx.implicitSecond1 ctx.implicitSecond2 st.areas whileBound ctx.implicitFirst1 ctx.implicitSecond1
      st.implicitFirst2 with
  | error e => simp [h1] at h
  | ok q =>
    obtain ⟨a, fsz, cf, cs, if2, fi⟩ := q
    simp only [h1, pure, Except.pure] at h
    cases h
    rw [hf, hs] at h1
    obtain ⟨hle, s, ha, hs2, hfree, hstart, hrow, hrows⟩ := freeLoop_auto_first _ _ _ _ _ _ _ _ _ _ _ _ _ _ _ _ h1
    have hif : (if cf = ctx.implicitFirst1 then ctx.implicitSecond1 else ctx.implicitSecond1) = ctx.implicitSecond1 := by
      split <;> rfl
    rw [hif] at hstart hrow
    subst ha
    refine ⟨cf, s, rfl, hle, hstart, hs2, hfree, hrow, ?_⟩
    intro r' t h1' h2' h3' h4'
    have hif2 : (if r' = ctx.implicitFirst1 then ctx.implicitSecond1 else ctx.implicitSecond1) = ctx.implicitSecond1 := by
      split <;> rfl
    exact hrows r' t h1' h2' (by rw [hif2]; exact h3') h4'

end Wp.C12
