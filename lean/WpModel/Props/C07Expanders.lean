/-
C07 (part 2) — the remaining shorthand expanders: place-*, line-clamp, flex, font, grid-row / grid-column /
grid-area, grid-template; a shorthand containing var() (`PendingExpander`); coverage of the registry.
Property theorems only; helper lemmas are `private` or in Lemmas/C07Generic.lean.
-/
import WpModel.Model.Declarations
import WpModel.Model.ExpandersC07
import WpModel.Lemmas.C07Generic

namespace Wp.C07
open Wp Wp.Decl

/-! ## 11. Every registered expander is accounted for -/

/-- Functions whose generator is modelled token by token (Model/Declarations.lean, Model/ExpandersC07.lean,
Model/DescriptorsC07.lean). -/
def modelledExpanders : List String :=
  ["expand_four_sides", "border_radius", "expand_list_style", "expand_border", "expand_border_side",
   "expand_text_decoration", "expand_page_break_after", "expand_page_break_before", "expand_page_break_inside",
   "expand_columns", "expand_word_wrap", "expand_flex_flow", "expand_gap", "expand_legacy_column_gap",
   "expand_legacy_row_gap", "expand_text_align", "expand_place_content", "expand_place_items",
   "expand_place_self", "expand_line_clamp", "expand_flex", "expand_font", "expand_grid_column_row",
   "expand_grid_area", "expand_grid_template", "expand_grid", "font_variant", "expand_border_image",
   "expand_mask_border", "expand_background"]

/-- **Coverage of the generated registry**: every `EXPANDERS` entry (42 keys at HEAD) is bound to a function
whose generator is modelled. A shorthand added to the source breaks this until it is modelled. -/
theorem all_expanders_modelled : ∀ e ∈ Gen.Expanders.expanderKeys, e.2 ∈ modelledExpanders := by decide

/-- …and every modelled name is a registered function (no stale entry). -/
theorem no_stale_expander : ∀ f ∈ modelledExpanders, f ∈ Gen.Expanders.expanderKeys.map Prod.snd := by decide

/-! ## 12. place-content / place-items / place-self -/

/-- The three `place-*` shorthands are rejected whatever the value (unimplemented in the source): with any set
of longhand names and any validator, a plain value is `InvalidValues`, hence dropped by the funnel. -/
theorem place_always_invalid {α β : Type} (names : List String) (name : String) (validate : String → α → R β) :
    genericFill names name .plain (placeRaw (α := α)) validate = .error .invalid :=
  genericFill_ends_invalid names name placeRaw validate rfl (by simp [placeRaw])

/-! ## 13. line-clamp -/

/-- `line-clamp` is valid exactly for `none`, `<integer>`, `<integer ≠ 0> <block-ellipsis>`. -/
theorem line_clamp_valid_iff {α : Type} (n a d : α) (toks : List (ClampTok α)) :
    (lineClampRaw n a d toks).ends = none ↔
      (∃ t, toks = [t] ∧ (t.isNone = true ∨ (t.isNumber = true ∧ t.intValue.isSome = true))) ∨
      (∃ x y k, toks = [x, y] ∧ x.isNumber = true ∧ x.intValue = some k ∧ k ≠ 0 ∧ y.ellipsisOk = true) := by
  match toks with
  | [] => simp [lineClampRaw]
  | [t] =>
    cases h1 : t.isNone <;> cases h2 : t.isNumber <;> cases h3 : t.intValue <;>
      simp [lineClampRaw, h1, h2, h3]
  | [x, y] =>
    constructor
    · intro h
      right
      unfold lineClampRaw at h
      cases h1 : x.isNumber with
      | false => simp [h1] at h
      | true =>
        cases h2 : x.intValue with
        | none => simp [h1, h2] at h
        | some k =>
          cases h3 : y.ellipsisOk with
          | false => simp [h1, h2, h3] at h
          | true =>
            by_cases hk : k = 0
            · simp [h1, h2, h3, hk] at h
            · exact ⟨x, y, k, rfl, h1, h2, hk, h3⟩
    · rintro (⟨t, ht, _⟩ | ⟨x', y', k, hxy, h1, h2, hk, h3⟩)
      · simp at ht
      · simp only [List.cons.injEq, and_true] at hxy
        obtain ⟨rfl, rfl⟩ := hxy
        simp [lineClampRaw, h1, h2, h3, hk]
  | _ :: _ :: _ :: _ => simp [lineClampRaw]

/-- A valid `line-clamp` always gives its three longhands, in this order (none is left to `initial`). -/
theorem line_clamp_names {α : Type} (n a d : α) (toks : List (ClampTok α))
    (h : (lineClampRaw n a d toks).ends = none) :
    (lineClampRaw n a d toks).items.map Prod.fst = ["max-lines", "continue", "block-ellipsis"] := by
  match toks with
  | [] => simp [lineClampRaw] at h
  | [t] =>
    cases h1 : t.isNone <;> cases h2 : t.isNumber <;> cases h3 : t.intValue <;>
      simp_all [lineClampRaw]
  | [x, y] =>
    rcases (line_clamp_valid_iff n a d [x, y]).mp h with ⟨_, ht, _⟩ | ⟨x', y', k, hxy, h1, h2, hk, h3⟩
    · simp at ht
    · simp only [List.cons.injEq, and_true] at hxy
      obtain ⟨rfl, rfl⟩ := hxy
      simp [lineClampRaw, h1, h2, h3, hk]
  | _ :: _ :: _ :: _ => simp [lineClampRaw] at h

/-- `line-clamp: none` = `max-lines: none; continue: auto; block-ellipsis: none`;
`line-clamp: 3` = `max-lines: 3; continue: discard; block-ellipsis: auto`. -/
example : (lineClampRaw "none" "auto" "discard" [⟨true, false, none, false, "t0"⟩]).items
      = [("max-lines", "none"), ("continue", "auto"), ("block-ellipsis", "none")] ∧
    (lineClampRaw "none" "auto" "discard" [⟨false, true, some 3, false, "t0"⟩]).items
      = [("max-lines", "t0"), ("continue", "discard"), ("block-ellipsis", "auto")] := by decide

/-! ## 14. flex -/

/-- `flex: none` = `0 0 auto`. -/
theorem flex_none (numId : Rat → String) (z a : String) (toks : List FlexTok) :
    flexRaw true numId z a toks =
      { items := [("-grow", numId 0), ("-shrink", numId 0), ("-basis", a)], ends := none } := rfl

/-- A valid `flex` always sets its three longhands. -/
theorem flex_names (kw : Bool) (numId : Rat → String) (z a : String) (toks : List FlexTok)
    (h : (flexRaw kw numId z a toks).ends = none) :
    (flexRaw kw numId z a toks).items.map Prod.fst = ["-grow", "-shrink", "-basis"] := by
  unfold flexRaw at h ⊢
  cases kw
  · simp only [Bool.false_eq_true, if_false] at h ⊢
    cases hl : flexLoop toks {} with
    | none => simp [hl] at h
    | some st => simp [hl]
  · rfl

/-- `flex: <number>` = `<number> 1 0px` (grow given, shrink 1, basis zero). -/
theorem flex_single_factor (numId : Rat → String) (z a : String) (t : FlexTok) (g : Rat)
    (hf : t.factor = some g) (hb : t.basisOk = false) :
    flexRaw false numId z a [t] =
      { items := [("-grow", numId g), ("-shrink", numId 1), ("-basis", z)], ends := none } := by
  simp [flexRaw, flexLoop, hf, hb]

/-- "A unitless zero that is not already preceded by two flex factors must be interpreted as a flex factor":
`flex: 0` is `0 1 0px`, never a basis, even though `0` is a valid `flex-basis`. -/
theorem flex_unitless_zero (numId : Rat → String) (z a : String) (t : FlexTok)
    (hz : t.isZeroNumber = true) (hf : t.factor = some 0) :
    flexRaw false numId z a [t] =
      { items := [("-grow", numId 0), ("-shrink", numId 1), ("-basis", z)], ends := none } := by
  simp [flexRaw, flexLoop, hf, hz]

/-- **The basis may stand before, between or after the two flex factors**: `b g s`, `g b s`, `g s b` expand
alike (`g`, `s` flex factors that are not lengths, `b` a basis that is not the unitless zero). -/
theorem flex_basis_anywhere (numId : Rat → String) (z a : String) (g s b : FlexTok) (x y : Rat)
    (hg : g.factor = some x) (hs : s.factor = some y) (hgb : g.basisOk = false) (hsb : s.basisOk = false)
    (hb : b.basisOk = true) (hbz : b.isZeroNumber = false) :
    flexRaw false numId z a [b, g, s] = flexRaw false numId z a [g, b, s] ∧
    flexRaw false numId z a [g, b, s] = flexRaw false numId z a [g, s, b] ∧
    flexRaw false numId z a [g, s, b] =
      { items := [("-grow", numId x), ("-shrink", numId y), ("-basis", b.id)], ends := none } := by
  refine ⟨?_, ?_, ?_⟩ <;> simp [flexRaw, flexLoop, hg, hs, hgb, hsb, hb, hbz]

/-- Regression (`flex: 0.0`, repaired by 6a44d73): the unitless zero is recognised by its value, however it is
written (`0.0`, `1e-999`: `int_value` is `None`), so it is a flex factor like `0`: `0 1 0px`, not the basis. -/
example : (flexRaw false (fun q => "n:" ++ showRat q) "0px" "auto" [⟨true, true, some 0, "0.0"⟩]).items
      = [("-grow", "n:0"), ("-shrink", "n:1"), ("-basis", "0px")] ∧
    (flexRaw false (fun q => "n:" ++ showRat q) "0px" "auto" [⟨true, true, some 0, "0.0"⟩, ⟨false, false, some 2, "2"⟩]).items
      = [("-grow", "n:0"), ("-shrink", "n:2"), ("-basis", "0px")] := by decide +kernel

example : (flexRaw false (fun q => "n:" ++ showRat q) "0px" "auto"
    [⟨false, false, some 2, "t0"⟩, ⟨false, true, none, "t1"⟩]).items =
    [("-grow", "n:2"), ("-shrink", "n:1"), ("-basis", "t1")] := by decide +kernel

/-! ## 15. font -/

private def fontPair {α : Type} (t : FontTok α) : String × List α := ((fontClass t).getD "", [t.tok])

/-- The first loop on a prefix of classified tokens (none of them `normal`) followed by the token that ends it:
all of the prefix is yielded, the next token is handed over as the size. -/
private theorem fontLoop_prefix {α : Type} :
    ∀ (n : Nat) (pre : List (FontTok α)) (s : FontTok α) (rest : List (FontTok α)) (acc : List (String × List α)),
      pre.length ≤ n → (∀ t ∈ pre, t.isNormal = false ∧ (fontClass t).isSome = true) →
      (pre.length < n → s.isNormal = false ∧ fontClass s = none) →
      fontLoop n (pre ++ s :: rest) acc = .ok (s, rest, acc ++ pre.map fontPair)
  | 0, pre, s, rest, acc, hl, _, _ => by
    have : pre = [] := List.eq_nil_of_length_eq_zero (Nat.le_zero.mp hl)
    subst this
    simp [fontLoop]
  | n + 1, [], s, rest, acc, _, _, hs => by
    have := hs (by simp)
    simp [fontLoop, this.1, this.2]
  | n + 1, t :: pre, s, rest, acc, hl, hpre, hs => by
    have ht := hpre t (by simp)
    cases hc : fontClass t with
    | none => simp [hc] at ht
    | some suffix =>
      have ih := fontLoop_prefix n pre s rest (acc ++ [(suffix, [t.tok])]) (by simpa using hl)
        (fun x hx => hpre x (by simp [hx])) (fun h => hs (by simpa using h))
      simp only [List.cons_append, fontLoop, ht.1, Bool.false_eq_true, if_false, hc]
      have hne : (pre ++ s :: rest).isEmpty = false := by cases pre <;> rfl
      simp only [hne, Bool.false_eq_true, if_false, ih, List.map_cons, fontPair, hc, Option.getD_some,
        List.append_assoc, List.singleton_append]

theorem font_names_eq : genericNames "expand_font" =
    some ["-style", "-variant-caps", "-weight", "-stretch", "-size", "line-height", "-family"] := by decide

private theorem fontClass_mem {α : Type} (t : FontTok α) (s : String) (h : fontClass t = some s) :
    s ∈ ["-style", "-variant-caps", "-weight", "-stretch", "-size", "line-height", "-family"] := by
  unfold fontClass at h
  split at h
  · cases h; simp
  · split at h
    · cases h; simp
    · split at h
      · cases h; simp
      · split at h
        · cases h; simp
        · cases h

/-- **font-style, font-variant-caps, font-weight and font-stretch "can come in any order"**: permuting the
(at most four) optional leading components of a `font` value gives the same longhands, values and validity.
`tail` is the rest of the value, starting with the size. -/
theorem font_prefix_perm {α β : Type} (name : String) (familyOk : List (FontTok α) → Bool)
    (pre pre' : List (FontTok α)) (size : FontTok α) (tail : List (FontTok α))
    (validate : String → List α → R β) (hp : pre.Perm pre') (hl : pre.length ≤ 4)
    (hpre : ∀ t ∈ pre, t.isNormal = false ∧ (fontClass t).isSome = true)
    (hsize : size.isNormal = false ∧ fontClass size = none) :
    genericFill ["-style", "-variant-caps", "-weight", "-stretch", "-size", "line-height", "-family"] name .plain
        (fontRaw false familyOk (pre ++ size :: tail)) validate =
      genericFill ["-style", "-variant-caps", "-weight", "-stretch", "-size", "line-height", "-family"] name .plain
        (fontRaw false familyOk (pre' ++ size :: tail)) validate := by
  have hl' : pre'.length ≤ 4 := hp.length_eq ▸ hl
  have hpre' : ∀ t ∈ pre', t.isNormal = false ∧ (fontClass t).isSome = true :=
    fun t ht => hpre t (hp.mem_iff.mpr ht)
  have e1 := fontLoop_prefix 4 pre size tail [] hl hpre (fun _ => hsize)
  have e2 := fontLoop_prefix 4 pre' size tail [] hl' hpre' (fun _ => hsize)
  have hperm : (pre.map fontPair).Perm (pre'.map fontPair) := hp.map fontPair
  have hin : ∀ (l : List (FontTok α)), (∀ t ∈ l, t.isNormal = false ∧ (fontClass t).isSome = true) →
      ∀ n ∈ (l.map fontPair).map Prod.fst,
        n ∈ ["-style", "-variant-caps", "-weight", "-stretch", "-size", "line-height", "-family"] := by
    intro l hlc n hn
    simp only [List.map_map, List.mem_map, Function.comp] at hn
    obtain ⟨t, ht, rfl⟩ := hn
    have := (hlc t ht).2
    cases hc : fontClass t with
    | none => simp [hc] at this
    | some s => simpa [fontPair, hc] using fontClass_mem t s hc
  -- what follows the loop only appends to the items and decides the end, identically on both sides
  unfold fontRaw
  simp only [Bool.false_eq_true, if_false, e1, e2, List.nil_append]
  -- a generic step: same end, items = permuted prefix ++ common suffix
  have key : ∀ (suffix : List (String × List α)) (e : Option Fail),
      (e = none ∨ e = some .invalid) →
      (∀ n ∈ suffix.map Prod.fst,
        n ∈ ["-style", "-variant-caps", "-weight", "-stretch", "-size", "line-height", "-family"]) →
      genericFill ["-style", "-variant-caps", "-weight", "-stretch", "-size", "line-height", "-family"] name .plain
          { items := pre.map fontPair ++ suffix, ends := e } validate =
        genericFill ["-style", "-variant-caps", "-weight", "-stretch", "-size", "line-height", "-family"] name
          .plain { items := pre'.map fontPair ++ suffix, ends := e } validate := by
    intro suffix e he hsuf
    have hall : ∀ (l : List (FontTok α)), (∀ t ∈ l, t.isNormal = false ∧ (fontClass t).isSome = true) →
        ∀ n ∈ (l.map fontPair ++ suffix).map Prod.fst,
          n ∈ ["-style", "-variant-caps", "-weight", "-stretch", "-size", "line-height", "-family"] := by
      intro l hlc n hn
      simp only [List.map_append, List.mem_append] at hn
      rcases hn with hn | hn
      · exact hin l hlc n hn
      · exact hsuf n hn
    rcases he with rfl | rfl
    · exact genericFill_perm _ _ _ _ _ rfl rfl (hperm.append_right suffix) (hall pre hpre)
    · rw [genericFill_ends_invalid _ _ _ _ rfl (hall pre hpre),
        genericFill_ends_invalid _ _ _ _ rfl (hall pre' hpre')]
  cases hsz : size.isSize with
  | false => simpa [hsz] using key [] (some .invalid) (Or.inr rfl) (by simp)
  | true =>
    simp only [hsz, Bool.not_true, Bool.false_eq_true, if_false]
    match tail with
    | [] => simpa using key [("-size", [size.tok])] (some .invalid) (Or.inr rfl) (by simp)
    | t :: rest' =>
      cases hsl : t.isSlash with
      | true =>
        simp only [hsl, if_true]
        match rest' with
        | [] => simpa using key [("-size", [size.tok])] (some .invalid) (Or.inr rfl) (by simp)
        | lh :: fam =>
          cases hlh : lh.isLineHeight with
          | false => simpa [hlh] using key [("-size", [size.tok])] (some .invalid) (Or.inr rfl) (by simp)
          | true =>
            cases hf : familyOk fam with
            | false =>
              simpa [hlh, hf, List.append_assoc] using
                key [("-size", [size.tok]), ("line-height", [lh.tok])] (some .invalid) (Or.inr rfl) (by simp)
            | true =>
              simpa [hlh, hf, List.append_assoc] using
                key [("-size", [size.tok]), ("line-height", [lh.tok]), ("-family", fam.map (·.tok))] none
                  (Or.inl rfl) (by simp)
      | false =>
        simp only [hsl, Bool.false_eq_true, if_false]
        cases hf : familyOk (t :: rest') with
        | false =>
          simpa [hf, List.append_assoc] using key [("-size", [size.tok])] (some .invalid) (Or.inr rfl) (by simp)
        | true =>
          simpa [hf, List.append_assoc] using
            key [("-size", [size.tok]), ("-family", (t :: rest').map (·.tok))] none (Or.inl rfl) (by simp)

/-- `font: italic bold 12px/1.2 serif` and `font: bold italic 12px/1.2 serif`. -/
example : (fontRaw (α := String) false (fun _ => true)
    [⟨false, true, false, false, false, false, false, false, "italic"⟩,
     ⟨false, false, false, true, false, false, false, false, "bold"⟩,
     ⟨false, false, false, false, false, true, false, true, "12px"⟩,
     ⟨false, false, false, false, false, false, true, false, "/"⟩,
     ⟨false, false, false, false, false, false, false, true, "1.2"⟩,
     ⟨false, false, false, false, false, false, false, false, "serif"⟩]).items
    = [("-style", ["italic"]), ("-weight", ["bold"]), ("-size", ["12px"]), ("line-height", ["1.2"]),
       ("-family", ["serif"])] := by decide

/-! ## 16. grid-row, grid-column, grid-area -/

/-- What an omitted line defaults to: the line it is derived from if that is a lone custom identifier,
`auto` otherwise (css-grid-1 §8.4). -/
def lineDefault {α : Type} (auto : List α) (l : GridLine α) : List α := if l.custom then l.toks else auto

/-- **grid-row / grid-column**: `a` is `a / default(a)`, `a / b` is itself; 0 or 3+ parts are invalid. -/
theorem grid_column_row_lines {α : Type} (auto : List α) (a b : GridLine α) (ha : a.ok = true)
    (hb : b.ok = true) :
    gridAreaValues 2 auto [a] = ([a.toks, lineDefault auto a], none) ∧
    gridAreaValues 2 auto [a, b] = ([a.toks, b.toks], none) ∧
    (gridAreaValues 2 auto []).2 = some .invalid ∧
    ∀ c rest, (gridAreaValues 2 auto (a :: b :: c :: rest)).2 = some .invalid := by
  refine ⟨?_, ?_, ?_, ?_⟩
  · simp [gridAreaValues, gridLinesLoop, ha, lineDefault]
  · simp [gridAreaValues, gridLinesLoop, ha, hb]
  · simp [gridAreaValues]
  · intro c rest; simp [gridAreaValues]

/-- **grid-area**: row-start / column-start / row-end / column-end; an omitted column-start comes from
row-start, an omitted row-end from row-start, an omitted column-end from column-start. -/
theorem grid_area_lines {α : Type} (auto : List α) (a b c d : GridLine α) (ha : a.ok = true) (hb : b.ok = true)
    (hc : c.ok = true) (hd : d.ok = true) :
    gridAreaValues 4 auto [a] =
      ([a.toks, lineDefault auto a, lineDefault auto a, lineDefault auto a], none) ∧
    gridAreaValues 4 auto [a, b] = ([a.toks, b.toks, lineDefault auto a, lineDefault auto b], none) ∧
    gridAreaValues 4 auto [a, b, c] = ([a.toks, b.toks, c.toks, lineDefault auto b], none) ∧
    gridAreaValues 4 auto [a, b, c, d] = ([a.toks, b.toks, c.toks, d.toks], none) := by
  refine ⟨?_, ?_, ?_, ?_⟩ <;> simp [gridAreaValues, gridLinesLoop, ha, hb, hc, hd, lineDefault]

/-- A part that `grid_line` refuses makes the shorthand invalid (nothing after it is yielded). -/
theorem grid_area_bad_line {α : Type} (auto : List α) (a b : GridLine α) (ha : a.ok = true) (hb : b.ok = false) :
    gridAreaValues 4 auto [a, b] = ([a.toks], some .invalid) := by
  simp [gridAreaValues, gridLinesLoop, ha, hb]

example : (gridAreaRaw (α := String) ["auto"] [⟨true, true, ["a"]⟩, ⟨true, false, ["2"]⟩]).items =
    [("grid-row-start", ["a"]), ("grid-column-start", ["2"]), ("grid-row-end", ["a"]),
     ("grid-column-end", ["auto"])] := by decide

/-! ## 17. grid-template -/

/-- `grid-template` is accepted only as `none` or `<rows> / <columns>` with both track lists valid. -/
theorem grid_template_valid_iff {α : Type} (noneTok : List α) (parts : List (TrackPart α)) :
    (gridTemplateRaw false noneTok parts).ends = none ↔
      ∃ rows cols, parts = [rows, cols] ∧ rows.ok = true ∧ cols.ok = true := by
  match parts with
  | [] => simp [gridTemplateRaw]
  | [_] => simp [gridTemplateRaw]
  | [r, c] =>
    cases h1 : r.ok <;> cases h2 : c.ok <;> simp [gridTemplateRaw, h1, h2]
    exact ⟨r, c, ⟨rfl, rfl⟩, h1, h2⟩
  | _ :: _ :: _ :: _ => simp [gridTemplateRaw]

/-- `rows / columns`: rows before the slash, columns after, areas reset to none. -/
theorem grid_template_rows_columns {α : Type} (noneTok : List α) (r c : TrackPart α) (hr : r.ok = true)
    (hc : c.ok = true) :
    gridTemplateRaw false noneTok [r, c] =
      { items := [("-columns", c.toks), ("-rows", r.toks), ("-areas", noneTok)], ends := none } := by
  simp [gridTemplateRaw, hr, hc]

/-! ## 18. A shorthand containing var() -/

/-- The keys under which the expander's items are looked up. -/
def renamed {β : Type} (name : String) (items : List (String × β)) : List (String × β) :=
  items.map fun (k, v) => (if startsWith k "-" then name ++ k else k, v)

private theorem pev_go {β : Type} (name : String) (wanted : String) :
    ∀ (items : List (String × β)),
      pendingExpanderValidate.go name wanted items =
        match (renamed name items).lookup wanted with
        | some v => .ok v
        | none => .error .keyError
  | [] => by
    unfold pendingExpanderValidate.go
    simp only [renamed, List.map_nil, List.lookup_nil]
    rfl
  | (k, v) :: rest => by
    have ih := pev_go name wanted rest
    rw [pendingExpanderValidate.go]
    simp only [renamed, List.map_cons, List.lookup_cons] at ih ⊢
    generalize (if startsWith k "-" then name ++ k else k) = key
    by_cases hk : key = wanted
    · subst hk
      simp only [beq_self_eq_true, if_true]
      rfl
    · have h1 : (key == wanted) = false := by simp [hk]
      have h2 : (wanted == key) = false := by simp [Ne.symm hk]
      simp only [h1, h2, Bool.false_eq_true, if_false]
      exact ih

/-- **var() in a shorthand ≡ the shorthand of the substituted text, longhand by longhand** (full strength since
`fix:` f9155ce; before it the statement needed `gen.ends = none`): every longhand gets exactly what the
expansion of the substituted tokens, consumed as a whole like a literal declaration, gives it — the value it
names, `KeyError` if it names none, and the expansion's own failure if it fails anywhere. -/
theorem pending_expander {β : Type} (name : String) (gen : Raw β) (wanted : String) :
    pendingExpanderValidate name gen wanted =
      match gen.consumed with
      | .error f => .error f
      | .ok items =>
        match (renamed name items).lookup wanted with
        | some v => .ok v
        | none => .error .keyError := by
  unfold pendingExpanderValidate Raw.consumed
  cases h : gen.ends with
  | some f => rfl
  | none => simp only [pev_go]

/-- **A shorthand that is invalid after substitution is dropped as a whole**: when the literal declaration would
be refused (the expansion raises `f`, e.g. `InvalidValues` on its second component), *every* longhand of the
pending shorthand is refused the same way — none is applied in part (regression of
`var-shorthand-partially-applied`). -/
theorem pending_expander_all_or_nothing {β : Type} (name : String) (gen : Raw β) (f : Fail)
    (h : gen.ends = some f) (wanted : String) : pendingExpanderValidate name gen wanted = .error f := by
  unfold pendingExpanderValidate
  rw [h]
  rfl

/-- Whatever value a longhand gets out of a pending shorthand is one the expander yielded for it, in an
expansion that succeeded. -/
theorem pending_expander_sound {β : Type} (name : String) (gen : Raw β) (wanted : String) (v : β)
    (h : pendingExpanderValidate name gen wanted = .ok v) :
    gen.ends = none ∧ (renamed name gen.items).lookup wanted = some v := by
  rw [pending_expander] at h
  unfold Raw.consumed at h
  cases he : gen.ends with
  | some f => rw [he] at h; cases h
  | none =>
    rw [he] at h
    refine ⟨rfl, ?_⟩
    cases hl : (renamed name gen.items).lookup wanted with
    | some w => simp only [hl] at h; cases h; rfl
    | none => simp only [hl] at h; cases h

example : pendingExpanderValidate "margin"
    { items := [("margin-top", "1px"), ("margin-right", "2px")], ends := none } "margin-right" = .ok "2px" := by
  decide

/-- Regression (`margin: var(--a)` with `--a: 7px red`, repaired by f9155ce): `expand_four_sides` yields
`margin-top: 7px` and then raises `InvalidValues` on `red`; `margin-top` is now refused like the other sides. -/
example :
    pendingExpanderValidate "margin" { items := [("margin-top", "7px")], ends := some .invalid } "margin-top"
      = .error .invalid ∧
    pendingExpanderValidate (β := String) "margin" { items := [("margin-top", "7px")], ends := some .invalid }
      "margin-right" = .error .invalid := by decide

/-! ## 19b. border-image / mask-border and background (models with validator oracles) -/

/-- `add(name, value)` of `parse_layer`: a component given twice makes the layer invalid; `None` adds nothing. -/
theorem bg_add_spec (res : BgResults) (name : String) (v : String) :
    bgAdd res name none = some (res, false) ∧
    ((res.lookup ("background-" ++ name)).isSome = true → bgAdd res name (some v) = none) ∧
    ((res.lookup ("background-" ++ name)).isSome = false →
      bgAdd res name (some v) = some (res ++ [("background-" ++ name, v)], true)) := by
  refine ⟨rfl, ?_, ?_⟩ <;> intro h <;> simp [bgAdd, h]

/-- `border-image: url(a) 10 / 2px / 1 1 round`: source, slice / width / outset, repeat. -/
example : (borderImageRaw
    { n := 8, sourceOk := fun i => i == 0, modeOk := fun _ => false, repeatOk := fun i => i == 7,
      isFill := fun _ => false, isSlash := fun i => i == 2 || i == 4,
      sliceOk := fun i j => i == 1 && j == 2, widthOk := fun i j => i == 3 && j == 4,
      outsetOk := fun i j => i == 5 && (j == 6 || j == 7) } false).items
    = [("-source", ["t0"]), ("-slice", ["t1"]), ("-width", ["t3"]), ("-outset", ["t5", "t6"]),
       ("-repeat", ["t7"])] := by decide

private def exLayer1 : BgOracle where
  n := 2
  repeatFirst := fun _ => none
  repeatOne := fun i => if i == 1 then some "nr" else none
  color := fun _ => none
  image := fun i => if i == 0 then some "img" else none
  attachment := fun _ => none
  position := fun _ _ => none
  size := fun _ _ => none
  box := fun _ => none
  isSlash := fun _ => false

private def exLayer2 : BgOracle where
  n := 1
  repeatFirst := fun _ => none
  repeatOne := fun _ => none
  color := fun _ => some "red"
  image := fun _ => none
  attachment := fun _ => none
  position := fun _ _ => none
  size := fun _ _ => none
  box := fun _ => none
  isSlash := fun _ => false

/-- `background: url(a) no-repeat, red`: two layers, the colour only in the last one. -/
example :
    (backgroundExpand [exLayer1, exLayer2] (fun n => "init:" ++ n)).map (·.2) = some "red" ∧
    ((backgroundExpand [exLayer1, exLayer2] (fun n => "init:" ++ n)).map fun r => r.1.lookup "background-image")
      = some (some ["img", "init:background-image"]) := by decide

end Wp.C07
