/-
C10 — the min-content width of a table cell covers every child that is not absolutely positioned,
floats included (`Model/TableCellWidth.lean` ↔ `table_cell_min_content_width` /
`table_cell_min_max_content_width` of `weasyprint/layout/preferred.py`).  Together with
`C10Pref` (columns cover their cells' min-content widths) and `auto_ge_min` this is the clause "auto
layout keeps every column at least as wide as its widest unbreakable content" for content that is a
float.  Correspondence: sections `cellwidth-direct` and `doc-cell-widths` of `py/props/c10.py`.
-/
import WpModel.Model.TableCellWidth
import WpModel.Props.C10Pref
import Mathlib.Tactic.Linarith

namespace Wp.C10CellWidth
open Wp Wp.Table Wp.TableCellWidth

private theorem le_maxR_left (a b : Rat) : a ≤ maxR a b := by
  unfold maxR; split <;> linarith

private theorem le_maxR_right (a b : Rat) : b ≤ maxR a b := by
  unfold maxR; split <;> linarith

private theorem le_foldl_maxR (l : List Rat) (a : Rat) : a ≤ l.foldl maxR a := by
  induction l generalizing a with
  | nil => exact le_refl _
  | cons x xs ih => exact le_trans (le_maxR_left a x) (ih _)

private theorem mem_le_foldl_maxR (l : List Rat) (a x : Rat) (hx : x ∈ l) : x ≤ l.foldl maxR a := by
  induction l generalizing a with
  | nil => cases hx
  | cons y ys ih =>
    rcases List.mem_cons.mp hx with rfl | h
    · exact le_trans (le_maxR_right a x) (le_foldl_maxR ys _)
    · exact ih _ h

/-- `max(xs) if xs else 0` is an upper bound of `xs`. -/
theorem le_maxOr0 (l : List Rat) (x : Rat) (hx : x ∈ l) : x ≤ maxOr0 l := by
  cases l with
  | nil => cases hx
  | cons y ys =>
    rcases List.mem_cons.mp hx with rfl | h
    · exact le_foldl_maxR ys x
    · exact mem_le_foldl_maxR ys y x h

/-- `min_max` never goes below its argument unless `max-width` does. -/
theorem le_minMax (b : CellBox) (w : Rat) (hmax : ∀ m, b.maxWidth = some m → w ≤ m) : w ≤ minMax b w := by
  unfold minMax
  apply le_trans _ (le_maxR_right _ _)
  cases hm : b.maxWidth with
  | none => exact le_refl _
  | some m =>
    simp only
    unfold minR
    split
    · exact hmax m hm
    · exact le_refl _

/-- **cell_min_covers.**  The (content-box) min-content width of a cell is at least the min-content
width of every child that is not absolutely positioned — in normal flow, **floated**, or running —
unless the cell's own px `max-width` is smaller than that. -/
theorem cell_min_covers (b : CellBox) (c : Child) (hc : c ∈ b.children) (hpos : c.pos ≠ .absolute)
    (hmax : ∀ m, b.maxWidth = some m → maxOr0 ((b.children.filter counts).map (·.minW)) ≤ m) :
    c.minW ≤ cellMin b false := by
  unfold cellMin adjust
  simp only [Bool.false_eq_true, if_false]
  apply le_trans _ (le_minMax b _ hmax)
  apply le_maxOr0
  rw [List.mem_map]
  exact ⟨c, List.mem_filter.mpr ⟨hc, by simp [counts, hpos]⟩, rfl⟩

/-- The instance the seeded change C10-5 broke: a floated child. -/
theorem cell_min_covers_float (b : CellBox) (c : Child) (hc : c ∈ b.children) (hpos : c.pos = .floated)
    (hmax : b.maxWidth = none) : c.minW ≤ cellMin b false :=
  cell_min_covers b c hc (by rw [hpos]; decide) (by intro m hm; rw [hmax] at hm; cases hm)

/-- The max-content width is at least the min-content width. -/
theorem cell_max_ge_min (b : CellBox) (outer : Bool) : (cellMinMax b outer).1 ≤ (cellMinMax b outer).2 :=
  le_maxR_left _ _

/-- Absolutely positioned children contribute nothing. -/
theorem abs_children_ignored (b : CellBox) (outer : Bool) :
    cellMinMax { b with children := b.children.filter counts } outer = cellMinMax b outer := by
  unfold cellMinMax cellMin blockMax adjust minMax marginWidth
  simp only [List.filter_filter, Bool.and_self]

/-- With non-negative margins, paddings and borders and percentages below 100 the outer width is at
least the inner one. -/
theorem outer_ge_inner (b : CellBox) (w : Rat) (hw : 0 ≤ w)
    (hpx : 0 ≤ pxPart b.marginL + pxPart b.padL + pxPart b.marginR + pxPart b.padR + b.borL + b.borR)
    (hp0 : 0 ≤ pctPart b.marginL + pctPart b.padL + pctPart b.marginR + pctPart b.padR)
    (hp : pctPart b.marginL + pctPart b.padL + pctPart b.marginR + pctPart b.padR < 100) :
    w ≤ marginWidth b w := by
  unfold marginWidth
  simp only [hp, if_true]
  have hden : 0 < 1 - (pctPart b.marginL + pctPart b.padL + pctPart b.marginR + pctPart b.padR) / 100 := by
    linarith
  have hden1 : 1 - (pctPart b.marginL + pctPart b.padL + pctPart b.marginR + pctPart b.padR) / 100 ≤ 1 := by
    linarith
  rw [le_div_iff₀ hden]
  nlinarith

/-- The outer min-content width is the margin width of the inner one. -/
theorem cellMin_outer (b : CellBox) : cellMin b true = marginWidth b (cellMin b false) := by
  simp [cellMin, adjust]

/-- **auto_column_covers_float.**  End to end, from the children of a cell to the laid-out column:
take a non-spanning cell of column `i` whose intrinsic width is what `table_cell_min_max_content_width`
computes from its children (`hbox`), the preferred-width tuple `table_and_columns_preferred_widths`
derives from all cells, and the column widths `auto_table_layout` derives from that tuple.  Then column
`i`, minus the cell's own px paddings, margins and borders, is at least as wide as every floated child of
the cell: **a float never overflows its cell into the neighbouring column** (what the seeded change
C10-5 broke).  Hypotheses: those of `auto_ge_min_partial` (well-formed widths, `Σ min ≤ assignable`, clean
1e-9 band), no `max-width` on the cell, no percentage paddings. -/
theorem auto_column_covers_float (inp : TablePref.PrefIn) (o : TablePref.PrefOut)
    (h : TablePref.preferredWidths inp = .ok o)
    (a : Rat) (cols : List ACol) (cw : List Rat) (br : String)
    (hcols : guess0 cols = o.mins)
    (hauto : autoColumns a cols = .ok (cw, br)) (hwf : C10.WfCols cols)
    (hmin : sumR (guess0 cols) ≤ a) (ha : 0 ≤ a) (hband : C10.CleanBand a cols)
    (i : Nat) (hi : i < TablePref.gridWidth inp.rows) (hlen : o.mins.length = TablePref.gridWidth inp.rows)
    (c : TablePref.PCell) (hc : c ∈ TablePref.colCells inp.rows i) (h1 : c.colspan = 1)
    (cell : CellBox) (hbox : c.box.minW = (cellMinMax cell true).1)
    (k : Child) (hk : k ∈ cell.children) (hfloat : k.pos = .floated) (hmax : cell.maxWidth = none)
    (hpct : pctPart cell.marginL + pctPart cell.padL + pctPart cell.marginR + pctPart cell.padR = 0) :
    k.minW + (pxPart cell.marginL + pxPart cell.padL + pxPart cell.marginR + pxPart cell.padR
              + cell.borL + cell.borR) ≤ TablePref.nth cw i := by
  have hcol := C10.Pref.auto_column_covers_cells inp o h a cols cw br hcols hauto hwf hmin ha hband i hi hlen c hc h1
  have hin := cell_min_covers_float cell k hk hfloat hmax
  have hout : (cellMinMax cell true).1 = cellMin cell false +
      (pxPart cell.marginL + pxPart cell.padL + pxPart cell.marginR + pxPart cell.padR) + cell.borL + cell.borR := by
    show cellMin cell true = _
    rw [cellMin_outer]
    unfold marginWidth
    simp only [hpct]
    norm_num
  rw [hbox, hout] at hcol
  linarith

/-- Non-vacuity: a cell holding the word `ab` (16px) and a 40px float is at least 40px wide; an
absolutely positioned 99px child does not count. -/
example : cellMinMax ⟨[⟨16, 16, .normal⟩, ⟨40, 40, .floated⟩, ⟨99, 99, .absolute⟩], .auto, 0, none,
    .px 0, .px 0, .px 2, .px 2, 1, 1⟩ false = (40, 40) ∧
  cellMinMax ⟨[⟨16, 16, .normal⟩, ⟨40, 40, .floated⟩, ⟨99, 99, .absolute⟩], .auto, 0, none,
    .px 0, .px 0, .px 2, .px 2, 1, 1⟩ true = (46, 46) := by
  constructor <;> decide +kernel

end Wp.C10CellWidth
