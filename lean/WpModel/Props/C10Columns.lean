/-
C10 — the boxes of `<col>` and `<colgroup>` (`Model/TableColumns.lean` ↔ "Layout column groups and
columns" of `table_layout`): a column box is its column; in a left-to-right table a column group covers
exactly its columns and the spacings between them; in a right-to-left table the code computes
`last.position_x + last.width - first.position_x` with `first` the *rightmost* column, which is never
positive for a group of two or more columns (finding `rtl-column-group-negative-width`).
Correspondence: section `doc-columns` of `py/props/c10.py`.
-/
import WpModel.Props.C10
import WpModel.Model.TableColumns
import Mathlib.Tactic.Linarith
import Mathlib.Tactic.Ring

namespace Wp.C10Columns
open Wp Wp.Table Wp.TableColumns Wp.C10

/-- `grid_x` of the columns of a group of `k` consecutive columns starting at column `g`. -/
def span : Nat → Nat → List Nat
  | _, 0 => []
  | g, k + 1 => g :: span (g + 1) k

private theorem span_head (g k : Nat) : (span g (k + 1)).head? = some g := rfl

private theorem span_getLast (g k : Nat) : (span g (k + 1)).getLast? = some (g + k) := by
  induction k generalizing g with
  | zero => rfl
  | succ k ih =>
    show (g :: (g + 1) :: span (g + 2) k).getLast? = some (g + (k + 1))
    rw [List.getLast?_cons_cons, show (g + 1) :: span (g + 2) k = span (g + 1) (k + 1) from rfl, ih (g + 1)]
    congr 1
    omega

private theorem span_mem (g k j : Nat) (hj : j ∈ span g k) : g ≤ j ∧ j < g + k := by
  induction k generalizing g with
  | zero => cases hj
  | succ k ih =>
    rcases List.mem_cons.mp hj with rfl | h
    · omega
    · have := ih (g + 1) h; omega

/-- The closed form of the position of column `i` (`C10.columns_partition`). -/
def colX (ltr : Bool) (x W s : Rat) (cw : List Rat) (i : Nat) : Rat :=
  if ltr then x + ((i : Rat) + 1) * s + sumR (cw.take i)
  else x + W - ((i : Rat) + 1) * s - sumR (cw.take i) - cw.getD i 0

/-- **column_box_is_its_column.**  The box of a `<col>` whose `grid_x` is inside the grid starts at its
column's position, is as wide as its column, and spans the rows' height. -/
theorem column_box_is_its_column (ltr : Bool) (x W s : Rat) (cw : List Rat) (y0 h : Rat) (i : Nat)
    (hi : i < cw.length) :
    columnBox (colPositions ltr x W s cw).positions cw y0 h i =
      .ok ⟨colX ltr x W s cw i, y0, cw.getD i 0, h⟩ := by
  obtain ⟨hlen, hpos⟩ := columns_partition ltr x W s cw
  unfold columnBox
  rw [hlen, if_pos hi, hpos i hi, List.getElem?_eq_getElem hi]
  have hd : cw.getD i 0 = cw[i] := by simp [List.getD, List.getElem?_eq_getElem hi]
  simp only [colX, hd]

/-- A `<col>` beyond the grid ("extra empty columns") is an empty box at the origin. -/
theorem column_box_beyond (pos cw : List Rat) (y0 h : Rat) (i : Nat) (hi : pos.length ≤ i) :
    columnBox pos cw y0 h i = .ok ⟨0, 0, 0, 0⟩ := by
  unfold columnBox
  rw [if_neg (by omega)]

private theorem allOk_map (l : List Nat) (f : Nat → Except PyErr Box4) (g : Nat → Box4)
    (h : ∀ a ∈ l, f a = .ok (g a)) : allOk (l.map f) = .ok (l.map g) := by
  induction l with
  | nil => rfl
  | cons a as ih =>
    simp only [List.map_cons]
    rw [h a List.mem_cons_self]
    unfold allOk
    rw [ih (fun b hb => h b (List.mem_cons_of_mem _ hb))]

/-- The box of a group of `k + 1` consecutive columns `g … g + k` inside the grid. -/
theorem group_box (ltr : Bool) (x W s : Rat) (cw : List Rat) (y0 h : Rat) (g k : Nat)
    (hin : g + k < cw.length) :
    (layoutGroup (colPositions ltr x W s cw).positions cw y0 h (span g (k + 1))).map (·.2) =
      .ok ⟨colX ltr x W s cw g, y0,
           colX ltr x W s cw (g + k) + cw.getD (g + k) 0 - colX ltr x W s cw g, h⟩ := by
  unfold layoutGroup
  rw [allOk_map (span g (k + 1)) _ (fun i => ⟨colX ltr x W s cw i, y0, cw.getD i 0, h⟩)
    (fun a ha => column_box_is_its_column ltr x W s cw y0 h a (by have := span_mem g (k + 1) a ha; omega))]
  unfold groupBox
  simp only [List.head?_map, List.getLast?_map, span_head, span_getLast, Option.map_some]
  rfl

private theorem sumR_take_mono (cw : List Rat) (hnn : ∀ w ∈ cw, 0 ≤ w) (a b : Nat) (hab : a ≤ b) :
    sumR (cw.take a) ≤ sumR (cw.take b) := by
  induction cw generalizing a b with
  | nil => simp
  | cons w ws ih =>
    cases a with
    | zero =>
      simp only [List.take_zero]
      have : ∀ (l : List Rat), (∀ v ∈ l, 0 ≤ v) → 0 ≤ sumR l := by
        intro l hl
        induction l with
        | nil => simp [sumR]
        | cons v vs ihv =>
          simp only [sumR]
          have := hl v List.mem_cons_self
          have := ihv (fun u hu => hl u (List.mem_cons_of_mem _ hu))
          linarith
      simpa [sumR] using this ((w :: ws).take b) (fun v hv => hnn v (List.mem_of_mem_take hv))
    | succ a =>
      cases b with
      | zero => omega
      | succ b =>
        simp only [List.take_succ_cons, sumR]
        have := ih (fun v hv => hnn v (List.mem_cons_of_mem _ hv)) a b (by omega)
        linarith

/-- **group_extent_ltr.**  Left to right, the box of a column group starts where its first column
starts and is `Σ widths of its columns + (k − 1) spacings` wide: it covers exactly its columns, and its
width is not negative. -/
theorem group_extent_ltr (x W s : Rat) (cw : List Rat) (g k : Nat) (hin : g + k < cw.length)
    (hnn : ∀ w ∈ cw, 0 ≤ w) (hs : 0 ≤ s) :
    colX true x W s cw (g + k) + cw.getD (g + k) 0 - colX true x W s cw g =
      sumR (cw.take (g + k + 1)) - sumR (cw.take g) + (k : Rat) * s ∧
    0 ≤ colX true x W s cw (g + k) + cw.getD (g + k) 0 - colX true x W s cw g := by
  have hd : cw.getD (g + k) 0 = cw[g + k] := by simp [List.getD, List.getElem?_eq_getElem hin]
  have hsucc := sumR_take_succ cw (g + k) hin
  have hmono := sumR_take_mono cw hnn g (g + k + 1) (by omega)
  have hk : (0 : Rat) ≤ (k : Rat) * s := mul_nonneg (by exact_mod_cast Nat.zero_le k) hs
  constructor
  · simp only [colX, if_true, hd, hsucc]
    push_cast
    ring
  · have : colX true x W s cw (g + k) + cw.getD (g + k) 0 - colX true x W s cw g =
        sumR (cw.take (g + k + 1)) - sumR (cw.take g) + (k : Rat) * s := by
      simp only [colX, if_true, hd, hsucc]
      push_cast
      ring
    rw [this]
    linarith

/-- **group_extent_rtl_nonpos.**  Right to left, `first` is the rightmost column of the group and the
code's `last.position_x + last.width - first.position_x` is *minus* what lies between the left edge of
the first and the right edge of the last column: `−(k·s + Σ widths of the columns strictly between)`,
never positive (`k + 1` = number of columns of the group; `0` only for a single column, or without
spacing and inner width). -/
theorem group_extent_rtl_nonpos (x W s : Rat) (cw : List Rat) (g k : Nat) (hin : g + k < cw.length)
    (hnn : ∀ w ∈ cw, 0 ≤ w) (hs : 0 ≤ s) (hk : 0 < k) :
    colX false x W s cw (g + k) + cw.getD (g + k) 0 - colX false x W s cw g =
      -((k : Rat) * s + (sumR (cw.take (g + k)) - sumR (cw.take (g + 1)))) ∧
    colX false x W s cw (g + k) + cw.getD (g + k) 0 - colX false x W s cw g ≤ 0 := by
  have hg : g < cw.length := by omega
  have hd : cw.getD g 0 = cw[g] := by simp [List.getD, List.getElem?_eq_getElem hg]
  have hsucc := sumR_take_succ cw g hg
  have hmono := sumR_take_mono cw hnn (g + 1) (g + k) (by omega)
  have hks : (0 : Rat) ≤ (k : Rat) * s := mul_nonneg (by exact_mod_cast Nat.zero_le k) hs
  have heq : colX false x W s cw (g + k) + cw.getD (g + k) 0 - colX false x W s cw g =
      -((k : Rat) * s + (sumR (cw.take (g + k)) - sumR (cw.take (g + 1)))) := by
    simp only [colX, Bool.false_eq_true, if_false, hd, hsucc]
    push_cast
    ring
  exact ⟨heq, by rw [heq]; linarith⟩

/-- Non-vacuity (and the input of the witness): widths 20, 30, 42, spacing 2, table 100 wide at x = 0, a
group of the first two columns: left to right it is the box x = 2, width 52; right to left x = 78,
width −2. -/
example :
    (layoutGroup (colPositions true 0 100 2 [20, 30, 42]).positions [20, 30, 42] 2 10 (span 0 2)).map (·.2) =
      .ok ⟨2, 2, 52, 10⟩ ∧
    (layoutGroup (colPositions false 0 100 2 [20, 30, 42]).positions [20, 30, 42] 2 10 (span 0 2)).map (·.2) =
      .ok ⟨78, 2, -2, 10⟩ := by
  constructor <;> decide +kernel

end Wp.C10Columns
