/-
C14 — crop and cross marks (`Model/PageMarks.lean`, mirror of the SVG of `draw_background`): where they are.
Coordinates: origin at the top-left corner of the bleed area, `width × height` its size; the page box is
`[bleed-left, width − bleed-right] × [bleed-top, height − bleed-bottom]`.
-/
import WpModel.Model.PageMarks

namespace Wp.C14
open Wp Wp.PageMarks Wp.PdfBoxes

/-- The eight crop marks, transforms applied: two per corner, on the lines of the four edges of the page box, each
half as long as the bleed of the side it lies in, starting at the outer edge of the bleed area. -/
theorem crop_marks_eq (w h : Rat) (b : Bleed) :
    cropMarks w h b =
      [ ⟨0, b.top, b.left / 2, b.top⟩, ⟨w, b.top, w - b.right / 2, b.top⟩,
        ⟨w, h - b.bottom, w - b.right / 2, h - b.bottom⟩, ⟨0, h - b.bottom, b.left / 2, h - b.bottom⟩,
        ⟨b.left, 0, b.left, b.top / 2⟩, ⟨w - b.right, h, w - b.right, h - b.bottom / 2⟩,
        ⟨b.left, h, b.left, h - b.bottom / 2⟩, ⟨w - b.right, 0, w - b.right, b.top / 2⟩ ] := by
  simp only [cropMarks, seg, applyChain, List.foldr_cons, List.foldr_nil, Tr.apply, List.cons.injEq, Seg.mk.injEq,
    and_true]
  refine ⟨⟨?_, ?_, ?_, ?_⟩, ⟨?_, ?_, ?_, ?_⟩, ⟨?_, ?_, ?_, ?_⟩, ⟨?_, ?_, ?_, ?_⟩, ⟨?_, ?_, ?_, ?_⟩, ⟨?_, ?_, ?_, ?_⟩,
    ⟨?_, ?_, ?_, ?_⟩, ⟨?_, ?_, ?_, ?_⟩⟩ <;> grind

/-- A segment lies on the extension of an edge of the page box, outside the page box and inside the bleed area. -/
def OnEdgeOutside (w h : Rat) (b : Bleed) (s : Seg) : Prop :=
  (s.y0 = s.y1 ∧ (s.y0 = b.top ∨ s.y0 = h - b.bottom) ∧
    ((0 ≤ min s.x0 s.x1 ∧ max s.x0 s.x1 ≤ b.left) ∨ (w - b.right ≤ min s.x0 s.x1 ∧ max s.x0 s.x1 ≤ w))) ∨
  (s.x0 = s.x1 ∧ (s.x0 = b.left ∨ s.x0 = w - b.right) ∧
    ((0 ≤ min s.y0 s.y1 ∧ max s.y0 s.y1 ≤ b.top) ∨ (h - b.bottom ≤ min s.y0 s.y1 ∧ max s.y0 s.y1 ≤ h)))

/-- **css-page-3 `marks: crop`: every crop mark shows where to cut** — it lies on the extension of an edge of the page
box, outside the page box, inside the bleed area, for every sheet and all non-negative bleeds. -/
theorem crop_marks_outside_page_box (w h : Rat) (b : Bleed)
    (hb : 0 ≤ b.top ∧ 0 ≤ b.right ∧ 0 ≤ b.bottom ∧ 0 ≤ b.left) : ∀ s ∈ cropMarks w h b, OnEdgeOutside w h b s := by
  obtain ⟨h1, h2, h3, h4⟩ := hb
  intro s hs
  rw [crop_marks_eq] at hs
  simp only [List.mem_cons, List.not_mem_nil, or_false] at hs
  rcases hs with rfl | rfl | rfl | rfl | rfl | rfl | rfl | rfl
  all_goals unfold OnEdgeOutside
  · left; refine ⟨rfl, Or.inl rfl, Or.inl ?_⟩; simp only [Rat.min_def, Rat.max_def]; constructor <;> split <;> grind
  · left; refine ⟨rfl, Or.inl rfl, Or.inr ?_⟩; simp only [Rat.min_def, Rat.max_def]; constructor <;> split <;> grind
  · left; refine ⟨rfl, Or.inr rfl, Or.inr ?_⟩; simp only [Rat.min_def, Rat.max_def]; constructor <;> split <;> grind
  · left; refine ⟨rfl, Or.inr rfl, Or.inl ?_⟩; simp only [Rat.min_def, Rat.max_def]; constructor <;> split <;> grind
  · right; refine ⟨rfl, Or.inl rfl, Or.inl ?_⟩; simp only [Rat.min_def, Rat.max_def]; constructor <;> split <;> grind
  · right; refine ⟨rfl, Or.inr rfl, Or.inr ?_⟩; simp only [Rat.min_def, Rat.max_def]; constructor <;> split <;> grind
  · right; refine ⟨rfl, Or.inl rfl, Or.inr ?_⟩; simp only [Rat.min_def, Rat.max_def]; constructor <;> split <;> grind
  · right; refine ⟨rfl, Or.inr rfl, Or.inl ?_⟩; simp only [Rat.min_def, Rat.max_def]; constructor <;> split <;> grind

/-- The four circles of the cross marks: centred on the middle of the bleed area's sides, a quarter of the side's
bleed away from the outer edge, radius an eighth of it. -/
theorem cross_circles_eq (w h : Rat) (b : Bleed) :
    crossCircles w h b =
      [ ⟨w / 2, b.top / 4, b.top / 8⟩, ⟨w / 2, h - b.bottom / 4, b.bottom / 8⟩,
        ⟨b.left / 4, h / 2, b.left / 8⟩, ⟨w - b.right / 4, h / 2, b.right / 8⟩ ] := by
  have hhalf : ¬ ((1 : Rat) / 2 < 0) := by decide +kernel
  simp only [crossCircles, circ, applyChain, List.foldr_cons, List.foldr_nil, Tr.apply, radiusFactor, List.foldl_cons,
    List.foldl_nil, hhalf, ↓reduceIte, List.cons.injEq, Circ.mk.injEq, and_true]
  refine ⟨⟨?_, ?_, ?_⟩, ⟨?_, ?_, ?_⟩, ⟨?_, ?_, ?_⟩, ⟨?_, ?_, ?_⟩⟩ <;> grind

/-- Every cross-mark circle lies inside the bleed strip of its side (non-negative bleeds, a sheet at least as large
as its bleeds). -/
theorem cross_circles_in_strips (w h : Rat) (b : Bleed)
    (hb : 0 ≤ b.top ∧ 0 ≤ b.right ∧ 0 ≤ b.bottom ∧ 0 ≤ b.left) :
    ∀ c ∈ crossCircles w h b,
      (0 ≤ c.cy - c.r ∧ c.cy + c.r ≤ b.top) ∨ (h - b.bottom ≤ c.cy - c.r ∧ c.cy + c.r ≤ h) ∨
      (0 ≤ c.cx - c.r ∧ c.cx + c.r ≤ b.left) ∨ (w - b.right ≤ c.cx - c.r ∧ c.cx + c.r ≤ w) := by
  obtain ⟨h1, h2, h3, h4⟩ := hb
  intro c hc
  rw [cross_circles_eq] at hc
  simp only [List.mem_cons, List.not_mem_nil, or_false] at hc
  rcases hc with rfl | rfl | rfl | rfl
  · left; constructor <;> grind
  · right; left; constructor <;> grind
  · right; right; left; constructor <;> grind
  · right; right; right; constructor <;> grind

/-- The eight lines of the cross marks, transforms applied (per side: the line along the side, then the one across). -/
theorem cross_lines_eq (w h : Rat) (b : Bleed) :
    crossLines w h b =
      [ ⟨w / 2 - b.top / 4, b.top / 4, w / 2 + b.top / 4, b.top / 4⟩, ⟨w / 2, 0, w / 2, b.top / 2⟩,
        ⟨w / 2 - b.bottom / 4, h - b.bottom / 4, w / 2 + b.bottom / 4, h - b.bottom / 4⟩, ⟨w / 2, h, w / 2, h - b.bottom / 2⟩,
        ⟨b.left / 4, h / 2 - b.left / 4, b.left / 4, h / 2 + b.left / 4⟩, ⟨0, h / 2, b.left / 2, h / 2⟩,
        ⟨w - b.right / 4, h / 2 - b.right / 4, w - b.right / 4, h / 2 + b.right / 4⟩, ⟨w, h / 2, w - b.right / 2, h / 2⟩ ] := by
  simp only [crossLines, seg, applyChain, List.foldr_cons, List.foldr_nil, Tr.apply, List.cons.injEq, Seg.mk.injEq,
    and_true]
  refine ⟨⟨?_, ?_, ?_, ?_⟩, ⟨?_, ?_, ?_, ?_⟩, ⟨?_, ?_, ?_, ?_⟩, ⟨?_, ?_, ?_, ?_⟩, ⟨?_, ?_, ?_, ?_⟩, ⟨?_, ?_, ?_, ?_⟩,
    ⟨?_, ?_, ?_, ?_⟩, ⟨?_, ?_, ?_, ?_⟩⟩ <;> grind

/-- A horizontal and a vertical segment that cross at `(cx, cy)`, each with its middle there. -/
def CrossAt (s1 s2 : Seg) (cx cy : Rat) : Prop :=
  (s1.y0 = s1.y1 ∧ s2.x0 = s2.x1 ∧ s2.x0 = cx ∧ s1.y0 = cy ∧ s1.x0 + s1.x1 = 2 * cx ∧ s2.y0 + s2.y1 = 2 * cy) ∨
  (s1.x0 = s1.x1 ∧ s2.y0 = s2.y1 ∧ s1.x0 = cx ∧ s2.y0 = cy ∧ s2.x0 + s2.x1 = 2 * cx ∧ s1.y0 + s1.y1 = 2 * cy)

/-- **Each cross mark is a cross in a circle**: the two lines of a side are perpendicular, both have their middle at
the centre of that side's circle, and (`cross_circles_in_strips`) the circle lies in the side's bleed strip. -/
theorem cross_marks_concentric (w h : Rat) (b : Bleed) :
    ∀ k (hk : k < 4), ∃ s1 s2 c, (crossLines w h b)[2 * k]? = some s1 ∧ (crossLines w h b)[2 * k + 1]? = some s2 ∧
      (crossCircles w h b)[k]? = some c ∧ CrossAt s1 s2 c.cx c.cy := by
  intro k hk
  rw [cross_lines_eq, cross_circles_eq]
  have : k = 0 ∨ k = 1 ∨ k = 2 ∨ k = 3 := by omega
  rcases this with rfl | rfl | rfl | rfl
  · exact ⟨_, _, _, rfl, rfl, rfl, Or.inl ⟨rfl, rfl, rfl, rfl, by grind, by grind⟩⟩
  · exact ⟨_, _, _, rfl, rfl, rfl, Or.inl ⟨rfl, rfl, rfl, rfl, by grind, by grind⟩⟩
  · exact ⟨_, _, _, rfl, rfl, rfl, Or.inr ⟨rfl, rfl, rfl, rfl, by grind, by grind⟩⟩
  · exact ⟨_, _, _, rfl, rfl, rfl, Or.inr ⟨rfl, rfl, rfl, rfl, by grind, by grind⟩⟩

/-- Without `marks` nothing is drawn; `crop` alone draws exactly the eight crop marks and no circle. -/
theorem marks_none_and_crop (w h : Rat) (b : Bleed) :
    marksOf false false w h b = ([], []) ∧ marksOf true false w h b = (cropMarks w h b, []) ∧
    (marksOf true false w h b).1.length = 8 ∧ (marksOf false true w h b).2.length = 4 := by
  simp [marksOf, cropMarks, crossCircles]

/-- Non-vacuity: a 200 × 100 page with bleeds 10 / 4 / 6 / 8 (top / right / bottom / left). -/
example : cropMarks 212 116 ⟨10, 4, 6, 8⟩ =
    [⟨0, 10, 4, 10⟩, ⟨212, 10, 210, 10⟩, ⟨212, 110, 210, 110⟩, ⟨0, 110, 4, 110⟩,
     ⟨8, 0, 8, 5⟩, ⟨208, 116, 208, 113⟩, ⟨8, 116, 8, 113⟩, ⟨208, 0, 208, 5⟩] := by decide +kernel

end Wp.C14
