/-
C20 — "each resource is fetched once": the clause the harness judges on sampled request sequences (`judge_images`:
"fetched again although (URL, orientation, image options) was already loaded or failed"), for all sequences of the model.
Entries of the image cache persist, a call that returns caches its answer, so a later request with the same key —
any number of other requests in between, under any fetcher — is answered without any fetch event.
-/
import WpModel.Model.ResourcesDoc
import WpModel.Props.C20

namespace Wp.C20.Once
open Wp Wp.Res

private theorem find_cons (c : Cache) (k k' : String) (v : Option Img) :
    Cache.find? ((k, v) :: c) k' = if k == k' then some v else c.find? k' := by
  simp [Cache.find?]

/-- `get_image_from_uri` never removes or overwrites an entry of the cache. -/
theorem getImage_keeps_entries (cache : Cache) (f : Fetcher) (o : Opts) (req : Req) (k : String) (v : Option Img)
    (h : cache.find? k = some v) : (getImage cache f o req).1.find? k = some v := by
  cases hc : cache.find? (req.key o) with
  | some w => rw [image_cache_hit cache f o req w hc]; exact h
  | none =>
    have hne : (req.key o == k) = false := by
      cases hk : (req.key o == k) with
      | false => rfl
      | true =>
        have : req.key o = k := by simpa using hk
        rw [this, h] at hc; cases hc
    unfold getImage
    simp only [hc]
    cases hfe : fetch (f req.url) req.url (imageBody req) with
    | mk evs fetched =>
      cases fetched with
      | error e =>
        simp only
        cases hcls : (e.isUrlFetching || e.isImageLoading) <;> simp [find_cons, hne, h]
      | ok t =>
        obtain ⟨fn, content, mime⟩ := t
        simp only
        cases hd : decideImage req o fn content mime with
        | ok img => simp [find_cons, hne, h]
        | error e =>
          simp only
          cases hcls : (e.isUrlFetching || e.isImageLoading) <;> simp [find_cons, hne, h]

/-- On a miss the events of the call are those of the fetch. -/
private theorem getImage_miss_events (c : Cache) (f : Fetcher) (o : Opts) (req : Req)
    (hf : c.find? (req.key o) = none) :
    (getImage c f o req).2.1 = (fetch (f req.url) req.url (imageBody req)).1 := by
  unfold getImage
  simp only [hf]
  cases hfe : fetch (f req.url) req.url (imageBody req) with
  | mk evs fetched =>
    cases fetched with
    | error e => simp only; cases hcls : (e.isUrlFetching || e.isImageLoading) <;> simp
    | ok t =>
      obtain ⟨fn, content, mime⟩ := t
      simp only
      cases hd : decideImage req o fn content mime with
      | ok img => simp
      | error e => simp only; cases hcls : (e.isUrlFetching || e.isImageLoading) <;> simp

/-- A call that returns (an image, or `None` for a failure that is absorbed) leaves its answer in the cache under the
key of the request. -/
theorem getImage_ok_caches (cache : Cache) (f : Fetcher) (o : Opts) (req : Req) (v : Option Img)
    (h : (getImage cache f o req).2.2 = .ok v) : (getImage cache f o req).1.find? (req.key o) = some v := by
  cases hf : (getImage cache f o req).1.find? (req.key o) with
  | some w =>
    have h1 := image_cache_hit _ f o req w hf
    have h2 := image_fetched_at_most_once cache f o req v h
    rw [h1] at h2
    have : (Except.ok w : Except Exc (Option Img)) = .ok v := (Prod.mk.inj (Prod.mk.inj h2).2).2
    cases this; rfl
  | none =>
    -- a miss makes a fetch event; but the second call is silent
    have h2 := image_fetched_at_most_once cache f o req v h
    have hcalls := (fetch_funnel_one_call (f req.url) req.url (imageBody req)).2
    have hev := getImage_miss_events (getImage cache f o req).1 f o req hf
    rw [h2] at hev
    simp only at hev
    rw [← hev] at hcalls
    simp at hcalls

/-- … nor does any sequence of calls sharing the cache. -/
theorem runImages_keeps_entries (f : Fetcher) (reqs : List (Opts × Req)) (cache : Cache) (k : String) (v : Option Img)
    (h : cache.find? k = some v) : (runImages f cache reqs).2.find? k = some v := by
  induction reqs generalizing cache with
  | nil => exact h
  | cons r rest ih =>
    obtain ⟨o, req⟩ := r
    simp only [runImages]
    exact ih _ (getImage_keeps_entries cache f o req k v h)

/-- `fetched once` (function level, any sequence): once a request has been answered — with an image, or with `None`
because the fetch or the decoding failed — every later request with the same key (URL, orientation, image options) is
answered with the same value and **without any fetch event**, whatever was requested in between. -/
theorem same_key_fetched_once (f : Fetcher) (cache : Cache) (o : Opts) (req : Req) (mid : List (Opts × Req))
    (o' : Opts) (req' : Req) (v : Option Img) (hkey : req'.key o' = req.key o)
    (hok : (getImage cache f o req).2.2 = .ok v) :
    getImage (runImages f (getImage cache f o req).1 mid).2 f o' req' =
      ((runImages f (getImage cache f o req).1 mid).2, [], .ok v) := by
  apply image_cache_hit
  rw [hkey]
  exact runImages_keeps_entries f mid _ _ _ (getImage_ok_caches cache f o req v hok)

theorem runImages_append (f : Fetcher) (a b : List (Opts × Req)) (cache : Cache) :
    runImages f cache (a ++ b) =
      ((runImages f cache a).1 ++ (runImages f (runImages f cache a).2 b).1, (runImages f (runImages f cache a).2 b).2) := by
  induction a generalizing cache with
  | nil => rfl
  | cons r rest ih =>
    obtain ⟨o, req⟩ := r
    simp only [List.cons_append, runImages, ih]

private theorem runImages_length (f : Fetcher) (reqs : List (Opts × Req)) (cache : Cache) :
    (runImages f cache reqs).1.length = reqs.length := by
  induction reqs generalizing cache with
  | nil => rfl
  | cons r rest ih => obtain ⟨o, req⟩ := r; simp [runImages, ih]

/-- The same on the list of answers of one run: in `pre ++ [request] ++ mid ++ [same key again] ++ post`, the answer to
the second request is `([], value of the first)`. -/
theorem second_request_is_silent (f : Fetcher) (cache : Cache) (pre mid post : List (Opts × Req)) (o o' : Opts)
    (req req' : Req) (v : Option Img) (hkey : req'.key o' = req.key o)
    (hok : (getImage (runImages f cache pre).2 f o req).2.2 = .ok v) :
    (runImages f cache (pre ++ (o, req) :: (mid ++ (o', req') :: post))).1[pre.length + 1 + mid.length]? =
      some ([], .ok v) := by
  have hsilent := same_key_fetched_once f (runImages f cache pre).2 o req mid o' req' v hkey hok
  rw [runImages_append]
  simp only
  rw [List.getElem?_append_right (by rw [runImages_length]; omega)]
  rw [runImages_length]
  have h1 : pre.length + 1 + mid.length - pre.length = mid.length + 1 := by omega
  rw [h1]
  simp only [runImages]
  rw [List.getElem?_cons_succ, runImages_append]
  simp only
  rw [List.getElem?_append_right (by rw [runImages_length]; omega), runImages_length]
  simp only [Nat.sub_self, runImages, hsilent, List.getElem?_cons_zero]

/-! ## the image stage of a document -/

theorem runRefs_keeps_entries (f : Fetcher) (o : Opts) (refs : List Doc.ImgRef) (cache : Cache) (k : String)
    (v : Option Img) (h : cache.find? k = some v) : (Doc.runRefs f o cache refs).2.2.1.find? k = some v := by
  induction refs generalizing cache with
  | nil => exact h
  | cons r rest ih =>
    unfold Doc.runRefs
    cases hu : r.url with
    | none => simp only; exact ih cache h
    | some u =>
      simp only
      by_cases he : (u == "") = true
      · simp only [he, ↓reduceIte]; exact ih cache h
      · have he' : (u == "") = false := by simpa using he
        simp only [he', Bool.false_eq_true, ↓reduceIte]
        have hk := getImage_keeps_entries cache f o ⟨u, r.orient, r.forcedMime⟩ k v h
        cases hg : getImage cache f o ⟨u, r.orient, r.forcedMime⟩ with
        | mk c' rr =>
          obtain ⟨evs, out⟩ := rr
          rw [hg] at hk
          cases out with
          | error e => exact hk
          | ok image => exact ih c' hk

/-- `fetched once` (document level): a reference whose image — or whose failure — is already in the cache adds no
fetch event to the image stage and gets its boxes from the cached value: an `<img>` repeated on every page, the same
background on many boxes, a broken URL used ten times cost one fetch. -/
theorem cached_reference_is_silent (f : Fetcher) (o : Opts) (r : Doc.ImgRef) (post : List Doc.ImgRef) (cache : Cache)
    (u : String) (v : Option Img) (hu : r.url = some u) (hne : (u == "") = false)
    (h : cache.find? (Req.key ⟨u, r.orient, r.forcedMime⟩ o) = some v) :
    Doc.runRefs f o cache (r :: post) =
      ((Doc.runRefs f o cache post).1, Doc.refBoxes r v :: (Doc.runRefs f o cache post).2.1,
       (Doc.runRefs f o cache post).2.2.1, (Doc.runRefs f o cache post).2.2.2) := by
  conv => lhs; unfold Doc.runRefs
  simp only [hu, hne, Bool.false_eq_true, ↓reduceIte, image_cache_hit cache f o ⟨u, r.orient, r.forcedMime⟩ v h,
    List.nil_append]

/-- Non-vacuity: a failing image asked for three times, another request in between: one call. -/
example :
    let f : Fetcher := fun _ => .raises ⟨"OSError", "reset"⟩
    let o : Opts := ⟨false, none, none⟩
    let bad : Req := ⟨"http://a.test/bad.png", .fromImage, none⟩
    (runImages f [] [(o, bad), (o, ⟨"http://a.test/other.png", .fromImage, none⟩), (o, bad), (o, bad)]).1.map (·.1) =
      [[.call "http://a.test/bad.png"], [.call "http://a.test/other.png"], [], []] := by decide

end Wp.C20.Once
