/-
C03 / C02 for PM stage 2a — with out-of-flow children in the block flow: the first content of an empty
page is always accepted (so `make_page`'s `assert root_box` is unreachable, and `float_layout` /
`absolute_box_layout` never receive `None`), every non-blank page makes strict progress in the flow, a
blank page is followed by a non-blank one, and `make_all_pages` terminates within `2 · size` pages.
Out-of-flow children count as one unit of `size` each.
-/
import WpModel.Lemmas.OofPages
import WpModel.Lemmas.OofTotal
import WpModel.Lemmas.OofParaGeo
import WpModel.Lemmas.OofGeometry
import WpModel.Props.C01Oof

namespace Wp.PMO.C03Oof
open Wp Wp.PM

/-- **First content is always accepted**: laid out with `page_is_empty`, a box of the extended grammar
always yields a fragment — whatever placeholders, floats (fitting or not) and clearance precede. -/
theorem first_content_accepted (box : OBox) (c : Ctx) (idx : Nat) (y bs : Rat) (skip : Option Resume)
    (cb : Bool) (adjL : List Rat) (w : World) :
    (layoutBox c box idx y bs skip cb true adjL w).frag.isSome = true :=
  box_some box c idx y bs skip cb adjL w

/-- `remake_page` never fails its `assert root_box`. -/
theorem remakePage_total (d : Doc) (index : Nat) (resume : Option Resume) (np : NextPage) (right : Bool)
    (brokenIn : List Broken) (rootTop : Rat) :
    (remakePage d index resume np right brokenIn rootTop).isSome = true := by
  unfold remakePage
  dsimp only
  have key : ∀ (c : Ctx) (b : OBox) (w : World), (layoutBox c b 0 0 0 resume false true [] w).frag ≠ none := by
    intro c b w h
    have := first_content_accepted b c 0 0 0 resume false [] w
    rw [h] at this
    simp at this
  split
  · rename_i h; exact absurd h (key _ _ _)
  · rfl

theorem pos_lt_size (box : OBox) (σ : Option Resume) : pos box σ < size box := PMO.pos_lt_size box σ

/-- **Progress of `block_level_layout`**: the returned resume position is never before the skip position,
and strictly later when the layout started on an empty page. (Not strict in general: a box whose first
float does not fit comes back empty, to be resumed at the same place — `Witness`-free, it is harmless:
something else is on that page.) -/
theorem layout_progress (box : OBox) (hg : Good box) (c : Ctx) (idx : Nat)
    (y bs : Rat) (skip : Option Resume) (cb pie : Bool) (adjL : List Rat) (w : World) (hwf : WfSkip box skip)
    (f : OFrag) (r : Resume)
    (hf : (layoutBox c box idx y bs skip cb pie adjL w).frag = some f)
    (hr : (layoutBox c box idx y bs skip cb pie adjL w).resume = some r) :
    pos box skip ≤ pos box (some r) ∧ (pie = true → pos box skip < pos box (some r)) := by
  have := box_spec box hg c idx y bs skip cb pie adjL w hwf f hf
  rw [hr] at this
  exact ⟨this.2.1, this.2.2.1⟩

/-- **Strict progress of pages** in the flow. -/
theorem page_progress (d : Doc) (hg : Good d.root) (index : Nat)
    (resume : Option Resume) (np : NextPage) (right : Bool) (brokenIn : List Broken) (rootTop : Rat) (p : Page)
    (hwf : WfSkip d.root resume)
    (hp : remakePage d index resume np right brokenIn rootTop = some p) (hnb : p.type.blank = false) :
    (p.resume = none ∨ pos d.root resume < pos d.root p.resume) ∧ WfSkip d.root p.resume := by
  obtain ⟨_, h2⟩ := remakePage_lines d hg index resume np right brokenIn rootTop p hwf hp
  refine ⟨?_, (h2 hnb).2.1⟩
  cases hr : p.resume with
  | none => left; rfl
  | some r => right; exact (h2 hnb).2.2 r hr

private theorem isBlank_flip (side : Option Bool) (right : Bool) (h : isBlank side right = true) :
    isBlank side (!right) = false := by
  cases side with
  | none => cases right <;> simp [isBlank] at h
  | some s => cases s <;> cases right <;> simp [isBlank] at h ⊢

/-- A blank page leaves the flow where it was and is followed by a non-blank page. (It does lay out the
continuations of the out-of-flow boxes cut before it.) -/
theorem blank_then_nonblank (d : Doc) (index : Nat) (resume : Option Resume) (np : NextPage) (right : Bool)
    (brokenIn : List Broken) (rootTop : Rat)
    (p : Page) (hp : remakePage d index resume np right brokenIn rootTop = some p) (hb : p.type.blank = true) :
    p.resume = resume ∧ p.nextPage = np ∧
    ∀ bi rt p', remakePage d (index + 1) p.resume p.nextPage (!right) bi rt = some p' → p'.type.blank = false := by
  obtain ⟨hbl, h1, _⟩ := remakePage_spec d index resume np right brokenIn rootTop p hp
  obtain ⟨hr, hn, _⟩ := h1 hb
  refine ⟨hr, hn, ?_⟩
  intro bi rt p' hp'
  obtain ⟨hbl', _, _⟩ := remakePage_spec d (index + 1) p.resume p.nextPage (!right) bi rt p' hp'
  rw [hbl', hn]
  apply isBlank_flip
  rw [← hbl]; exact hb

/-! ### termination -/

def pagesNeeded (d : Doc) (resume : Option Resume) (np : NextPage) (right : Bool) : Nat :=
  2 * (size d.root - pos d.root resume) + (if isBlank (requestedSide d.rootLtr np.brk) right then 1 else 0)

/-- **`make_all_pages` terminates** from every page-maker state with a well-formed resume position, with
at most `pagesNeeded` pages — whatever is pending in `broken_out_of_flow` (it never prolongs the
document: that is the loss at the end of the document). -/
theorem makeAllPages_terminates (d : Doc) (hg : Good d.root) :
    ∀ (fuel index : Nat) (resume : Option Resume) (np : NextPage) (right : Bool) (brokenIn : List Broken)
      (rootTop : Rat), WfSkip d.root resume →
    pagesNeeded d resume np right ≤ fuel →
    ∃ pages, makeAllPages d fuel index resume np right brokenIn rootTop = some pages ∧
      pages.length ≤ pagesNeeded d resume np right := by
  intro fuel
  induction fuel with
  | zero =>
    intro index resume np right bi rt _ h
    have := PMO.pos_lt_size d.root resume
    unfold pagesNeeded at h
    omega
  | succ fuel ih =>
    intro index resume np right bi rt hwf h
    have hlt := PMO.pos_lt_size d.root resume
    have hs := remakePage_total d index resume np right bi rt
    cases hp : remakePage d index resume np right bi rt with
    | none => rw [hp] at hs; simp at hs
    | some p =>
      unfold makeAllPages
      simp only [hp]
      cases hr : p.resume with
      | none =>
        refine ⟨[p], rfl, ?_⟩
        unfold pagesNeeded
        simp only [List.length_singleton]
        omega
      | some r =>
        simp only
        obtain ⟨hbl, _, _⟩ := remakePage_spec d index resume np right bi rt p hp
        have key : pagesNeeded d (some r) p.nextPage (!right) + 1 ≤ pagesNeeded d resume np right ∧
            WfSkip d.root (some r) := by
          cases hb : p.type.blank with
          | true =>
            obtain ⟨hres, hnp, hnext⟩ := blank_then_nonblank d index resume np right bi rt p hp hb
            have hflip : isBlank (requestedSide d.rootLtr np.brk) (!right) = false := by
              cases hside : requestedSide d.rootLtr np.brk with
              | none => cases right <;> simp [isBlank]
              | some sd =>
                rw [hb, hside] at hbl
                revert hbl; cases sd <;> cases right <;> simp [isBlank]
            refine ⟨?_, by rw [← hr, hres]; exact hwf⟩
            unfold pagesNeeded
            rw [hnp, hflip, ← hbl, hb, ← hr, hres]
            simp
          | false =>
            obtain ⟨hprog, hw'⟩ := page_progress d hg index resume np right bi rt p hwf hp hb
            rw [hr] at hprog hw'
            have hprog : pos d.root resume < pos d.root (some r) := by
              rcases hprog with h | h
              · cases h
              · exact h
            have hlt' := PMO.pos_lt_size d.root (some r)
            refine ⟨?_, hw'⟩
            unfold pagesNeeded
            rw [← hbl, hb]
            split <;> simp <;> omega
        obtain ⟨ps, hps, hlen⟩ := ih (index + 1) (some r) p.nextPage (!right) p.broken p.rootTop key.2 (by omega)
        rw [hps]
        refine ⟨p :: ps, rfl, ?_⟩
        simp only [List.length_cons]
        omega

/-- **Pagination terminates**: `2 · size + 2` units of fuel are always enough; at most `2 · size` pages. -/
theorem paginate_terminates (d : Doc) (hg : Good d.root) :
    ∃ pages, paginate d (2 * size d.root + 2) = some pages ∧ pages.length ≤ 2 * size d.root := by
  unfold paginate
  have hn : pagesNeeded d none { brk := none, page := some (boxPageStart d.root) } (firstRight d) ≤ 2 * size d.root := by
    unfold pagesNeeded
    simp [requestedSide, isBlank]
    omega
  obtain ⟨pages, hp, hl⟩ := makeAllPages_terminates d hg (2 * size d.root + 2) 0 none
    { brk := none, page := some (boxPageStart d.root) } (firstRight d) [] 0 (wfSkip_none _) (by omega)
  exact ⟨pages, hp, by omega⟩

/-! ### geometry of the flow: lines fit below the floats

The line box is first moved below the floats it collides with (`avoid_collisions`, which only moves
down), the overflow test is made at *that* position: a kept line ends at or above
`page_bottom − bottom_space`, unless it is the first line of the fragment placed on an empty page. -/

/-- **Line fits** (paragraph level, any floats): every line kept in a paragraph fragment fits, or is the
first line placed while the page was empty. -/
theorem line_fits (c : Ctx) (st : PStyle) (b : BoxSt) (n : Nat) (lineH : Rat) (pie : Bool)
    (adj : List Rat) (bs posY : Rat) (skip : Option Resume) (dbd : Bool) (shapes : List Shape)
    (hdeco : 0 ≤ b.bb + b.pb) :
    ∀ p ∈ (lineboxLayout c st b n lineH pie adj bs posY skip dbd shapes).lines,
      (pie = true ∧ p.1 = skipLine skip) ∨ c.overflowsPage bs (p.2 + lineH) = false := by
  rw [lineboxLayout_lines]
  unfold lineboxLoop
  exact lineLoop_fits c st b n lineH pie bs shapes (skipLine skip) _ _ _ _ hdeco (fun _ => rfl) (by simp)

/-- On a page that already has content no kept line overflows, wherever the floats pushed it. -/
theorem line_fits_nonempty_page (c : Ctx) (st : PStyle) (b : BoxSt) (n : Nat) (lineH : Rat)
    (adj : List Rat) (bs posY : Rat) (skip : Option Resume) (dbd : Bool) (shapes : List Shape)
    (hdeco : 0 ≤ b.bb + b.pb) :
    ∀ p ∈ (lineboxLayout c st b n lineH false adj bs posY skip dbd shapes).lines,
      c.overflowsPage bs (p.2 + lineH) = false := by
  intro p hp
  rcases line_fits c st b n lineH false adj bs posY skip dbd shapes hdeco p hp with h | h
  · cases h.1
  · exact h

/-- `avoid_collisions` never moves a box up. -/
theorem avoid_only_down (shapes : List Shape) (h y : Rat) : y ≤ avoidLine shapes h y :=
  avoidY_ge shapes h _ y

/-! ### whole layouts and pages

`placedLines f pie box` lists the in-flow lines of the fragment tree `f` of the source box `box` (line
heights read in the source; fragments of out-of-flow boxes — placeholders, floats, continuations, laid-out
absolute boxes — hold none), `exempt` marking the first in-flow line of a layout started on an empty page.
`DecoOk box`: in every box of the flow, bottom padding + border ≥ 0 and, with `box-decoration-break: clone`,
bottom padding + border + margin ≥ 0 (else: known finding `clone-negative-margin-bottom`). -/

/-- **Line fits, whole layout** (C03, flow): in every fragment tree returned by `block_level_layout`, every
in-flow line ends at or above `page_bottom − bottom_space`, the first in-flow line excepted when the layout
started on an empty page — whatever floats and clearance did to the positions. -/
theorem layout_line_fits (box : OBox) (hd : DecoOk box) (c : Ctx) (idx : Nat) (y bs : Rat)
    (skip : Option Resume) (cb pie : Bool) (adjL : List Rat) (w : World) (f : OFrag)
    (h : (layoutBox c box idx y bs skip cb pie adjL w).frag = some f) :
    ∀ p ∈ placedLines f pie box, p.exempt = true ∨ c.overflowsPage bs p.bottom = false :=
  box_fits box hd c idx y bs skip cb pie adjL w f h

/-- Only the very first in-flow line can be exempt, and only when the layout started on an empty page. -/
theorem only_first_line_exempt (f : OFrag) (pie : Bool) (box : OBox) :
    (∀ p ∈ (placedLines f pie box).tail, p.exempt = false) ∧
    (pie = false → ∀ p ∈ placedLines f pie box, p.exempt = false) :=
  placedLines_exempt f pie box

/-- **Line fits, pages** (C03, flow): on every page, every in-flow line of the final root fragment
(continuations prepended, absolute boxes laid out) ends above the bottom of the page area, except the first
in-flow line of the page. Out-of-flow content is *not* covered: a float is cut where it was laid out,
then moved below earlier floats (`find_float_position`), and an absolutely positioned box starts wherever
its static position is. -/
theorem remakePage_line_fits (d : Doc) (hd : DecoOk d.root) (index : Nat) (resume : Option Resume)
    (np : NextPage) (right : Bool) (brokenIn : List Broken) (rootTop : Rat) (p : Page)
    (hp : remakePage d index resume np right brokenIn rootTop = some p) :
    ∀ q ∈ (placedLines p.root true (pageSource d p)).tail, q.y + q.lineH ≤ d.pageH * (1 + 1 / 1000000000) := by
  obtain ⟨c, hc, h⟩ := remakePage_fits d hd index resume np right brokenIn rootTop p hp
  intro q hq
  have hne := (placedLines_exempt p.root true (pageSource d p)).1 q hq
  rcases h q (List.mem_of_mem_tail hq) with h1 | h1
  · rw [hne] at h1; cases h1
  · unfold Ctx.overflowsPage overflows PlacedLine.bottom at h1
    simp only [decide_eq_false_iff_not] at h1
    rw [hc] at h1
    grind

theorem makeAllPages_line_fits (d : Doc) (hd : DecoOk d.root) : ∀ (fuel index : Nat) (resume : Option Resume)
    (np : NextPage) (right : Bool) (brokenIn : List Broken) (rootTop : Rat) (pages : List Page),
    makeAllPages d fuel index resume np right brokenIn rootTop = some pages →
    ∀ p ∈ pages, ∀ q ∈ (placedLines p.root true (pageSource d p)).tail,
      q.y + q.lineH ≤ d.pageH * (1 + 1 / 1000000000) := by
  intro fuel
  induction fuel with
  | zero => intro index resume np right bi rt pages h; simp [makeAllPages] at h
  | succ fuel ih =>
    intro index resume np right bi rt pages h
    unfold makeAllPages at h
    split at h
    · cases h
    · rename_i p hp
      have hc := remakePage_line_fits d hd index resume np right bi rt p hp
      split at h
      · simp only [Option.some.injEq] at h
        rw [← h]
        intro q hq
        simp only [List.mem_singleton] at hq
        rw [hq]; exact hc
      · split at h
        · rename_i ps hps
          simp only [Option.some.injEq] at h
          rw [← h]
          intro q hq
          simp only [List.mem_cons] at hq
          rcases hq with rfl | hq
          · exact hc
          · exact ih _ _ _ _ _ _ ps hps q hq
        · cases h

/-- **Line fits, documents** (C03, flow): on every page of a paginated document of the extended grammar,
every in-flow line but the first one of the page ends at or above the page bottom (with the layout's
fudge factor). -/
theorem paginate_line_fits (d : Doc) (hd : DecoOk d.root) (fuel : Nat) (pages : List Page)
    (h : paginate d fuel = some pages) :
    ∀ p ∈ pages, ∀ q ∈ (placedLines p.root true (pageSource d p)).tail,
      q.y + q.lineH ≤ d.pageH * (1 + 1 / 1000000000) := by
  unfold paginate at h
  exact makeAllPages_line_fits d hd fuel 0 none _ _ [] 0 pages h

/-! ### non-vacuity (`C01Oof.exDoc`: 15 units, 3 pages, a float and an absolute box cut and continued) -/

example : size C01Oof.exDoc.root = 15 ∧
    (paginate C01Oof.exDoc (2 * size C01Oof.exDoc.root + 2)).map
      (fun ps => ps.map fun p => (p.type.blank, pos C01Oof.exDoc.root p.resume)) =
    some [(false, 4), (false, 8), (false, 0)] := ⟨by decide +kernel, by decide +kernel⟩

/-- A paragraph of 4 lines started at y = 0 below a float occupying 0–25 on a 50px page that already has
content: lines at 25 and 35, the third does not fit. -/
example :
    (lineboxLayout { pageBottom := 50, currentPage := 1, forcedBreak := false } Witness.st0
      { y := 0, mt := 0, mb := 0, pt := 0, pb := 0, bt := 0, bb := 0 } 4 10 false [] 0 0 none false
      [{ ser := 1, y := 0, mh := 25 }]).lines = [(0, 25), (1, 35)] := by decide +kernel

/-- `DecoOk` holds of `exDoc`; the in-flow lines of its page 2 (below the float continuation 0–30): two
lines at 30 and 40, the first one flagged exempt, both fitting on the 50px page. -/
example : DecoOk C01Oof.exDoc.root ∧
    (paginate C01Oof.exDoc 40).map (fun ps => ps.map fun p =>
      (placedLines p.root true (pageSource C01Oof.exDoc p)).map fun q => (q.exempt, q.para, q.line, q.y)) =
    some [[(true, 1, 0, 0), (false, 1, 1, 10)], [(true, 3, 0, 30), (false, 3, 1, 40)],
      [(true, 5, 0, 0), (false, 5, 1, 10), (false, 5, 2, 20), (false, 5, 3, 30)]] := by
  refine ⟨?_, by decide +kernel⟩
  simp [C01Oof.exDoc, Witness.mkDoc, DecoOk, DecoOkList, PStyle.DecoOk, Witness.flow, Witness.floated,
    Witness.absolute, Witness.st0, Rat.add_zero]

/-! ### progress of the out-of-flow part of the page loop (round 8)

`page_progress` / `paginate_terminates` above speak of the flow. What `context.broken_out_of_flow` drives makes
progress as well: every continuation strictly advances the position of its box, so a box is continued on at
most `size box` pages. (The Python oracle `progress_violation` samples this on the fragments; here it holds for
every box, page and state.) -/

/-- **An out-of-flow box laid out on a page shows something**: `float_layout` / `absolute_box_layout` call
`block_container_layout` with `page_is_empty = True`, so when the box is cut the returned resume position is
strictly after the one it was started from (and inside the box). -/
theorem out_of_flow_layout_progress (box : OBox) (hg : Good box) (c : Ctx) (idx : Nat) (y bs : Rat)
    (skip : Option Resume) (w : World) (hwf : WfSkip box skip) (ρ : Resume)
    (hρ : (layoutBox c box idx y bs skip false true [] w).resume = some ρ) :
    pos box skip < pos box (some ρ) ∧ pos box (some ρ) < size box := by
  have hsome := box_some box c idx y bs skip false [] w
  cases hfr : (layoutBox c box idx y bs skip false true [] w).frag with
  | none => rw [hfr] at hsome; simp at hsome
  | some f =>
    exact ⟨(layout_progress box hg c idx y bs skip false true [] w hwf f ρ hfr hρ).2 rfl, pos_lt_size box _⟩

/-- **Progress of a continuation** (`make_page`, one iteration of the loop over `context.broken_out_of_flow`):
what is registered again for the box — if anything — is a position strictly after the one this page continued
it from. With `pos < size` an out-of-flow box is therefore continued on at most `size box` pages: it cannot
keep the page loop alive for ever (C03 progress / C02 bounded page count, for the out-of-flow part). -/
theorem continuation_progress (c : Ctx) (rootTop : Rat) (acc : World × List OFrag) (e : Broken)
    (hg : Good e.box) (hwf : WfSkip e.box (some e.resume)) :
    ∃ r : LayoutResult,
      (contStep c rootTop acc e).1.broken.map (fun b => (b.box.id, b.resume)) =
        r.w.broken.map (fun b => (b.box.id, b.resume)) ++
          (match r.resume with | some ρ => [(e.box.id, ρ)] | none => []) ∧
      ∀ ρ, r.resume = some ρ →
        pos e.box (some e.resume) < pos e.box (some ρ) ∧ pos e.box (some ρ) < size e.box := by
  unfold contStep
  dsimp only
  split
  · -- a float
    have hsome := box_some e.box c 0 (floatY acc.1.shapes e.box.st.clear rootTop) 0 (some e.resume) false []
      { acc.1 with shapes := [] }
    have hprog := out_of_flow_layout_progress e.box hg c 0 (floatY acc.1.shapes e.box.st.clear rootTop) 0
      (some e.resume) { acc.1 with shapes := [] } hwf
    cases hfr : (layoutBox c e.box 0 (floatY acc.1.shapes e.box.st.clear rootTop) 0 (some e.resume) false true []
        { acc.1 with shapes := [] }).frag with
    | none => rw [hfr] at hsome; simp at hsome
    | some f0 =>
      unfold floatDone
      simp only [hfr]
      refine ⟨_, ?_, hprog⟩
      simp only [List.map_append]
      cases (layoutBox c e.box 0 (floatY acc.1.shapes e.box.st.clear rootTop) 0 (some e.resume) false true []
        { acc.1 with shapes := [] }).resume <;> simp [World.shift]
  · -- an absolutely positioned box
    have hsome := layoutAbs_isSome c (boxDepth e.box) e.box e.idx rootTop (some e.resume) acc.1
    cases hfr : (layoutAbs c (boxDepth e.box) e.box e.idx rootTop (some e.resume) acc.1).frag with
    | none => rw [hfr] at hsome; simp at hsome
    | some f =>
      simp only
      refine ⟨layoutAbs c (boxDepth e.box) e.box e.idx rootTop (some e.resume) acc.1, ?_, ?_⟩
      · simp only [List.map_append]
        cases (layoutAbs c (boxDepth e.box) e.box e.idx rootTop (some e.resume) acc.1).resume <;> simp
      · intro ρ hρ
        rw [layoutAbs_resume] at hρ
        exact out_of_flow_layout_progress e.box hg c e.idx rootTop 0 (some e.resume) _ hwf ρ hρ

/-- The same with the world invariant: for a registered item of a good document no hypothesis is left. -/
theorem continuation_progress_ok (c : Ctx) (rootTop : Rat) (acc : World × List OFrag) (e : Broken) (he : EOk e) :
    ∃ r : LayoutResult,
      (contStep c rootTop acc e).1.broken.map (fun b => (b.box.id, b.resume)) =
        r.w.broken.map (fun b => (b.box.id, b.resume)) ++
          (match r.resume with | some ρ => [(e.box.id, ρ)] | none => []) ∧
      ∀ ρ, r.resume = some ρ →
        pos e.box (some e.resume) < pos e.box (some ρ) ∧ pos e.box (some ρ) < size e.box :=
  continuation_progress c rootTop acc e (good_of_deep e.box he.1) he.2

/-- A strictly increasing sequence of positions below `n` has at most `n` members: the number of pages an
out-of-flow box of size `n` can be continued on. -/
theorem increasing_bounded (n : Nat) : ∀ (l : List Nat), l.Pairwise (· < ·) → (∀ x ∈ l, x < n) → l.length ≤ n := by
  induction n with
  | zero =>
    intro l _ hb
    cases l with
    | nil => simp
    | cons x xs => exact absurd (hb x List.mem_cons_self) (Nat.not_lt_zero x)
  | succ n ih =>
    intro l hp hb
    -- drop the last (largest) element
    cases hl : l.reverse with
    | nil => simp [List.reverse_eq_nil_iff.mp hl]
    | cons m rest =>
      have hlist : l = rest.reverse ++ [m] := by
        have := congrArg List.reverse hl
        simpa using this
      subst hlist
      rw [List.pairwise_append] at hp
      have hrest : rest.reverse.length ≤ n := by
        apply ih _ hp.1
        intro x hx
        have h1 : x < m := hp.2.2 x hx m (by simp)
        have h2 : m < n + 1 := hb m (by simp)
        omega
      simp only [List.length_append, List.length_singleton]
      omega

/-- The successive positions from which one out-of-flow box is continued, page after page: each is the resume
position returned by the continuation layout (`float_layout` / `absolute_box_layout`, `page_is_empty = True`,
any page, any state) started at the previous one. -/
inductive ContChain (box : OBox) : Resume → List Resume → Prop
  | nil (ρ : Resume) : ContChain box ρ []
  | cons {ρ ρ' : Resume} {l : List Resume} :
      (∃ (c : Ctx) (idx : Nat) (y bs : Rat) (w : World),
        (layoutBox c box idx y bs (some ρ) false true [] w).resume = some ρ') →
      ContChain box ρ' l → ContChain box ρ (ρ' :: l)

theorem contChain_positions (box : OBox) (hg : Good box) : ∀ (ρ : Resume) (l : List Resume),
    ContChain box ρ l → WfSkip box (some ρ) →
    (pos box (some ρ) :: l.map (fun r => pos box (some r))).Pairwise (· < ·) ∧
      ∀ x ∈ l.map (fun r => pos box (some r)), x < size box := by
  intro ρ l h
  induction h with
  | nil ρ => intro _; simp
  | @cons ρ ρ' l hstep _ ih =>
    intro hwf
    obtain ⟨c, idx, y, bs, w, hρ'⟩ := hstep
    have hprog := out_of_flow_layout_progress box hg c idx y bs (some ρ) w hwf ρ' hρ'
    have hsome := box_some box c idx y bs (some ρ) false [] w
    have hwf' : WfSkip box (some ρ') := by
      cases hfr : (layoutBox c box idx y bs (some ρ) false true [] w).frag with
      | none => rw [hfr] at hsome; simp at hsome
      | some f =>
        have := C01Oof.segment_wf box hg c idx y bs (some ρ) false true [] w hwf f hfr
        rw [hρ'] at this
        exact this
    obtain ⟨hpw, hb⟩ := ih hwf'
    rw [List.pairwise_cons] at hpw
    constructor
    · simp only [List.map_cons]
      rw [List.pairwise_cons]
      refine ⟨?_, List.pairwise_cons.mpr hpw⟩
      intro x hx
      simp only [List.mem_cons] at hx
      rcases hx with rfl | hx
      · exact hprog.1
      · exact Nat.lt_trans hprog.1 (hpw.1 x hx)
    · intro x hx
      simp only [List.map_cons, List.mem_cons] at hx
      rcases hx with rfl | hx
      · exact hprog.2
      · exact hb x hx

/-- **An out-of-flow box is continued on at most `size box` pages**, whatever the pages are: the C03 / C02
clause "the page count is bounded by the amount of content" for the part of the page loop that
`context.broken_out_of_flow` drives. -/
theorem continuation_bounded (box : OBox) (hg : Good box) (ρ : Resume) (l : List Resume)
    (h : ContChain box ρ l) (hwf : WfSkip box (some ρ)) : l.length ≤ size box := by
  obtain ⟨hpw, hb⟩ := contChain_positions box hg ρ l h hwf
  rw [List.pairwise_cons] at hpw
  have := increasing_bounded (size box) _ hpw.2 hb
  simpa using this

/-! Non-vacuity: a 14-line float on 50px pages, continued from line 2: the continuation shows lines 2–6 and
registers line 7 (position 2 < 7 < size 15); so a one-step chain exists, and the hypotheses hold. -/
private def exFloat : OBox := .para 2 14 10 (Witness.floated Witness.st0)
private def exCtx : Ctx := { pageBottom := 50, currentPage := 2, forcedBreak := false }

example : ((layoutBox exCtx exFloat 0 0 0 (some (.node 0 (some (.line 2)))) false true [] World.empty).resume.map
      (fun r => pos exFloat (some r)), pos exFloat (some (.node 0 (some (.line 2)))), size exFloat) =
    (some 7, 2, 15) := by decide +kernel

example : Good exFloat ∧ WfSkip exFloat (some (.node 0 (some (.line 2)))) ∧
    ∃ ρ', ContChain exFloat (.node 0 (some (.line 2))) [ρ'] := by
  refine ⟨by simp [exFloat, Good, Witness.floated, Witness.st0], by simp [exFloat, WfSkip], ?_⟩
  have h : (layoutBox exCtx exFloat 0 0 0 (some (.node 0 (some (.line 2)))) false true []
      World.empty).resume.isSome = true := by decide +kernel
  obtain ⟨ρ', hρ'⟩ := Option.isSome_iff_exists.mp h
  exact ⟨ρ', .cons ⟨exCtx, 0, 0, 0, World.empty, hρ'⟩ (.nil ρ')⟩

end Wp.PMO.C03Oof
