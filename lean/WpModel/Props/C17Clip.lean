/-
C17 — "clipped by overflow and clip ancestors": the rectangle of the `clip` property (sixth file of C17).
`outer_clips_apply_to_subtree` (Props/C17Paint) puts `Clip.clipProp id` on the clip stack of every item of
the subtree of an absolutely positioned box with `clip`; this file says which rectangle that is
(`Model/ClipRect.lean`, compared path by path in `scene-geometry`) against CSS 2.1 11.1.2.
-/
import WpModel.Model.ClipRect
namespace Wp.C17
open Wp Wp.ClipRect

/-- **Vertical extent of the `clip` region, full strength**: the rectangle starts at the `top` offset
below the top border edge and ends at the `bottom` offset (`auto` = the border edges), for every value. -/
theorem clip_rect_vertical (bbx bby bw bh : Rat) (c : ClipProp) :
    (clipRect bbx bby bw bh c).2.1 = (cssClipEdges bbx bby bw bh c).2.2.1 ∧
    (clipRect bbx bby bw bh c).2.1 + (clipRect bbx bby bw bh c).2.2.2 = (cssClipEdges bbx bby bw bh c).2.2.2 := by
  refine ⟨rfl, ?_⟩
  simp only [clipRect, cssClipEdges]
  grind

/-- **Horizontal extent (partial: `left` and `right` both lengths, or both `auto`)**: the rectangle is
written from the `right` edge with the negative width `left − right`, so its two vertical edges are the
`left` and `right` offsets from the left border edge.  When exactly one of the two is `auto` the code
substitutes the *other* side's default (`right: auto` → 0, `left: auto` → border width):
`Witness.C17.clip_auto_sides_swapped`, finding `clip-auto-sides-swapped`. -/
theorem clip_rect_horizontal_partial (bbx bby bw bh : Rat) (c : ClipProp)
    (h : c.left.isSome = c.right.isSome) :
    ((clipRect bbx bby bw bh c).1 = (cssClipEdges bbx bby bw bh c).2.1 ∧
      (clipRect bbx bby bw bh c).1 + (clipRect bbx bby bw bh c).2.2.1 = (cssClipEdges bbx bby bw bh c).1) ∨
    ((clipRect bbx bby bw bh c).1 = (cssClipEdges bbx bby bw bh c).1 ∧
      (clipRect bbx bby bw bh c).1 + (clipRect bbx bby bw bh c).2.2.1 = (cssClipEdges bbx bby bw bh c).2.1) := by
  cases hl : c.left <;> cases hr : c.right <;> simp [hl, hr] at h
  · right
    simp only [clipRect, cssClipEdges, hl, hr, Option.getD]
    constructor <;> grind
  · left
    simp only [clipRect, cssClipEdges, hl, hr, Option.getD]
    constructor <;> grind

/-- As regions: with ordered offsets (`left ≤ right`) the edges of the written rectangle are exactly the
CSS edges. -/
theorem clip_rect_region_partial (bbx bby bw bh : Rat) (c : ClipProp) (l r : Rat)
    (hl : c.left = some l) (hr : c.right = some r) (hlr : l ≤ r) :
    xEdges (clipRect bbx bby bw bh c) = (bbx + l, bbx + r) := by
  simp only [xEdges, clipRect, hl, hr, Option.getD]
  by_cases h : l - r < 0
  · simp only [h, ↓reduceIte]
    apply Prod.ext <;> simp only <;> grind
  · simp only [h, ↓reduceIte]
    have : l = r := by grind
    subst this
    apply Prod.ext <;> simp only <;> grind

example : clipRect 50 30 50 40 ⟨some 5, some 30, some 20, some 10⟩ = (80, 35, -20, 15) ∧
    xEdges (clipRect 50 30 50 40 ⟨some 5, some 30, some 20, some 10⟩) = (60, 80) ∧
    cssClipEdges 50 30 50 40 ⟨some 5, some 30, some 20, some 10⟩ = (60, 80, 35, 50) := by
  decide +kernel

example : (⟨some 5, some 30, some 20, some 10⟩ : ClipProp).left.isSome =
    (⟨some 5, some 30, some 20, some 10⟩ : ClipProp).right.isSome := by decide

end Wp.C17
