/-
C09 — Inline formatting: greedy line breaking inside the available width.

Property theorems only; the proofs are in `WpModel/Lemmas/LineBreak.lean`.  Every statement is about
the model of `Model/Pango.lean` (PangoFP, the *assumed* fixed-pitch Pango) and `Model/LineBreak.lean`
(`split_first_line`, `split_text_box`, `text_align`, `justify_line`, `iter_line_boxes`), for **all**
texts, widths, font sizes and styles of the model (induction / case analysis — the `decide`s are only
about the tuples regenerated from the source by `py/extract/line_break_tables.py`).

Each theorem is followed by an `example` showing that its hypotheses are satisfiable on a concrete
non-trivial input.  Core Lean only.

`greedy` and `heuristic_transparent` are proved at full strength on *canonical* texts (words separated
by single spaces: what white-space processing leaves under a collapsing `white-space`), normal
`word-break` / `overflow-wrap`; for arbitrary texts (runs of preserved spaces, newlines, `break-all`,
`overflow-wrap`) only the `_partial` forms and the conservation / progress theorems hold — the full
`heuristic_transparent` is false there (`Witness/C09`).
-/
import WpModel.Lemmas.LineBreak
import WpModel.Lemmas.InlineHyphen
import WpModel.Lemmas.LineVertical
import WpModel.Lemmas.LineVerticalTB
import WpModel.Lemmas.InlinePreferred
import WpModel.Lemmas.LineFloats
import WpModel.Lemmas.LineFloatsInline
import WpModel.Lemmas.LineFloatsTall
import WpModel.Lemmas.InlineNoWrap
import WpModel.Lemmas.InlineSource
import WpModel.Lemmas.InlineSourceText

namespace Wp.C09
open Wp Wp.Py Wp.Pango Wp.LB Wp.C09L

/-! ### the tuples and constants of the source (regenerated each run) say what css-text says -/

/-- `text_wrap` of `split_first_line`: exactly `normal`, `pre-wrap`, `pre-line` wrap. -/
theorem text_wrap_values (w : WS) : w.textWrap = true ↔ (w = .normal ∨ w = .preWrap ∨ w = .preLine) :=
  C09L.text_wrap_values w

/-- `space_collapse`: exactly `normal`, `nowrap`, `pre-line` collapse. -/
theorem space_collapse_values (w : WS) :
    w.spaceCollapse = true ↔ (w = .normal ∨ w = .nowrap ∨ w = .preLine) :=
  C09L.space_collapse_values w

/-- `create_layout` gives Pango a width exactly when `split_first_line` wants wrapping. -/
theorem layout_wrap_eq_text_wrap (w : WS) : w.layoutWrap = w.textWrap := C09L.layout_wrap_eq_text_wrap w

/-- `skip_first_whitespace`, `remove_last_whitespace` and `text_align` use the same collapsing set
as `split_first_line`. -/
theorem collapse_tables_agree (w : WS) :
    w.skipFirst = w.spaceCollapse ∧ w.removeLast = w.spaceCollapse ∧ w.alignCollapse = w.spaceCollapse :=
  C09L.collapse_tables_agree w

/-- `can_break_inside` (re-breaking the waiting children of `split_inline_box`) allows wrapping under
exactly the `white-space` values under which `split_first_line` wraps: a text that `split_first_line`
would break can also be re-broken when a later inline box overflows (seed C09-6 drops `pre-line`). -/
theorem can_break_inside_wrap_eq_text_wrap (w : WS) : w.breakInside = w.textWrap := by
  cases w <;> decide

/-- `split_inline_box` refuses a break opportunity between two children under exactly the
non-wrapping values `pre` and `nowrap`. -/
theorem no_break_between_iff_no_wrap (w : WS) : w.noBreakBetween = !w.textWrap := by
  cases w <;> decide

/-- `preferred.inline_line_widths` measures with the same collapsing and wrapping sets as
`split_first_line` lays out with (otherwise min-content / max-content widths and the layout disagree). -/
theorem preferred_tables_agree (w : WS) : w.prefCollapse = w.spaceCollapse ∧ w.prefWrap = w.textWrap := by
  cases w <;> decide

/-- Pango's automatic hyphens are switched off exactly for `overflow-wrap: anywhere | break-word`. -/
theorem word_breaking_values (o : OW) : o.wordBreaking = true ↔ (o = .anywhere ∨ o = .breakWord) :=
  C09L.word_breaking_values o

/-- the keywords of the step-5 `can_break` expression -/
theorem can_break_keywords :
    Gen.LineBreak.canBreakKeywords = [WB.breakAll.css, OW.anywhere.css, OW.breakWord.css] :=
  C09L.can_break_keywords

/-- `text_align` maps exactly `left` and `right` through `direction`. -/
theorem physical_align_values (a : Align) :
    Gen.LineBreak.physicalAlignValues.contains a.css = true ↔ (a = .left ∨ a = .right) :=
  C09L.physical_align_values a

/-- The validators accept exactly the keywords the model enumerates (every value is exercised). -/
theorem keywords_complete :
    Gen.LineBreak.whiteSpaceKeywords.all (fun k => (WS.ofCss? k).isSome) = true ∧
    WS.all.all (fun w => Gen.LineBreak.whiteSpaceKeywords.contains w.css) = true ∧
    Gen.LineBreak.overflowWrapKeywords.all (fun k => (OW.ofCss? k).isSome) = true ∧
    OW.all.all (fun w => Gen.LineBreak.overflowWrapKeywords.contains w.css) = true ∧
    Gen.LineBreak.wordBreakKeywords.all (fun k => (WB.ofCss? k).isSome) = true ∧
    WB.all.all (fun w => Gen.LineBreak.wordBreakKeywords.contains w.css) = true ∧
    Gen.LineBreak.textAlignAllKeywords.all (fun k => (Align.ofCss? k).isSome) = true ∧
    Align.all.all (fun w => Gen.LineBreak.textAlignAllKeywords.contains w.css) = true ∧
    Gen.LineBreak.textAlignLastKeywords.all (fun k => k == "auto" || (Align.ofCss? k).isSome) = true :=
  C09L.keywords_complete

/-- The "unconstrained above `2 ** k`" escape of `create_layout` lies outside the property's domain
(containers up to 60em at 40px). -/
theorem width_limit_covers_domain : ((60 * 40 : Nat) : Rat) < (2 : Rat) ^ Gen.LineBreak.maxWidthLog2 :=
  C09L.width_limit_covers_domain

/-- `max_x *= 1 + 1e-9`: larger than 1, by at most 10⁻⁹. -/
theorem fudge_bounds : (1 : Rat) < Gen.LineBreak.fudge ∧ Gen.LineBreak.fudge ≤ 1 + 1 / 1000000000 :=
  C09L.fudge_bounds

/-- U+000A is one of the characters `split_text_box` accepts as a preserved line break. -/
theorem newline_is_preserved_break : Gen.LineBreak.lineBreakChars.contains ('\n').toNat = true :=
  C09L.newline_is_preserved_break

/-! ### greedy (the Pango line: the assumed component around which `split_first_line` is written) -/

/-- **greedy, fits or single unit**: Pango's first line of a paragraph `P` in width `W` is the whole
paragraph (which then fits, the end discount applied), or it fits, or it ends at the *first*
opportunity of the paragraph (a single unbreakable unit). -/
theorem greedy_fits_or_single_unit (fs : Rat) (hy wc : Bool) (P : Text) (ed : Bool) (W : Rat) :
    let p := firstBreak fs hy wc P ed (some W)
    (p = P.length ∧ (P = [] ∨ endFits fs P ed W)) ∨ fitsAt fs hy wc P W p = true ∨
      (∀ q ∈ opportunities wc P, p ≤ q) :=
  C09L.firstBreak_fits_or_unit fs hy wc P ed W

example : firstBreak 10 true false "aaa bbb ccc".toList true (some 75) = 8 ∧
    fitsAt 10 true false "aaa bbb ccc".toList 75 8 = true := by decide +kernel
example : firstBreak 10 true false "aaaaaaaaa bbb".toList true (some 30) = 10 ∧
    fitsAt 10 true false "aaaaaaaaa bbb".toList 30 10 = false := by decide +kernel

/-- **greedy, first-fit maximality**: no later opportunity fits, and when the line stops before the
end of the paragraph the whole paragraph does not fit. -/
theorem greedy_maximal (fs : Rat) (hy wc : Bool) (P : Text) (ed : Bool) (W : Rat) :
    let p := firstBreak fs hy wc P ed (some W)
    (∀ q ∈ opportunities wc P, p < q → fitsAt fs hy wc P W q = false) ∧
      (p < P.length → ¬ endFits fs P ed W) :=
  C09L.firstBreak_maximal fs hy wc P ed W

example : (8 : Nat) ∈ opportunities false "aaa bbb ccc ddd".toList ∧
    firstBreak 10 true false "aaa bbb ccc ddd".toList true (some 75) = 8 ∧
    (12 : Nat) ∈ opportunities false "aaa bbb ccc ddd".toList := by decide +kernel

/-- **breaks only at allowed opportunities**: the line ends at the paragraph end (end of text or
preserved newline) or where `canBreakAt` holds — under WRAP_WORD after a run of spaces, anywhere
under WRAP_CHAR (step 5: `break-all` / `overflow-wrap`). -/
theorem breaks_only_at_opportunities (fs : Rat) (hy wc : Bool) (P : Text) (ed : Bool) (W : Option Rat) :
    firstBreak fs hy wc P ed W = P.length ∨ canBreakAt wc P (firstBreak fs hy wc P ed W) = true :=
  C09L.firstBreak_at_opportunity fs hy wc P ed W

/-- WRAP_WORD opportunities are exactly "after a space, before a non-space". -/
theorem word_opportunity_iff (P : Text) (q : Nat) :
    canBreakAt false P q = true ↔ (0 < q ∧ P[q - 1]? = some ' ' ∧ P[q]? ≠ some ' ') := by
  simp [canBreakAt]

example : canBreakAt false "aaa bbb".toList 4 = true ∧ canBreakAt false "aaa bbb".toList 3 = false := by
  decide

/-- a line holds at least one character of a non-empty paragraph and at most the paragraph -/
theorem line_progress (fs : Rat) (hy wc : Bool) (P : Text) (ed : Bool) (W : Option Rat) (hP : P ≠ []) :
    0 < firstBreak fs hy wc P ed W ∧ firstBreak fs hy wc P ed W ≤ P.length :=
  ⟨C09L.firstBreak_pos fs hy wc P ed W hP, C09L.firstBreak_le fs hy wc P ed W⟩

/-! ### heuristic_transparent -/

/-- **Why the prefix heuristic is sound**, for any prefix (whatever `ratio`): if Pango wraps the first
`k` characters of a paragraph — its first line stops before the end of that prefix —, it wraps the
whole paragraph at the same place. -/
theorem prefix_stable (fs : Rat) (hfs : 0 ≤ fs) (hy wc : Bool) (P : Text) (ed : Bool) (W : Rat)
    (k : Nat) (hk : k ≤ P.length) (hwrap : firstBreak fs hy wc (P.take k) true (some W) < k) :
    firstBreak fs hy wc P ed (some W) = firstBreak fs hy wc (P.take k) true (some W) :=
  C09L.firstBreak_prefix_stable fs hfs hy wc P ed W k hk hwrap

example : firstBreak 10 true false ("aaa bbb ccc ddd eee fff".toList.take 12) true (some 75) = 8 ∧
    (8 : Nat) < 12 ∧ (12 : Nat) ≤ "aaa bbb ccc ddd eee fff".toList.length := by decide +kernel

/-- **heuristic_transparent (partial: the Pango call of step 1)**: whatever prefix of the text
step 1 hands to Pango — `ratio ×` the characters that fit, or one word plus one letter when the width
is below `ratio` em —, the first line it keeps (`first_line.length`, start of the second line,
width) is the first line Pango gives for the *whole* text.  For all texts (newlines included), all
widths, all styles, `font-size ≥ 0`.

Full statement: `splitFirstLineH true st text W a b = splitFirstLineH false st text W a b`; proved
below (`heuristic_transparent`) for canonical texts; false for arbitrary texts — see
`Witness.C09.heuristic_not_transparent_with_space_before_newline` — because the later steps read
`short_text` and the possibly truncated `text` again (second-line break point, `break_point or -1`
from the end of the text, the end-of-text tests of steps 3 and 5). -/
theorem heuristic_transparent_partial (st : Style) (text : Text) (W : Rat) (hfs : 0 ≤ st.fs) (d : Draft)
    (h : step1 true st text W = .ok d) :
    d.line = firstLine st.fs (createLayout st text (.fin W)) :=
  C09L.step1_line_transparent st text W hfs d h

example : (step1 true { ws := .normal, wb := .normal, ow := .normal, fs := 10 }
    "aaa bbb ccc ddd eee fff ggg hhh iii jjj".toList 75).toOption.map
      (fun d => (d.short.length, d.line.resume)) = some (30, some 8) := by decide +kernel

/-- Words separated by single spaces: no newline, no leading, trailing or double space — the texts
white-space processing produces under `white-space: normal | nowrap` (and each line of `pre-line`). -/
abbrev Canonical := C09L.Canonical

/-- `Canonical` is decidable on a concrete text. -/
theorem canonical_of_check {t : Text} (h : canonicalB t = true) : Canonical t := canonical_of_canonicalB h

example : Canonical "aaa bbb ccc dd e".toList := canonical_of_check (by decide)

/-- **greedy (full, canonical texts)**: under a wrapping `white-space`, normal `word-break` and
`overflow-wrap`, `font-size > 0`, any finite width `w` (negative, zero, huge) and any flags, the real
function's model returns exactly the **first-fit line** `firstFit`: with
`p := firstBreak …` the Pango break of the *whole* text in the layout width, the line is the first `p`
characters (trailing space stripped when white space collapses), the next line starts at `p`, the width
is the advance of what is kept; or the whole text when `p` is its length.  `p` itself is characterised
by `greedy_fits_or_single_unit`, `greedy_maximal`, `breaks_only_at_opportunities`: the line fits or is
the first unbreakable unit, no later opportunity fits, breaks happen only after a space.
Steps 1 (prefix heuristic), 3 (put the next word back, with its twice-relative break point and
`break_point or -1`) and 5 are shown to change nothing. -/
theorem greedy (heur : Bool) (st : Style) (text : Text) (w : Rat) (a b : Bool)
    (hwrap : st.ws.textWrap = true) (hwb : st.wb = .normal) (how : st.ow = .normal)
    (hfs : 0 < st.fs) (hcan : Canonical text) :
    splitFirstLineH heur st text (.fin w) a b = .ok (firstFit st text w) := by
  rw [split_canonical heur st text w a b hwrap hwb how hfs hcan, target_eq_firstFit st text w hcan.1]

example : firstFit { ws := .normal, wb := .normal, ow := .normal, fs := 10 } "aaa bbb ccc dd e".toList 75
    = { length := 7, resume := some 8, width := 70, text := "aaa bbb".toList } := by decide +kernel
example : firstFit { ws := .preWrap, wb := .normal, ow := .normal, fs := 10 } "aaaaaaaaa bbb".toList 30
    = { length := 10, resume := some 10, width := 100, text := "aaaaaaaaa ".toList } := by decide +kernel

/-- **heuristic_transparent (full, canonical texts)**: the result of `split_first_line` with its
prefix heuristic equals the result of laying out the whole text (`short_text := text`), for all
canonical texts, widths, font sizes > 0 and flags. -/
theorem heuristic_transparent (st : Style) (text : Text) (w : Rat) (a b : Bool)
    (hwrap : st.ws.textWrap = true) (hwb : st.wb = .normal) (how : st.ow = .normal)
    (hfs : 0 < st.fs) (hcan : Canonical text) :
    splitFirstLineH true st text (.fin w) a b = splitFirstLineH false st text (.fin w) a b := by
  rw [greedy true st text w a b hwrap hwb how hfs hcan, greedy false st text w a b hwrap hwb how hfs hcan]

/-- the heuristic really takes a strict prefix in this example (30 of 39 characters) -/
example : (shortText true 10 "aaa bbb ccc ddd eee fff ggg hhh iii jjj".toList 75).length = 30 := by
  decide +kernel

/-! ### lines_conserve and termination -/

/-- **`assert resume_index != 0` never fails**: for every text, style, width and flag combination
(heuristic on or off) the next line never starts at offset 0 — each line consumes at least one
character of the text. -/
theorem resume_index_never_zero (heur : Bool) (st : Style) (text : Text) (maxWidth : MaxW) (a b : Bool)
    (r : Res) (h : splitFirstLineH heur st text maxWidth a b = .ok r) : r.resume ≠ some 0 :=
  C09L.split_resume_ne_zero heur st text maxWidth a b r h

/-- **lines_conserve, the line is a prefix of the text**: no character is invented, reordered or
taken from elsewhere, whatever the heuristic prefix, the step-3 juggling and the step-5 re-wrap did. -/
theorem lines_conserve_prefix (heur : Bool) (st : Style) (text : Text) (maxWidth : MaxW) (a b : Bool)
    (r : Res) (h : splitFirstLineH heur st text maxWidth a b = .ok r) : r.text.take r.length <+: text :=
  C09L.split_line_is_prefix heur st text maxWidth a b r h

/-- **lines_conserve, what is dropped between two lines**: when `split_text_box` returns normally
with a next offset `r`, then `r = ri + skip` with `0 < ri` (progress), and the characters between the
end of the line and the next line are only spaces, or exactly one preserved line-break character
(then `preserved_line_break` is set). -/
theorem lines_conserve_dropped (st : Style) (text : Text) (avail : MaxW) (skip : Nat) (ils : Bool)
    (s : TextSplit) (r : Nat) (h : splitTextBox st text avail skip ils = .ok s) (hr : s.resume = some r) :
    ∃ len ri, r = ri + skip ∧ 0 < ri ∧
      ((((text.drop skip).take ri).drop len).all (· == ' ') = true ∨
       (s.preserved = true ∧ isLineBreakText (((text.drop skip).take ri).drop len) = true)) :=
  C09L.splitTextBox_drops_only_breaks st text avail skip ils s r h hr

example : (splitTextBox { ws := .preLine, wb := .normal, ow := .normal, fs := 10 }
    "aaa bbb\nccc".toList (.fin 50) 4 true).toOption.map (fun s => (s.resume, s.preserved))
    = some (some 8, true) := by decide +kernel

/-- **offsets strictly increase**: the `resume_at` of every line box is beyond the offset the line
started from (and each line is at `y`, one line-height high or a phantom box of height 0). -/
theorem offsets_increase (p : Para) (skip : Option Nat) (y : Rat) (first : Bool) (l : OutLine)
    (h : nextLine p skip y first = .ok (some l)) :
    l.y = y ∧ (l.h = 0 ∨ l.h = p.lineHeight) ∧ ∀ r, l.resume = some r → skip.getD 0 < r :=
  C09L.nextLine_spec p skip y first l h

/-- **termination of `iter_line_boxes`**: because offsets strictly increase, `text.length + 2` rounds
always suffice — the loop is never cut by the fuel of the model. -/
theorem iter_lines_terminates (p : Para) (fuel : Nat) (skip : Option Nat) (y : Rat) (first : Bool)
    (h1 : 1 ≤ fuel) (h2 : p.text.length + 2 ≤ fuel + skip.getD 0) :
    iterLines p fuel skip y first ≠ none :=
  C09L.iterLines_fuel p fuel skip y first h1 h2

/-! ### `nowrap` / `pre` never break at spaces -/

/-- Under a non-wrapping `white-space` the only line end is a preserved newline. -/
theorem no_wrap_breaks_only_at_newline (heur : Bool) (st : Style) (text : Text) (maxWidth : MaxW)
    (a b : Bool) (r : Res) (hw : st.ws.textWrap = false)
    (h : splitFirstLineH heur st text maxWidth a b = .ok r) :
    r.resume = (find text '\n').map (· + 1) :=
  C09L.no_wrap_breaks_only_at_newline heur st text maxWidth a b r hw h

/-- … and without a newline the whole text is one line, as wide as its characters, however narrow
the available width. -/
theorem no_wrap_single_line (heur : Bool) (st : Style) (text : Text) (maxWidth : MaxW) (a b : Bool)
    (r : Res) (hw : st.ws.textWrap = false) (hnl : find text '\n' = none)
    (h : splitFirstLineH heur st text maxWidth a b = .ok r) :
    r = { length := text.length, resume := none, width := (text.length : Rat) * st.fs, text := text } :=
  C09L.no_wrap_single_line heur st text maxWidth a b r hw hnl h

example : (splitFirstLine { ws := .nowrap, wb := .normal, ow := .normal, fs := 10 }
    "aaa bbb ccc".toList (.fin 30) true false).toOption
    = some { length := 11, resume := none, width := 110, text := "aaa bbb ccc".toList } := by decide +kernel

/-! ### align -/

/-- `text_align` is total: its final `assert align == 'end'` cannot fail. -/
theorem align_total (s : AlignStyle) (line : IBox) (lw avail : Rat) (last : Bool) :
    ∃ off line', textAlign s line lw avail last = .ok (off, line') :=
  C09L.align_total s line lw avail last

/-- **align, range**: the offset is `0` when the line is not narrower than the available width, and
lies in `[0, avail − width]` otherwise — for every `text-align-all`, `text-align-last`, direction. -/
theorem align_offset_range (s : AlignStyle) (line line' : IBox) (lw avail off : Rat) (last : Bool)
    (h : textAlign s line lw avail last = .ok (off, line')) :
    (lw ≥ avail → off = 0) ∧ (lw < avail → 0 ≤ off ∧ off ≤ avail - lw) :=
  C09L.align_offset_range s line line' lw avail off last h

/-- **align, values**: start → flush with the start edge, end → flush with the end edge, center →
equal space on both sides, justify → start edge (the spaces take the rest).  `resolveAlign` is the
keyword after `text-align-last` (last line / forced break) and after `left` / `right` are mapped
through `direction`. -/
theorem align_offset_value (s : AlignStyle) (line line' : IBox) (lw avail off : Rat) (last : Bool)
    (hlt : lw < avail) (h : textAlign s line lw avail last = .ok (off, line')) :
    (resolveAlign s last = .start → off = 0) ∧
    (resolveAlign s last = .«end» → off = avail - lw) ∧
    (resolveAlign s last = .center → off + off = avail - lw) ∧
    (resolveAlign s last = .justify → off = 0) :=
  C09L.align_offset_value s line line' lw avail off last hlt h

example : resolveAlign { alignAll := .justify, alignLast := some .right, ws := .normal, rtl := true } true
    = .start := by decide

/-- **justify**: `nb_spaces · (extra / nb_spaces) = extra` — a line with at least one expandable
space becomes exactly `extra` wider, through any nesting of inline boxes, in both directions. -/
theorem justify_width (x w : Rat) (rtl : Bool) (kids : List IBox) (extra : Rat)
    (hs : countSpaces (.inl x w rtl kids) ≠ 0) :
    IBox.width (justifyLine (.inl x w rtl kids) extra) = w + extra :=
  C09L.justifyLine_width x w rtl kids extra hs

/-- **justified width = available width**. -/
theorem justified_line_fills (s : AlignStyle) (x lw : Rat) (rtl : Bool) (kids : List IBox)
    (avail off : Rat) (last : Bool) (line' : IBox)
    (hlt : lw < avail) (hj : resolveAlign s last = .justify) (hc : s.ws.alignCollapse = true)
    (hs : countSpaces (.inl x lw rtl kids) ≠ 0)
    (h : textAlign s (.inl x lw rtl kids) lw avail last = .ok (off, line')) :
    off = 0 ∧ IBox.width line' = avail :=
  C09L.justified_line_fills s x lw rtl kids avail off last line' hlt hj hc hs h

/-- the spaces inside an atomic inline-level box (an inline-block holding `cc dd`) are not expandable
spaces of the line: 3, not 4 -/
example : countSpaces (.inl 0 70 false [.text 0 30 1, .inl 30 40 true [.atom 30 true [.inl 30 0 false [.text 30 0 1]],
    .text 30 40 2]]) = 3 := by
  decide

/-! ### stack -/

/-- **stack**: the line boxes `iter_line_boxes` yields are stacked from `y` without gap or overlap:
the first starts at `y`, each next one at `yₖ + hₖ`. -/
theorem stack (p : Para) (fuel : Nat) (skip : Option Nat) (y : Rat) (first : Bool) (ls : List OutLine)
    (h : iterLines p fuel skip y first = some (.ok ls)) : Stacked y ls :=
  C09L.iterLines_stacked p fuel skip y first ls h

/-- every line box is one used line-height high, or a phantom line box of height 0 -/
theorem line_heights (p : Para) (fuel : Nat) (skip : Option Nat) (y : Rat) (first : Bool) (ls : List OutLine)
    (h : iterLines p fuel skip y first = some (.ok ls)) : ∀ l ∈ ls, l.h = 0 ∨ l.h = p.lineHeight :=
  C09L.iterLines_heights p fuel skip y first ls h

/-- a concrete paragraph, centred, stacked from y = 5 with line-height 12 -/
def examplePara : Para :=
  { st := { ws := .normal, wb := .normal, ow := .normal, fs := 10 }
    text := "aaa bbb ccc dd e".toList
    lineHeight := 12
    cbx := 7
    width := 75
    indent := 0
    align := { alignAll := .center, alignLast := none, ws := .normal, rtl := false }
    y := 5 }

example : (paragraph examplePara).toOption.map (fun ls => ls.map (fun l => (l.x, l.y, l.w, l.h))) =
    some [((19 : Rat) / 2, (5 : Rat), (70 : Rat), (12 : Rat)), (29 / 2, 17, 60, 12), (79 / 2, 29, 10, 12)] := by
  decide +kernel

/-! ### dictionary hyphenation (step 4) and nested inline boxes -/

/-- Without `hyphens: auto` + language the model with step 4 is the model without it. -/
theorem hyphenation_off_is_plain (st : Style) (text : Text) (w : MaxW) (a b : Bool) :
    Hy.splitFirstLineHy st none text w a b = splitFirstLine st text w a b := rfl

/-- **breaks at dictionary hyphenation points only, and only at those of the element's own limits**:
whenever step 4 hyphenates, the next word (delimited by Pango's word boundaries in the second-line
text) has at least `hyphenate-limit-chars` (total) letters, and the next line starts right after one
of the first parts that the dictionary consulted *for this element's left / right limits* (`cfg.dict`)
lists for that word.  (A dictionary cached for another element's limits breaks this: seed C09-2.) -/
theorem hyphenation_only_at_dictionary_points (st : Style) (cfg : Hy.Cfg) (maxW : MaxW) (flt slt : Text)
    (s : Hy.State) (hs : s.hyphenated = false) (h : (Hy.step4 st cfg maxW flt slt s).hyphenated = true) :
    ∃ sw ew parts k, Hy.nextWordBoundaries slt = some (sw, ew) ∧ cfg.total ≤ ew - sw ∧
      (cfg.dict.find? (fun e => e.1 == (slt.take ew).drop sw)).map (·.2) = some parts ∧ k ∈ parts ∧
      (Hy.step4 st cfg maxW flt slt s).ri =
        some (flt ++ slt.take sw ++ ((slt.take ew).drop sw).take k).length :=
  C09L.step4_breaks_at_dictionary_points st cfg maxW flt slt s hs h

example : (Hy.splitFirstLineHy { ws := .normal, wb := .normal, ow := .normal, fs := 10 }
    (some { total := 5, zonePct := false, zone := 0, hchar := "‐".toList,
            dict := [("remember".toList, [5, 2]), ("yesterday".toList, [6, 3])] })
    "remember yesterday".toList (.fin 60) true false).toOption
    = some { length := 5, resume := some 5, width := 60, text := "remem‐".toList } := by decide +kernel
example : (Hy.splitFirstLineHy { ws := .normal, wb := .normal, ow := .normal, fs := 10 }
    (some { total := 5, zonePct := false, zone := 0, hchar := "‐".toList,
            dict := [("remember".toList, [2]), ("yesterday".toList, [6, 3])] })
    "remember yesterday".toList (.fin 60) true false).toOption
    = some { length := 2, resume := some 2, width := 30, text := "re‐".toList } := by decide +kernel

/-- **an inline box carries its start spacing on its first fragment only and its end spacing on its
last fragment only** (`remove_decoration(start=not is_start, end=not is_end)`), and the fragment sits
at the `position_x` it was given. -/
theorem inline_spacing_first_last (ws : WS) (split : IR.Split) (ls rs : Rat) (deco : Bool) (kids : List IR.Node)
    (posX maxX : Rat) (skip : Option IR.Skip) (o : IR.LevelOut)
    (h : IR.boxLevel ws split ls rs deco kids posX maxX skip = .ok o) :
    ∃ w frags, o.frag = some (.box posX w (if skip.isNone then ls else 0) (if o.resume.isNone then rs else 0)
      deco frags) :=
  C09L.box_spacing_first_last ws split ls rs deco kids posX maxX skip o h

/-- shifting a box (start spacing, `text-align`) does not change its extent -/
theorem translate_keeps_extent (dx : Rat) (f : IR.Frag) : (f.translate dx).marginWidth = f.marginWidth :=
  C09L.translate_marginWidth dx f

/-- the seed-1 shape: a span with end spacing, three children, ending on a continuation line — the
end spacing (20) is reserved for the last child there too: `ccc` / `ddd` + 20, not `ccc ddd` + 20 = 90 -/
def seedShapePara : IR.Para :=
  { st := { ws := .normal, wb := .normal, ow := .normal, fs := 10 }
    kids := [.box 0 20 true [.text "aaa ".toList, .box 0 0 false [.text "bbb".toList], .text " ccc ddd".toList]]
    lineHeight := 10
    cbx := 0
    width := 80
    indent := 0
    align := { alignAll := .start, alignLast := none, ws := .normal, rtl := false }
    y := 0 }

example : (IR.paragraph seedShapePara).toOption.map (fun ls => ls.map (·.w)) = some [70, 30, 50] := by
  decide +kernel

/-- **content lies inside the block** (ltr): the line box of a text line starts at the block's content
edge or to its right and — when it is not wider than the block — ends inside it, for every
`text-align-all` / `text-align-last`, justified or not; a wider line starts at the content edge; the
text box starts `text-indent` (`posX − lineX`) inside the line and ends with it. -/
theorem content_inside_block (p : Para) (lineX posX y : Rat) (s : TextSplit) (c : Child) (l : OutLine)
    (hrtl : p.align.rtl = false) (h : textLine p lineX posX y s c = .ok l) :
    l.y = y ∧ l.h = p.lineHeight ∧ l.resume = s.resume ∧
    (l.w ≤ p.width → lineX ≤ l.x ∧ l.x + l.w ≤ lineX + p.width) ∧
    (p.width < l.w → l.x = lineX) ∧
    ∃ t cx cw, l.child = some (t, cx, cw) ∧ cx = l.x + (posX - lineX) ∧ cx + cw = l.x + l.w :=
  C09L.text_line_inside_block p lineX posX y s c l hrtl h

example : ((textLine examplePara 7 7 5 { child := none, resume := some 8, preserved := false }
    { text := "aaa bbb".toList, width := 70 }).toOption.map (fun l => (l.x, l.w))) = some (19 / 2, 70) := by
  decide +kernel

/-! ### preferred widths (`layout/preferred.py`) and the shrink-to-fit round trip -/

/-- With no width at all a text without newline is one line as wide as its characters, in every
`white-space` mode (what `inline_max_content_width` measures). -/
theorem unconstrained_single_line (heur : Bool) (st : Style) (text : Text) (a b : Bool)
    (hnl : find text '\n' = none) :
    splitFirstLineH heur st text .none a b =
      .ok { length := text.length, resume := none, width := (text.length : Rat) * st.fs, text := text } :=
  C09L.unconstrained_single_line heur st text a b hnl

/-- **max-content width of a canonical text** (`inline_max_content_width`, whatever `outer` and
`is_line_start`) is the advance of all its characters. -/
theorem max_content_of_text (st : Style) (t : Text) (outer ils : Bool) (hfs : 0 ≤ st.fs) (hcan : Canonical t) :
    IP.maxContentWidth st [.text t] 0 outer ils = .ok ((t.length : Rat) * st.fs) :=
  C09L.maxContent_text st t outer ils hfs hcan

/-- **shrink-to-fit round trip**: a canonical text laid out in exactly its max-content width is not
broken (font size a whole number of Pango units, as the real glyph advances are). -/
theorem max_content_fits_one_line (heur : Bool) (st : Style) (t : Text) (a b : Bool)
    (hwrap : st.ws.textWrap = true) (hwb : st.wb = .normal) (how : st.ow = .normal)
    (hfs : 0 < st.fs) (k : Int) (hk : st.fs * 1024 = k) (hcan : Canonical t) :
    splitFirstLineH heur st t (.fin ((t.length : Rat) * st.fs)) a b =
      .ok { length := t.length, resume := none, width := (t.length : Rat) * st.fs, text := t } :=
  C09L.max_content_fits_one_line heur st t a b hwrap hwb how hfs k hk hcan

example : (IP.maxContentWidth { ws := .normal, wb := .normal, ow := .normal, fs := 10 }
    [.text "aaa bbb ".toList, .box 5 7 true [.text "cc".toList]] 3 true false).toOption = some 115 := by decide +kernel
example : (IP.minContentWidth { ws := .normal, wb := .normal, ow := .normal, fs := 10 }
    [.text "aaa bbbb ".toList, .box 5 7 true [.text "cc".toList]] 0 true false false none).toOption = some 40 := by
  decide +kernel

/-! ### vertical stacking inside and between lines (`Model/LineVertical`) -/

/-- **every box is one line-height high**: the margin box of a text box and of an inline box is the
used `line-height` of its own style, for every font size, line-height, vertical border and padding
(the half-leading assignments of `split_text_box` / `split_inline_box`). -/
theorem box_height_is_line_height (n : LV.VNode) :
    (LV.build n).marginHeight = (LV.strutLayout (nodeStyle n)).1 :=
  C09L.build_marginHeight n

/-- **a line is at least one line-height high**, whatever it contains. -/
theorem line_at_least_line_height (lineSt : LV.VStyle) (kids : List LV.VNode) (posY : Rat) (l : LV.VLine)
    (h : LV.layoutLine lineSt kids posY = .ok l) : (LV.strutLayout lineSt).1 ≤ l.height :=
  C09L.line_at_least_line_height lineSt kids posY l h

/-- **no overlap between lines** (full strength since fix 5152049): in every line, every box — at any
nesting depth, for any font sizes, line-heights, borders and paddings, and **every** `vertical-align`
value: `baseline` / `middle` / `text-top` / `text-bottom` / lengths, and `top` / `bottom` boxes holding
inline boxes or further `top` / `bottom` boxes — has its margin box inside the line box
`[y, y + height]`, and the line is placed at the `position_y` it was given.  With `stack` (each line
starts where the previous one ends) no box can overlap a neighbouring line.
(Was `boxes_inside_line_partial` / `boxes_inside_line_top_bottom_partial` with the hypothesis that a
`top` / `bottom` box holds only text; regression of the old witness:
`Witness.C09.top_aligned_grandchild_moves_with_subtree`.) -/
theorem boxes_inside_line (lineSt : LV.VStyle) (kids : List LV.VNode) (posY : Rat) (l : LV.VLine)
    (h : LV.layoutLine lineSt kids posY = .ok l) :
    l.y = posY ∧ ∀ d ∈ allBoxesL l.kids, l.y ≤ d.y ∧ d.y + d.marginHeight ≤ l.y + l.height :=
  C09L.boxes_inside_line_full lineSt kids posY l h

/-- without any `top` / `bottom` box `translate_subtree` is never called: nothing moves after placement -/
theorem no_top_bottom_nothing_moves (a b : Rat) (ks : List LV.VBox) (h : noTBL ks = true) : LV.shiftL a b 0 ks = ks :=
  C09L.shiftL_noTB a b ks h

def exampleVStyle (fs : Rat) (lh : LV.LineHeight) (va : LV.VAlign) : LV.VStyle :=
  { fs := fs, lh := lh, va := va, bt := 1, pt := 2, pb := 0, bb := 3,
    textHeight := fs, textBaseline := fs * 4 / 5, ex := 1 / 2 }

example : noTBNodeL [.text (exampleVStyle 10 .normal .baseline),
    .box (exampleVStyle 20 (.px 30) .middle) [.text (exampleVStyle 20 (.px 30) .baseline),
      .box (exampleVStyle 8 (.num 2) (.len 4)) [.text (exampleVStyle 8 (.num 2) .baseline)]]] = true := by decide
example : (LV.layoutLine (exampleVStyle 10 .normal .baseline) [.text (exampleVStyle 10 .normal .baseline),
    .box (exampleVStyle 20 (.px 30) .middle) [.text (exampleVStyle 20 (.px 30) .baseline),
      .box (exampleVStyle 8 (.num 2) (.len 4)) [.text (exampleVStyle 8 (.num 2) .baseline)]]] 5).toOption.map
    (fun l => (l.y, l.height)) = some (5, 30) := by decide +kernel

/-- a `top` span of 30px line-height and a `bottom` span in a 10px line: the line grows to 30 -/
example : (LV.layoutLine (exampleVStyle 10 .normal .baseline) [.text (exampleVStyle 10 .normal .baseline),
    .box (exampleVStyle 20 (.px 30) .top) [.text (exampleVStyle 20 (.px 30) .baseline)],
    .box (exampleVStyle 8 (.num 2) .bottom) [.text (exampleVStyle 8 (.num 2) .baseline)]] 5).toOption.map
    (fun l => (l.y, l.height, (allBoxesL l.kids).map (fun d => (d.y, d.marginHeight)))) =
    some (5, 30, [(5, 10), (5, 30), (5, 30), (19, 16), (19, 16)]) := by decide +kernel

/-- nested: a `top` span holding a 20px inline box and a `bottom` span holding a `top` span — all of
them inside the line `[5, 35]` (the hypotheses of `boxes_inside_line` are satisfiable there) -/
example : (LV.layoutLine (exampleVStyle 10 .normal .baseline) [.text (exampleVStyle 10 .normal .baseline),
    .box (exampleVStyle 10 .normal .top) [.box (exampleVStyle 20 (.px 30) .baseline) [.text (exampleVStyle 20 (.px 30) .baseline)]],
    .box (exampleVStyle 8 (.num 2) .bottom) [.box (exampleVStyle 8 (.num 1) .top) [.text (exampleVStyle 8 (.num 1) .baseline)]]] 5).toOption.map
    (fun l => (l.y, l.height, (allBoxesL l.kids).all (fun d => decide (l.y ≤ d.y ∧ d.y + d.marginHeight ≤ l.y + l.height)))) =
    some (5, 30, true) := by decide +kernel

/-! ### lines in the width left between floats (`Model/LineFloats` on C11's `avoid_collisions`) -/

open Wp.Floats in
/-- **the gap is free of floats**: wherever `avoid_collisions` puts a line box of strut height `h`,
every rectangle inside the width it returns and not higher than the strut — of any width, so also the
line built there afterwards — has empty interior intersection with every float and lies inside the
containing block.  For every list of floats, every position and size. -/
theorem gap_free_of_floats (shapes : List Shape) (y w h : Rat) (cb : CB) (hl : cb.rtl = false) (pl : Placement)
    (ha : avoidCollisions shapes (LF.lineABox y w h) cb false = .ok pl) (hh : 0 < h) (hp : C11.Proper shapes)
    (x w' h' : Rat) (hx1 : pl.x ≤ x) (hx2 : x + w' ≤ pl.x + pl.avail) (hh' : h' ≤ h) :
    (∀ s ∈ shapes, ¬ C11.Overlaps x pl.y w' h' s) ∧ cb.cx ≤ x ∧ x + w' ≤ cb.cx + cb.w :=
  LFL.gap_free_of_floats shapes y w h cb hl pl ha hh hp x w' h' hx1 hx2 hh'

open Wp.Floats in
/-- **a line inside its gap is clear of the floats.**  The line `get_next_linebox` returns sits at the
position of its first placement (min-content width of the first line × strut height); if it lies
horizontally inside the width left there, it overlaps no float over the strut height and is inside the
block.  The hypothesis is not always true of the code: with a `text-indent` the min-content width of
later lines is wrong and a line is put into a gap it does not fit
(`Witness.C09.float_gap_ignores_line_width_with_indent`, finding float-gap-text-indent-later-lines). -/
theorem line_in_gap_clear_partial (shapes : List Shape) (p : Para) (skip : Option Nat) (y : Rat) (first : Bool)
    (l : OutLine) (hne : shapes ≠ []) (hp : C11.Proper shapes) (hh : 0 < LF.strutHeight p)
    (h : LF.nextLine shapes p skip y first = .ok (some l)) :
    ∃ w0 place, avoidCollisions shapes (LF.lineABox y w0 (LF.strutHeight p)) (LFL.cbOf p) false = .ok place ∧
      l.y = place.y ∧
      (place.x ≤ l.x → l.x + l.w ≤ place.x + place.avail → ∀ h' ≤ LF.strutHeight p,
        (∀ s ∈ shapes, ¬ C11.Overlaps l.x l.y l.w h' s) ∧ p.cbx ≤ l.x ∧ l.x + l.w ≤ p.cbx + p.width) :=
  LFL.line_in_gap_clear shapes p skip y first l hne hp hh h

/-- **lines next to floats never overlap each other**: each line starts at or below the bottom of the
line before (floats push lines down, nothing pulls them up), for every list of floats. -/
theorem float_lines_stacked (shapes : List Floats.Shape) (p : Para) (fuel : Nat) (skip : Option Nat) (y : Rat)
    (first : Bool) (ls : List OutLine) (h : LF.iterLines shapes p fuel skip y first = some (.ok ls)) :
    LFL.StackedBelow y ls :=
  LFL.iterLines_stacked shapes p fuel skip y first ls h

/-- … and each is one used line-height high, or a phantom line box -/
theorem float_line_heights (shapes : List Floats.Shape) (p : Para) (fuel : Nat) (skip : Option Nat) (y : Rat)
    (first : Bool) (ls : List OutLine) (h : LF.iterLines shapes p fuel skip y first = some (.ok ls)) :
    ∀ l ∈ ls, l.h = 0 ∨ l.h = p.lineHeight :=
  LFL.iterLines_heights shapes p fuel skip y first ls h

/-- **termination next to floats**: `text.length + 2` rounds of `iter_line_boxes` suffice whatever the
floats are. -/
theorem float_lines_terminate (shapes : List Floats.Shape) (p : Para) (fuel : Nat) (skip : Option Nat) (y : Rat)
    (first : Bool) (h1 : 1 ≤ fuel) (h2 : p.text.length + 2 ≤ fuel + skip.getD 0) :
    LF.iterLines shapes p fuel skip y first ≠ none :=
  LFL.iterLines_fuel shapes p fuel skip y first h1 h2

/-- **refinement: no float = the plain paragraph.**  With no excluded shape the float-aware
`get_next_linebox` is line for line the model of `Model/LineBreak` (for which `greedy`, `stack`,
`content_inside_block` … are proved): the two layers are tied by proof, not only by tests. -/
theorem no_float_is_plain_paragraph (p : Para) (hl : p.align.rtl = false) : LF.paragraph [] p = paragraph p := by
  unfold LF.paragraph paragraph
  rw [LFL.iterLines_no_float p hl]
  rfl

/-- a paragraph beside a right float 30 wide and 25 high: two shortened lines, then full lines -/
def floatExamplePara : Para :=
  { examplePara with text := "aaa bbb ccc dd eeee ff".toList, cbx := 0, width := 80, y := 0,
                     align := { alignAll := .start, alignLast := none, ws := .normal, rtl := false } }

example : (LF.paragraph [⟨50, 0, 30, 20, .right⟩] floatExamplePara).toOption.map
    (fun ls => ls.map (fun l => (l.x, l.y, l.w))) = some [(0, 0, 30), (0, 12, 30), (0, 24, 60), (0, 36, 70)] := by
  decide +kernel
example : (LF.iterLines [⟨50, 0, 30, 20, .right⟩] floatExamplePara 23 none 0 true).map
    (fun r => r.toOption.map (fun ls => ls.map (fun l => (l.y, l.h)))) =
    some (some [(0, 12), (12, 12), (24, 12), (36, 12)]) := by decide +kernel
example : (Floats.avoidCollisions [⟨50, 0, 30, 20, .right⟩] (LF.lineABox 0 30 12) ⟨0, 80, false⟩ false).toOption
    = some ⟨0, 0, 50⟩ ∧ C11.Proper [⟨50, 0, 30, 20, .right⟩] := by
  constructor
  · decide +kernel
  · intro s hs; simp at hs; subst hs; decide +kernel
example : (LF.paragraph [] floatExamplePara).toOption.map (fun ls => ls.map (fun l => (l.y, l.w)))
    = some [(0, 70), (12, 60), (24, 70)] := by decide +kernel

/-! ### nested inline boxes next to floats (`Model/LineFloatsInline`) and under every `white-space` -/

/-- **refinement: no float = the plain nested-inline paragraph.**  With no excluded shape the float-aware
`get_next_linebox` for nested inline boxes is line for line `Model/InlineRun` (the model the inline-doc
correspondence ties to rendered paragraphs): the layers are tied by proof. -/
theorem no_float_is_plain_inline_paragraph (p : IR.Para) : LFI.paragraph [] p = IR.paragraph p := by
  unfold LFI.paragraph IR.paragraph
  rw [LFIL.iterLines_no_float p]
  rfl

/-- **lines of nested inline boxes next to floats never overlap each other**: each starts at or below the
bottom of the one before, whatever the floats, the nesting and the `white-space` value. -/
theorem float_inline_lines_stacked (shapes : List Floats.Shape) (p : IR.Para) (fuel : Nat) (skip : Option IR.Skip)
    (y : Rat) (first : Bool) (ls : List IR.OutLine)
    (h : LFI.iterLines shapes p fuel skip y first = some (.ok ls)) : LFIL.StackedBelow y ls :=
  LFIL.iterLines_stacked shapes p fuel skip y first ls h

/-- **`nowrap` / `pre`: a waiting child is never re-broken.**  Under a `white-space` value for which
`can_break_inside` does not wrap, `_break_waiting_children` finds no break in any waiting child, for
every nesting and every text; with `no_break_between_iff_no_wrap` (no opportunity between two children
either) the only line ends inside nested inline boxes are the preserved line breaks. -/
theorem no_rebreak_without_wrap (ws : WS) (hw : ws.breakInside = false) (split : IR.Split) (skip : Option IR.Skip)
    (kept waiting : List IR.Entry) : IR.tryWaiting ws split skip kept waiting = .ok none :=
  LFIL.tryWaiting_no_wrap ws hw split skip kept waiting

example : WS.nowrap.breakInside = false ∧ WS.pre.breakInside = false ∧ WS.preLine.breakInside = true := by decide

/-- **`nowrap` / `pre` never break at spaces, nested inline boxes included** (the clause of the
property for the non-wrapping `white-space` values, at document level): whenever a line box of a
paragraph of nested inline boxes is followed by another line, the character just before the resume
point — found by following the `resume_at` path down the box tree — is a preserved line break.  For
every nesting, spacing, width, text and every `trailing_collapsible_space` flag (full strength since
fix fd6f32a: the collapsed space of `aaa <b> </b>bbb` is no break opportunity under `nowrap` any more;
was `nested_no_wrap_breaks_only_at_newline_partial`, regression of the old witness:
`Witness.C09.nowrap_does_not_break_after_collapsed_space`); `no_wrap_breaks_only_at_newline` is the
same statement for one text box.  (Ingredients: no opportunity between two children,
`no_rebreak_without_wrap`, and the dead "put the child on the next line" branch.) -/
theorem nested_no_wrap_breaks_only_at_newline (p : IR.Para) (hw : p.st.ws.textWrap = false) (skip : Option IR.Skip)
    (y : Rat) (first : Bool) (l : IR.OutLine) (h : IR.nextLine p skip y first = .ok (some l)) (r : IR.Skip)
    (hr : l.resume = some r) : LFIL.charBefore (.box 0 0 false p.kids) r = some '\n' :=
  LFIL.nextLine_no_wrap p hw skip y first l h r hr

def prePara : IR.Para :=
  { st := { ws := .pre, wb := .normal, ow := .normal, fs := 10 }
    kids := [.box 0 0 false [.text "aaa bbb\n".toList, .box 0 0 false [.text "ccc ddd".toList]]]
    lineHeight := 10, cbx := 0, width := 40, indent := 0
    align := { alignAll := .start, alignLast := none, ws := .pre, rtl := false }, y := 0 }

example : (IR.nextLine prePara none 0 true).toOption.map
    (fun o => o.map (fun l => (l.w, l.resume.map (fun r => LFIL.charBefore (.box 0 0 false prePara.kids) r)))) =
    some (some (70, some (some '\n'))) := by decide +kernel

/-- the seed-5 shape: `<em>aa bbbbbbb cc dd</em>` in a 100px block with a left float 60 × 20: the second
line resumes inside the `<em>` at `bbbbbbb`; its tentative width is that of `bbbbbbb` (70), not of the
element's first word `aa` (20), so it does not fit in the 40px beside the float and goes below it. -/
def emPara : IR.Para :=
  { st := { ws := .normal, wb := .normal, ow := .normal, fs := 10 }
    kids := [.box 0 0 false [.text "aa bbbbbbb cc dd".toList]]
    lineHeight := 10, cbx := 0, width := 100, indent := 0
    align := { alignAll := .start, alignLast := none, ws := .normal, rtl := false }, y := 0 }

example : (LFI.tentative [⟨0, 0, 60, 20, .left⟩] emPara (some (.mk 0 (some (.mk 0 (some (.mk 3 none))))))).toOption = some (70, 10) ∧
    (LFI.tentative [⟨0, 0, 60, 20, .left⟩] emPara none).toOption = some (20, 10) := by decide +kernel
example : (LFI.paragraph [⟨0, 0, 60, 20, .left⟩] emPara).toOption.map (fun ls => ls.map (fun l => (l.x, l.y, l.w))) =
    some [(60, 0, 20), (0, 20, 100), (0, 30, 20)] := by decide +kernel
example : (LFI.paragraph [] emPara).toOption.map (fun ls => ls.map (fun l => (l.x, l.y, l.w))) =
    some [(0, 0, 100), (0, 10, 50)] := by decide +kernel

/-- nested inline boxes under `pre-line`: the preserved line break inside the span ends the first line,
which is then aligned like a last line (`text-align-last: end`), and `bb cc<b>ddd</b>` is re-broken at the
space before `cc` when `ddd` overflows (the seed-6 shape): `a` / `bb` / `ccddd` / `ee`. -/
example : (IR.paragraph { emPara with
      st := { ws := .preLine, wb := .normal, ow := .normal, fs := 10 }, width := 70,
      align := { alignAll := .start, alignLast := some .«end», ws := .preLine, rtl := false },
      kids := [.text "a\nbb cc".toList, .box 0 0 false [.text "ddd".toList], .text " ee".toList] }).toOption.map
    (fun ls => ls.map (fun l => (l.x, l.w))) = some [(60, 10), (0, 20), (0, 50), (50, 20)] := by decide +kernel

/-! ### nested inline boxes: stacking and containment at document level -/

/-- **nested inline boxes: the line lies inside the block** (ltr, every `text-align-all` /
`text-align-last`, every `white-space`, nesting and spacing): the line box `get_next_linebox` returns
is at the `position_y` it was given, one line-height high or a phantom box, starts at the block's
content edge or to its right and — when it is not wider than the block — ends inside it; a wider line
starts at the content edge. -/
theorem inline_line_inside_block (p : IR.Para) (skip : Option IR.Skip) (y : Rat) (first : Bool) (l : IR.OutLine)
    (h : IR.nextLine p skip y first = .ok (some l)) :
    l.y = y ∧ (l.h = 0 ∨ l.h = p.lineHeight) ∧
    (l.w ≤ p.width → p.cbx ≤ l.x ∧ l.x + l.w ≤ p.cbx + p.width) ∧ (p.width < l.w → l.x = p.cbx) := by
  unfold IR.nextLine at h
  simp only [Except.bind] at h
  split at h
  · cases h
  · split at h
    · cases h
    · split at h
      · cases h
      · rename_i lo hlo
        split at h
        · cases h
          exact ⟨rfl, Or.inl rfl, fun hle => ⟨by grind, by grind⟩, fun _ => rfl⟩
        · split at h
          · cases h
          · rename_i rl hrl
            simp only [Except.map] at h
            split at h
            · cases h
            · rename_i r hta
              cases h
              obtain ⟨off, line'⟩ := r
              have hr := C09L.align_offset_range p.align _ line' _ _ off _ hta
              refine ⟨rfl, Or.inr rfl, fun hle => ?_, fun hlt => ?_⟩
              · simp only at hle ⊢
                by_cases hge : lo.w - rl.2 ≥ p.width
                · have := hr.1 hge; subst this; constructor <;> grind
                · have := hr.2 (by grind); constructor <;> grind
              · simp only at hlt ⊢
                have := hr.1 (by grind); subst this; grind

example : (IR.nextLine seedShapePara none 0 true).toOption.map (fun o => o.map (fun l => (l.x, l.w))) =
    some (some (0, 70)) := by decide +kernel
/-- lines of nested inline boxes stacked from `y`: each starts where the previous one ends -/
def InlineStacked : Rat → List IR.OutLine → Prop
  | _, [] => True
  | y, l :: ls => l.y = y ∧ InlineStacked (l.y + l.h) ls

/-- **paragraph of nested inline boxes: stacked without gap or overlap, every line inside the block**
(document-level form of `stack` + `content_inside_block` for `Model/InlineRun`, every `white-space`
value): the line boxes `iter_line_boxes` yields start at `y`, each next one where the previous ends;
each is one line-height high or a phantom box, and lies between the block's content edges unless it is
wider than the block (then it starts at the content edge). -/
theorem inline_paragraph_stacked_inside (p : IR.Para) : ∀ (fuel : Nat) (skip : Option IR.Skip) (y : Rat) (first : Bool)
    (ls : List IR.OutLine), IR.iterLines p fuel skip y first = some (.ok ls) →
    InlineStacked y ls ∧ ∀ l ∈ ls, (l.h = 0 ∨ l.h = p.lineHeight) ∧
      (l.w ≤ p.width → p.cbx ≤ l.x ∧ l.x + l.w ≤ p.cbx + p.width) ∧ (p.width < l.w → l.x = p.cbx)
  | 0, _, _, _, _, h => by cases h
  | fuel + 1, skip, y, first, ls, h => by
    unfold IR.iterLines at h
    cases hn : IR.nextLine p skip y first with
    | error e => rw [hn] at h; cases h
    | ok o =>
      rw [hn] at h
      cases o with
      | none => simp only at h; cases h; exact ⟨trivial, by intro l hl; cases hl⟩
      | some line =>
        simp only at h
        obtain ⟨hy, hh, hin, hout⟩ := inline_line_inside_block p skip y first line hn
        cases hr : line.resume with
        | none =>
          rw [hr] at h; simp only at h; cases h
          refine ⟨⟨hy, trivial⟩, ?_⟩
          intro l hl
          simp only [List.mem_singleton] at hl
          subst hl
          exact ⟨hh, hin, hout⟩
        | some r =>
          rw [hr] at h
          simp only at h
          cases hi : IR.iterLines p fuel (some r) (line.y + line.h) false with
          | none => rw [hi] at h; cases h
          | some res =>
            rw [hi] at h
            cases res with
            | error e => cases h
            | ok rest =>
              simp only [Option.map, Except.map] at h
              cases h
              have ih := inline_paragraph_stacked_inside p fuel (some r) _ false rest hi
              refine ⟨⟨hy, ih.1⟩, ?_⟩
              intro l hl
              rcases List.mem_cons.mp hl with rfl | hm
              · exact ⟨hh, hin, hout⟩
              · exact ih.2 l hm

example : (IR.iterLines seedShapePara 30 none 0 true).map (fun r => r.toOption.map (fun ls => ls.map (fun l => (l.y, l.h, l.x, l.w)))) =
    some (some [(0, 10, 0, 70), (10, 10, 0, 30), (20, 10, 0, 50)]) := by decide +kernel

/-! ### from the source text to the line (`Model/InlineSource`) -/

/-- **no emptied text box reaches the line**: whatever the source (runs of spaces, newlines,
white-space-only elements at any depth) and the `white-space` value, every text box among the children
of the line box built by `process_whitespace` + `inline_in_block` has text — `split_text_box` is never
given an empty text by the box tree. -/
theorem source_line_has_no_empty_text (ws : WS) (kids : List IS.Src) : IS.noEmptyTextL (IS.lineKids ws kids) = true :=
  IS.lineKids_noEmpty ws kids

/-- **a box left without children keeps the collapsed-space flag**: an inline box whose only child is a
text box emptied by white-space collapsing (`leading_collapsible_space` set) is flagged
`trailing_collapsible_space`, for every spacing — the break opportunity of `aaa <b> </b>bbb`
(seed C09-8 records the flag only `if children`). -/
theorem emptied_box_keeps_flag (ls rs : Rat) (deco lcs : Bool) :
    IS.iibBox (.box ls rs deco [.text [] lcs]) = if lcs then .flagged (.box ls rs deco []) else .box ls rs deco [] :=
  IS.emptied_box_keeps_flag ls rs deco lcs

/-- **what white-space processing leaves (1): no preserved line break under `normal` / `nowrap`.**  For
every source text, the text `process_whitespace` puts into the text box (`IS.processedText`, the text of
`IS.pw`: `IS.pw_text`) holds no newline — C08's theorem on `processText`, carried through the
code-point / character coding of the model. -/
theorem processed_text_no_newline (ws : WS) (h : ws = .normal ∨ ws = .nowrap) (t : Text) (f : Bool) :
    ∀ c ∈ IS.processedText ws t f, c ≠ '\n' :=
  IS.processed_no_newline ws h t f

/-- **what white-space processing leaves (2): single spaces under every collapsing value.**  Two
consecutive spaces never reach `split_first_line`: with (1), the words of the text box are separated
by single spaces — the shape (`Canonical`, up to one leading / trailing space removed by
`skip_first_whitespace` / `remove_last_whitespace`) on which `greedy` and `heuristic_transparent` are
proved. -/
theorem processed_text_no_double_space (ws : WS) (h : ws.spaceCollapse = true) (t : Text) (f : Bool) (i : Nat)
    (hi : (IS.processedText ws t f)[i]? = some ' ') : (IS.processedText ws t f)[i + 1]? ≠ some ' ' :=
  IS.processed_no_double_space ws h t f i hi

/-- **from the source to the line under `nowrap`**: whatever the source text of a text box and the
available width, `split_first_line` puts all of the processed text on one line. -/
theorem nowrap_source_single_line (heur : Bool) (st : Style) (hws : st.ws = .nowrap) (t : Text) (f : Bool)
    (maxWidth : MaxW) (a b : Bool) (r : Res)
    (h : splitFirstLineH heur st (IS.processedText .nowrap t f) maxWidth a b = .ok r) :
    r = { length := (IS.processedText .nowrap t f).length, resume := none,
          width := ((IS.processedText .nowrap t f).length : Rat) * st.fs, text := IS.processedText .nowrap t f } :=
  IS.nowrap_source_single_line heur st hws t f maxWidth a b r h

example : IS.processedText .nowrap "aa  \n bb\ncc ".toList false = "aa bb cc ".toList ∧
    IS.processedText .preLine "aa  \n bb   cc".toList true = "aa\nbb cc".toList ∧
    (splitFirstLine { ws := .nowrap, wb := .normal, ow := .normal, fs := 10 }
      (IS.processedText .nowrap "aa  \n bb\ncc ".toList false) (.fin 30) true false).toOption.map (·.resume) = some none := by
  decide +kernel

/-- **canonical texts are what white-space processing leaves** (the hypothesis of `greedy` and
`heuristic_transparent`, proved from the source): under `white-space: normal | nowrap`, for every source
text of a text box — newlines, runs of spaces, leading and trailing white space — and whatever
collapsible space precedes it, the processed text without its single leading / trailing space is
`Canonical`. -/
theorem processed_text_canonical (ws : WS) (h : ws = .normal ∨ ws = .nowrap) (t : Text) (f : Bool) :
    Canonical (rstripSp (lstripSp (IS.processedText ws t f))) :=
  IS.processed_canonical ws h t f

/-- **greedy, from the source text**: under `white-space: normal` (normal `word-break` / `overflow-wrap`,
`font-size > 0`), for every source text and every available width, `split_first_line` — with or without
its prefix heuristic — gives exactly the first-fit line of the words the source holds. -/
theorem greedy_from_source (heur : Bool) (st : Style) (t : Text) (f : Bool) (w : Rat) (a b : Bool)
    (hws : st.ws = .normal) (hwb : st.wb = .normal) (how : st.ow = .normal) (hfs : 0 < st.fs) :
    splitFirstLineH heur st (rstripSp (lstripSp (IS.processedText .normal t f))) (.fin w) a b =
      .ok (firstFit st (rstripSp (lstripSp (IS.processedText .normal t f))) w) :=
  greedy heur st _ w a b (by rw [hws]; decide) hwb how hfs (IS.processed_canonical .normal (Or.inl rfl) t f)

/-- **the first line of a paragraph, from the source** (composition of `process_whitespace`,
`skip_first_whitespace` and `split_first_line`): when the processed text of the paragraph's text box does
not end with a space, `skip_first_whitespace` hands `split_text_box` the text without its leading space,
and `split_first_line` answers with its first-fit line. -/
theorem first_line_from_source (st : Style) (t : Text) (f : Bool) (w : Rat) (a b : Bool)
    (hws : st.ws = .normal) (hwb : st.wb = .normal) (how : st.ow = .normal) (hfs : 0 < st.fs)
    (hne : IS.processedText .normal t f ≠ [])
    (hend : (lstripSp (IS.processedText .normal t f)).getLast? ≠ some ' ') :
    ∃ k, skipFirstWhitespace .normal (IS.processedText .normal t f) 0 = some k ∧
      splitFirstLine st ((IS.processedText .normal t f).drop k) (.fin w) a b =
        .ok (firstFit st ((IS.processedText .normal t f).drop k) w) := by
  obtain ⟨k, hk, hdrop⟩ := IS.skipFirst_is_lstrip .normal (by decide) _ hne
  refine ⟨k, hk, ?_⟩
  rw [hdrop]
  have hcan := IS.processed_canonical .normal (Or.inl rfl) t f
  rw [rstripSp_of_last_ne hend] at hcan
  exact greedy true st _ w a b (by rw [hws]; decide) hwb how hfs hcan

example : rstripSp (lstripSp (IS.processedText .normal "  aaa \n bbb   ccc\ndd ".toList true)) = "aaa bbb ccc dd".toList ∧
    firstFit { ws := .normal, wb := .normal, ow := .normal, fs := 10 } "aaa bbb ccc dd".toList 75 =
      { length := 7, resume := some 8, width := 70, text := "aaa bbb".toList } := by decide +kernel
example : IS.processedText .normal " aaa\nbbb".toList false ≠ [] ∧
    (lstripSp (IS.processedText .normal " aaa\nbbb".toList false)).getLast? ≠ some ' ' ∧
    skipFirstWhitespace .normal (IS.processedText .normal " aaa\nbbb".toList false) 0 = some 1 := by decide +kernel
/-- the source `aaa <b> </b>bbb` under `white-space: normal`: the space of `<b>` collapses with the one
before it, the emptied text box is removed and the empty `<b>` carries `trailing_collapsible_space`
(`^`) — the break opportunity `split_inline_box` uses (seed C09-8 loses the flag on boxes left without
children); in the nested case the flag sits on the inner element, the outer one passes `last_letter is True` on -/
example : IS.renderL (IS.lineKids .normal [.text "aaa ".toList, .box 0 0 false [.text " ".toList], .text "bbb".toList]) =
    "\"aaa \"^[]\"bbb\"".toList := by decide +kernel

/-- … nested (`aaa <b> <u> </u></b>bbb`), and not flagged when no space precedes (`aaa<b> </b>bbb`) -/
example : IS.renderL (IS.lineKids .normal [.text "aaa ".toList,
      .box 0 0 false [.text " ".toList, .box 0 0 false [.text " ".toList]], .text "bbb".toList]) =
      "\"aaa \"[^[]]\"bbb\"".toList ∧
    IS.renderL (IS.lineKids .normal [.text "aaa".toList, .box 0 0 false [.text " ".toList], .text "bbb".toList]) =
      "\"aaa\"[\" \"]\"bbb\"".toList := by decide +kernel

/-- the collapsed space is a break opportunity: `aaa <b> </b>bbb` in 50px is broken after `aaa ` -/
def collapsedPara : IR.Para :=
  { st := { ws := .normal, wb := .normal, ow := .normal, fs := 10 }
    kids := IS.lineKids .normal [.text "aaa ".toList, .box 0 0 false [.text " ".toList], .text "bbb".toList]
    lineHeight := 10, cbx := 0, width := 50, indent := 0
    align := { alignAll := .start, alignLast := none, ws := .normal, rtl := false }, y := 0 }

example : (IR.paragraph collapsedPara).toOption.map (fun ls => ls.map (·.w)) = some [40, 30] := by decide +kernel

/-- without collapsing nothing is emptied or flagged: under `pre` the same source keeps its three spaces -/
example : IS.renderL (IS.lineKids .pre [.text "aaa ".toList, .box 0 0 false [.text " ".toList], .text "bbb".toList]) =
      "\"aaa \"[\" \"]\"bbb\"".toList := by
  decide +kernel

/-! ### lines higher than the strut next to floats: the second pass of `get_next_linebox` -/

/-- **refinement: the second pass is idle when the line is not higher than the strut.**  For every list of
floats (non-empty), paragraph of nested inline boxes and resume position, when the lines are not higher
than the strut the line box is first placed with, the model of the `while True` loop of
`get_next_linebox` (`LFI.nextLineTall`, tied to rendered documents by the float-tall-lines section) is
the single-pass model `LFI.nextLine` (for which `float_inline_lines_stacked` and, without floats,
`no_float_is_plain_inline_paragraph` are proved). -/
theorem tall_loop_single_pass (shapes : List Floats.Shape) (p : IR.Para) (hne : shapes.isEmpty = false)
    (hle : p.lineHeight ≤ LFI.strutHeight p) (skip : Option IR.Skip) (y : Rat) (first : Bool) :
    LFI.nextLineTall shapes p (LFI.strutHeight p) p.lineHeight skip y first = LFI.nextLine shapes p skip y first :=
  LFIL.nextLineTall_eq_nextLine shapes p hne hle skip y first

/-- … and so are all the lines of the paragraph. -/
theorem tall_lines_are_plain_lines (shapes : List Floats.Shape) (p : IR.Para) (hne : shapes.isEmpty = false)
    (hle : p.lineHeight ≤ LFI.strutHeight p) (fuel : Nat) (skip : Option IR.Skip) (y : Rat) (first : Bool) :
    LFI.iterLinesTall shapes p (LFI.strutHeight p) p.lineHeight fuel skip y first =
      LFI.iterLines shapes p fuel skip y first :=
  LFIL.iterLinesTall_eq_iterLines shapes p hne hle fuel skip y first

/-- **lines higher than the strut never overlap each other**: whatever the floats, the strut and the line
height, through every re-layout of the second pass each line starts at or below the bottom of the one
before (`avoid_collisions` only moves a line down). -/
theorem tall_lines_stacked (shapes : List Floats.Shape) (p : IR.Para) (strut lineH : Rat) (fuel : Nat)
    (skip : Option IR.Skip) (y : Rat) (first : Bool) (ls : List IR.OutLine)
    (h : LFI.iterLinesTall shapes p strut lineH fuel skip y first = some (.ok ls)) : LFIL.StackedBelow y ls :=
  LFIL.iterLinesTall_stacked shapes p strut lineH fuel skip y first ls h

/-- the family of the float-tall-lines section: strut 10, lines 30 high, a left float 20 × 15 above a left
float 50 × 40: the first line is first placed at y = 0 beside the narrow float, is 30 high, collides with
the wide float and is laid out again at y = 55 in the whole 120 (`aaaa bbb cc`, not the `aaaa bbb` that
fitted beside the floats: seed C09-10) -/
def tallPara : IR.Para :=
  { st := { ws := .normal, wb := .normal, ow := .normal, fs := 10 }
    kids := [.box 0 0 false [.text "aaaa bbb cc ddddd ee fff gggg hh iii jj".toList]]
    lineHeight := 30, cbx := 0, width := 120, indent := 0
    align := { alignAll := .start, alignLast := none, ws := .normal, rtl := false }, y := 0 }

example : (LFI.paragraphTall [⟨0, 0, 20, 15, .left⟩, ⟨0, 15, 50, 40, .left⟩] tallPara 10 30).toOption.map
    (fun ls => ls.map (fun l => (l.x, l.y, l.w))) = some [(0, 55, 110), (0, 85, 120), (0, 115, 110), (0, 145, 20)] := by
  decide +kernel
example : emPara.lineHeight ≤ LFI.strutHeight emPara ∧ ([⟨0, 0, 60, 20, .left⟩] : List Floats.Shape).isEmpty = false := by
  decide +kernel

end Wp.C09
