/-
C11, third file — floats met inside lines, in full: every document the flow model lays out (block-level floats,
floats met inside the lines of paragraphs, lines that are started again, BFC roots, images, tables, blocks) keeps the
float list of the formatting context pairwise disjoint with tops in order, and the margin boxes the model reports
for *all* floats (block-level and inline) are exactly that list: no two floats overlap and no float is higher than
an earlier one.  Possible since 330f66c (floats are no longer moved with their line) and exact since 58d1f9d (a
line that is started again restores the float list in place, so the floats of the abandoned pass are gone).
-/
import WpModel.Props.C11Flow

namespace Wp.C11
open Wp Wp.Floats

/-- `float_layout`'s placement keeps the float list well formed and appends exactly the margin box of the placed
float. -/
theorem floatPlace_inv (shapes : List Shape) (b : ABox) (cb : CB) (b' : ABox) (shapes' : List Shape)
    (hg : GoodFloat b) (hinv : FloatsInv shapes) (h : floatPlace shapes b cb = .ok (b', shapes')) :
    FloatsInv shapes' ∧ ∃ s, shapes' = shapes ++ [s] ∧
      Shape.rect s = (b'.px, b'.py, b'.marginWidth, b'.marginHeight) := by
  obtain ⟨hf, hmh, hmw⟩ := hg
  obtain ⟨i1, i2, i3, _, _⟩ := float_place_invariants shapes b cb b' shapes' hf hmh hmw hinv.1 hinv.2.1 hinv.2.2 h
  obtain ⟨x, y, _, hb', hsh⟩ := floatPlace_ok shapes b cb b' shapes' h
  obtain ⟨_, _, f3, f4, _⟩ := afterClearance_fields shapes b
  refine ⟨⟨i1, i2, i3⟩, _, hsh, ?_⟩
  rw [hb']
  simp [Shape.rect, ABox.marginWidth, ABox.marginHeight] at f3 f4 ⊢
  constructor <;> grind

/-- The margin boxes of the floats of a line that were laid out by the first pass. -/
def keptRects (marks : List (ABox × Option (Rat × Rat × Rat × Rat))) : List (Rat × Rat × Rat × Rat) :=
  marks.filterMap (·.2)

/-- Marks as the first pass leaves them: once a float waits, all the later ones wait. -/
def OkMarks : List (ABox × Option (Rat × Rat × Rat × Rat)) → Prop
  | [] => True
  | (_, some _) :: rest => OkMarks rest
  | (_, none) :: rest => ∀ e ∈ rest, e.2 = none

/-- First pass over the floats of a line: the float list stays well formed, grows exactly by the floats laid out
on the line (in order), and the marks have the "placed prefix, waiting suffix" shape. -/
theorem inlinePass1_inv (cb : CB) (lineY : Rat) (shapes : List Shape) (rem : Rat) (w : Bool) (bs : List ABox)
    (shapes' : List Shape) (marks : List (ABox × Option (Rat × Rat × Rat × Rat)))
    (hg : ∀ b ∈ bs, GoodFloat b) (hinv : FloatsInv shapes)
    (h : inlinePass1 cb lineY shapes rem w bs = .ok (shapes', marks)) :
    FloatsInv shapes' ∧ (∃ added, shapes' = shapes ++ added ∧ added.map Shape.rect = keptRects marks) ∧
    OkMarks marks ∧ (∀ m ∈ marks, GoodFloat m.1) := by
  induction bs generalizing shapes rem w shapes' marks with
  | nil =>
    simp [inlinePass1] at h
    obtain ⟨h2, h3⟩ := h
    subst h2; subst h3
    exact ⟨hinv, ⟨[], by simp, by simp [keptRects]⟩, trivial, by simp⟩
  | cons b rest ih =>
    simp only [inlinePass1] at h
    split at h
    · -- this float waits
      split at h
      · simp at h
      · rename_i a o hrec
        simp only [Except.ok.injEq, Prod.mk.injEq] at h
        obtain ⟨h2, h3⟩ := h
        subst h2; subst h3
        have hall : ∀ e ∈ o, e.2 = none := (inline_waiting_is_suffix cb lineY shapes rem rest a o hrec).2
        obtain ⟨i1, ⟨added, i2, i3⟩, _, i5⟩ := ih shapes rem true a o (fun b hb => hg b (by simp [hb])) hinv hrec
        refine ⟨i1, ⟨added, i2, by simpa [keptRects] using i3⟩, hall, ?_⟩
        intro m hm
        rcases List.mem_cons.mp hm with hm | hm
        · rw [hm]; exact hg b (by simp)
        · exact i5 m hm
    · split at h
      · simp at h
      · rename_i b' sh1 hpl
        split at h
        · simp at h
        · rename_i a o hrec
          simp only [Except.ok.injEq, Prod.mk.injEq] at h
          obtain ⟨h2, h3⟩ := h
          subst h2; subst h3
          obtain ⟨j1, s, j2, j3⟩ := floatPlace_inv shapes _ cb b' sh1
            (GoodFloat_move b cb.cx lineY (hg b (by simp))) hinv hpl
          obtain ⟨i1, ⟨added, i2, i3⟩, i4, i5⟩ := ih sh1 _ false a o
            (fun b hb => hg b (by simp [hb])) j1 hrec
          refine ⟨i1, ⟨s :: added, by rw [i2, j2]; simp, ?_⟩, i4, ?_⟩
          · simp [keptRects] at i3 ⊢
            exact ⟨j3, i3⟩
          · intro m hm
            rcases List.mem_cons.mp hm with hm | hm
            · rw [hm]; exact hg b (by simp)
            · exact i5 m hm

/-- End of the line, when every float waits: the float list grows exactly by the reported floats. -/
private theorem inlinePass2_waiting (cb : CB) (lineBottom : Rat) (shapes : List Shape)
    (marks : List (ABox × Option (Rat × Rat × Rat × Rat))) (shapes' : List Shape)
    (rects : List (Rat × Rat × Rat × Rat))
    (hnone : ∀ e ∈ marks, e.2 = none) (hg : ∀ m ∈ marks, GoodFloat m.1) (hinv : FloatsInv shapes)
    (h : inlinePass2 cb lineBottom shapes marks = .ok (shapes', rects)) :
    FloatsInv shapes' ∧ ∃ added, shapes' = shapes ++ added ∧ added.map Shape.rect = rects := by
  induction marks generalizing shapes shapes' rects with
  | nil =>
    simp [inlinePass2] at h
    obtain ⟨h2, h3⟩ := h
    subst h2; subst h3
    exact ⟨hinv, [], by simp, by simp⟩
  | cons m rest ih =>
    obtain ⟨b, o⟩ := m
    have ho : o = none := hnone (b, o) (by simp)
    subst ho
    simp only [inlinePass2] at h
    split at h
    · simp at h
    · rename_i b' sh1 hpl
      split at h
      · simp at h
      · rename_i a out hrec
        simp only [Except.ok.injEq, Prod.mk.injEq] at h
        obtain ⟨h2, h3⟩ := h
        subst h2; subst h3
        obtain ⟨j1, s, j2, j3⟩ := floatPlace_inv shapes _ cb b' sh1
          (GoodFloat_move b cb.cx lineBottom (hg (b, none) (by simp))) hinv hpl
        obtain ⟨i1, added, i2, i3⟩ := ih sh1 a out (fun e he => hnone e (by simp [he]))
          (fun m hm => hg m (by simp [hm])) j1 hrec
        exact ⟨i1, s :: added, by rw [i2, j2]; simp, by simp [j3, i3]⟩

/-- End of the line: the reported floats of the line are the ones kept by the first pass followed by the ones laid
out now, and the float list grows exactly by the latter. -/
theorem inlinePass2_inv (cb : CB) (lineBottom : Rat) (shapes : List Shape)
    (marks : List (ABox × Option (Rat × Rat × Rat × Rat))) (shapes' : List Shape)
    (rects : List (Rat × Rat × Rat × Rat))
    (hok : OkMarks marks) (hg : ∀ m ∈ marks, GoodFloat m.1) (hinv : FloatsInv shapes)
    (h : inlinePass2 cb lineBottom shapes marks = .ok (shapes', rects)) :
    FloatsInv shapes' ∧ ∃ added, shapes' = shapes ++ added ∧ rects = keptRects marks ++ added.map Shape.rect := by
  induction marks generalizing shapes shapes' rects with
  | nil =>
    simp [inlinePass2] at h
    obtain ⟨h2, h3⟩ := h
    subst h2; subst h3
    exact ⟨hinv, [], by simp, by simp [keptRects]⟩
  | cons m rest ih =>
    obtain ⟨b, o⟩ := m
    cases o with
    | some r0 =>
      simp only [inlinePass2] at h
      split at h
      · simp at h
      · rename_i a out hrec
        simp only [Except.ok.injEq, Prod.mk.injEq] at h
        obtain ⟨h2, h3⟩ := h
        subst h2; subst h3
        obtain ⟨i1, added, i2, i3⟩ := ih shapes a out hok (fun m hm => hg m (by simp [hm])) hinv hrec
        exact ⟨i1, added, i2, by simp [keptRects] at i3 ⊢; exact i3⟩
    | none =>
      have hnone : ∀ e ∈ (b, none) :: rest, e.2 = none := by
        intro e he
        rcases List.mem_cons.mp he with he | he
        · rw [he]
        · exact hok e he
      obtain ⟨i1, added, i2, i3⟩ := inlinePass2_waiting cb lineBottom shapes _ shapes' rects hnone hg hinv h
      refine ⟨i1, added, i2, ?_⟩
      have hk : keptRects ((b, none) :: rest) = [] := by
        simp only [keptRects, List.filterMap_eq_nil_iff]
        intro e he; exact hnone e he
      rw [hk, i3]; simp

/-- What is known after `get_next_linebox`: the float list is well formed and is the list from before the line
followed by exactly the floats the (last) pass kept on the line — whatever passes were abandoned before. -/
structure LineInv (shapes0 : List Shape) (t : LineTry) : Prop where
  inv : FloatsInv t.shapes
  grown : ∃ added, t.shapes = shapes0 ++ added ∧ added.map Shape.rect = keptRects t.marks
  ok : OkMarks t.marks
  good : ∀ m ∈ t.marks, GoodFloat m.1

theorem lineLoop_inv (cb : CB) (strut : Rat) (align : Align) (l : LineSpec) (shapes0 : List Shape)
    (hg : ∀ b ∈ l.floats, GoodFloat b) (fuel : Nat) (px py avail lbw cand : Rat)
    (t : LineTry) (hinv : FloatsInv shapes0)
    (h : lineLoop cb strut align l shapes0 fuel px py avail lbw cand = .ok t) : LineInv shapes0 t := by
  induction fuel generalizing px py avail lbw cand with
  | zero => simp [lineLoop] at h
  | succ n ih =>
    simp only [lineLoop] at h
    split at h
    · simp at h
    · rename_i shapes1 marks hp1
      obtain ⟨i1, ⟨added, i2, i3⟩, i4, i5⟩ := inlinePass1_inv cb py shapes0 _ false l.floats shapes1 marks hg hinv hp1
      have mk : ∀ x y, LineInv shapes0 ⟨shapes1, marks, x, y⟩ := fun x y => ⟨i1, ⟨added, i2, i3⟩, i4, i5⟩
      split at h
      · simp at h
      · split at h
        · simp only [Except.ok.injEq] at h; rw [← h]; exact mk _ _
        · split at h
          · simp at h
          · cases hr : cb.rtl <;>
              simp only [hr, Bool.not_false, Bool.not_true, if_true, Bool.false_eq_true, if_false] at h <;>
              split at h <;>
              first
                | exact ih _ _ _ _ _ h
                | (simp only [Except.ok.injEq] at h; rw [← h]; exact mk _ _)

/-- All the lines of a paragraph: the float list stays well formed and grows exactly by the floats reported for
the lines, in document order. -/
theorem layoutLines_inv (cb : CB) (fs : Rat) (align : Align) (shapes : List Shape) (ls : List LineSpec)
    (hg : ∀ l ∈ ls, ∀ b ∈ l.floats, GoodFloat b) (y : Rat) (shapes' : List Shape) (out : List PlacedLine)
    (y' : Rat) (hinv : FloatsInv shapes)
    (h : layoutLines cb fs align shapes ls y = .ok (shapes', out, y')) :
    FloatsInv shapes' ∧ ∃ added, shapes' = shapes ++ added ∧
      (out.map (·.floats)).flatten = added.map Shape.rect := by
  induction ls generalizing shapes y shapes' out y' with
  | nil =>
    simp [layoutLines] at h
    obtain ⟨h2, h3, _⟩ := h
    subst h2; subst h3
    exact ⟨hinv, [], by simp, by simp⟩
  | cons l rest ih =>
    simp only [layoutLines] at h
    split at h
    · simp at h
    · rename_i t ht
      have hl : LineInv shapes t := by
        unfold nextLinebox at ht
        simp only at ht
        split at ht
        · simp at ht
        · exact lineLoop_inv cb fs align l shapes (hg l (by simp)) _ _ _ _ _ _ t hinv ht
      obtain ⟨a1, e1, s1⟩ := hl.grown
      split at h
      · simp at h
      · rename_i shapes2 rects hp2
        obtain ⟨k1, a2, e2, k3⟩ := inlinePass2_inv cb _ t.shapes t.marks shapes2 rects hl.ok hl.good hl.inv hp2
        split at h
        · simp at h
        · rename_i shapes3 restOut y3 hrec
          simp only [Except.ok.injEq, Prod.mk.injEq] at h
          obtain ⟨h2, h3, _⟩ := h
          subst h2; subst h3
          obtain ⟨m1, a3, e3, m3⟩ := ih shapes2 (fun l hl => hg l (by simp [hl])) _ _ _ _ k1 hrec
          refine ⟨m1, a1 ++ a2 ++ a3, by rw [e3, e2, e1]; simp, ?_⟩
          simp only [List.map_cons, List.flatten_cons, List.map_append]
          rw [k3, m3, s1]

/-- The items of the full theorem: every float — block-level or met inside a line — has a margin box with area. -/
def ItemOkAll (cb : CB) : Item → Prop
  | .float b => GoodFloat b
  | .floatSpec f => GoodFloat (floatResolve f cb.w)
  | .para _ _ _ lines _ _ => ∀ l ∈ lines, ∀ b ∈ l.floats, GoodFloat b
  | _ => True

/-- The margin boxes of *all* the floats among the placed items, in document order: block-level floats and the
floats met inside the lines of paragraphs. -/
def allFloatRects : List Placed → List (Rat × Rat × Rat × Rat)
  | [] => []
  | .float x y mw mh :: rest => (x, y, mw, mh) :: allFloatRects rest
  | .para lines :: rest => (lines.map (·.floats)).flatten ++ allFloatRects rest
  | _ :: rest => allFloatRects rest

theorem flowStep_inv_all (cb : CB) (st st' : FlowState) (it : Item) (pl : Placed)
    (hit : ItemOkAll cb it) (hinv : FloatsInv st.shapes) (h : flowStep cb st it = .ok (st', pl)) :
    FloatsInv st'.shapes ∧
      st'.shapes.map Shape.rect = st.shapes.map Shape.rect ++ allFloatRects [pl] := by
  have hfloat : ∀ b, GoodFloat b → flowFloat cb st b = .ok (st', pl) →
      FloatsInv st'.shapes ∧
        st'.shapes.map Shape.rect = st.shapes.map Shape.rect ++ allFloatRects [pl] := by
    intro b hb hfl
    unfold flowFloat at hfl
    split at hfl
    · simp at hfl
    · rename_i b' sh1 hpl
      simp only [Except.ok.injEq, Prod.mk.injEq] at hfl
      obtain ⟨j1, s, j2, j3⟩ := floatPlace_inv st.shapes _ cb b' sh1 (GoodFloat_move b cb.cx _ hb) hinv hpl
      rw [← hfl.1, ← hfl.2]
      exact ⟨j1, by simp [allFloatRects, j2, j3]⟩
  cases it with
  | float b => exact hfloat b hit (by simpa [flowStep] using h)
  | floatSpec f => exact hfloat _ hit (by simpa [flowStep] using h)
  | para c fs align lines mt mb =>
    simp only [flowStep] at h
    split at h
    · simp at h
    · rename_i shapes' placed y' hl
      simp only [Except.ok.injEq, Prod.mk.injEq] at h
      obtain ⟨i1, added, i2, i3⟩ := layoutLines_inv cb fs align st.shapes lines hit _ _ _ _ hinv hl
      rw [← h.1, ← h.2]
      exact ⟨i1, by simp [allFloatRects, i2, i3]⟩
  | bfc c width h0 ml mr mt mb =>
    simp only [flowStep] at h
    split at h
    · simp at h
    · simp only [Except.ok.injEq, Prod.mk.injEq] at h
      rw [← h.1, ← h.2]
      split <;> exact ⟨hinv, by simp [allFloatRects]⟩
  | block c h0 mt mb =>
    simp only [flowStep, Except.ok.injEq, Prod.mk.injEq] at h
    rw [← h.1, ← h.2]
    split <;> exact ⟨hinv, by simp [allFloatRects]⟩
  | replaced kind c w h0 ml mr =>
    simp only [flowStep] at h
    split at h
    · simp at h
    · simp only [Except.ok.injEq, Prod.mk.injEq] at h
      rw [← h.1, ← h.2]
      exact ⟨hinv, by simp [allFloatRects]⟩

private theorem allFloatRects_cons (pl : Placed) (rest : List Placed) :
    allFloatRects (pl :: rest) = allFloatRects [pl] ++ allFloatRects rest := by
  cases pl <;> simp [allFloatRects]

/-- **Every document, every float**: whatever mixture of block-level floats, paragraphs with floats met inside
their lines (any side, size, margins, `clear`, empty border boxes; lines that are started again included), BFC
roots, images, tables and blocks, the list of floats of the formatting context stays pairwise disjoint with tops in
document order, and the margin boxes reported for all the floats are, in document order, exactly what was added to
it. -/
theorem flow_all_floats (cb : CB) (items : List Item) (st : FlowState) (out : List Placed)
    (hit : ∀ it ∈ items, ItemOkAll cb it) (hinv : FloatsInv st.shapes)
    (h : flowFrom cb st items = .ok out) :
    ∃ shapes', FloatsInv shapes' ∧ floatsOk shapes' = true ∧
      shapes'.map Shape.rect = st.shapes.map Shape.rect ++ allFloatRects out := by
  induction items generalizing st out with
  | nil =>
    simp [flowFrom] at h
    exact ⟨st.shapes, hinv, (floatsOk_iff _).mpr ⟨hinv.2.2, hinv.2.1⟩, by rw [h]; simp [allFloatRects]⟩
  | cons it rest ih =>
    simp only [flowFrom] at h
    split at h
    · simp at h
    · rename_i st' pl hstep
      split at h
      · simp at h
      · rename_i out' hrest
        simp only [Except.ok.injEq] at h
        obtain ⟨i1, i2⟩ := flowStep_inv_all cb st st' it pl (hit it (by simp)) hinv hstep
        obtain ⟨sh, j1, j2, j3⟩ := ih st' out' (fun it' h' => hit it' (by simp [h'])) i1 hrest
        refine ⟨sh, j1, j2, ?_⟩
        rw [j3, i2, ← h, allFloatRects_cons pl out', List.append_assoc]

/-- The checker's verdict is inherited by sub-lists. -/
theorem floatsOk_sublist (l1 l2 : List Shape) (hs : l1.Sublist l2) (h : floatsOk l2 = true) : floatsOk l1 = true := by
  rw [floatsOk_iff] at h ⊢
  exact ⟨List.Pairwise.sublist hs h.1, List.Pairwise.sublist hs h.2⟩

/-- **No two floats of a document overlap, and none is higher than an earlier one** — inline floats included: from
an empty context, the reported margin boxes of all floats are those of a list of shapes that the verified checker
accepts. -/
theorem flow_all_floats_accepted (cb : CB) (items : List Item) (y : Rat) (out : List Placed)
    (hit : ∀ it ∈ items, ItemOkAll cb it) (h : flow cb [] y items = .ok out) :
    ∃ shapes : List Shape, shapes.map Shape.rect = allFloatRects out ∧ floatsOk shapes = true ∧
      checkEvents [] 0 (shapes.map Event.float) = none := by
  obtain ⟨sh, _, h2, h3⟩ := flow_all_floats cb items ⟨[], y, []⟩ out hit
    ⟨by intro s hs; simp at hs, by simp [SortedTops], by simp [PairwiseDisjoint]⟩ h
  exact ⟨sh, by simpa using h3, h2, checkEvents_floats_complete [] 0 sh (by simpa using h2)⟩

/-- Non-vacuity: an rtl paragraph whose first line holds two floats is started again (the float list is restored);
the hypotheses hold, the floats sit against the edges of the container, followed by a float with an empty border
box placed below them. -/
example :
    let items : List Item := [
      .para .none 10 .start [⟨20, 20, 10,
        [⟨0, 0, 0, 0, 0, 0, 20, 10, .left, .none, .bfc⟩, ⟨0, 0, 0, 0, 0, 0, 30, 5, .right, .none, .bfc⟩]⟩] 0 0,
      .float ⟨0, 0, 5, 5, 0, 0, 80, 0, .left, .none, .bfc⟩]
    (∀ it ∈ items, ItemOkAll ⟨20, 100, true⟩ it) ∧
    ((flow ⟨20, 100, true⟩ [] 20 items).toOption.map allFloatRects) =
      some [(20, 20, 20, 10), (90, 20, 30, 5), (20, 30, 80, 10)] := by
  refine ⟨?_, by decide +kernel⟩
  intro it hit
  simp at hit
  rcases hit with h | h <;> subst h <;> simp [ItemOkAll, GoodFloat, ABox.marginHeight, ABox.marginWidth] <;>
    decide +kernel

end Wp.C11
