/-
C11, third file — floats met inside lines, in full: every document the flow model lays out (block-level floats,
floats met inside the lines of paragraphs, lines that are started again, BFC roots, images, tables, blocks) keeps the
float list on top of the stack of formatting contexts pairwise disjoint with tops in order, and the margin boxes
the model reports for *all* floats (block-level and inline) are a sub-list of that list: no two reported floats
overlap and no float is higher than an earlier one.  Possible since 330f66c (floats are no longer moved with their
line); the floats that an abandoned pass of `get_next_linebox` leaves behind (finding inline-float-laid-out-twice)
only add members to the list, so the statement needs no hypothesis about restarts.
-/
import WpModel.Props.C11Flow

namespace Wp.C11
open Wp Wp.Floats

/-- `float_layout` with its two float lists keeps the stack's top well formed — whatever list the clearance was
computed from — and appends exactly the margin box of the placed float. -/
theorem floatLayout_inv (attr top : List Shape) (b : ABox) (cb : CB) (b' : ABox) (top' : List Shape)
    (hg : GoodFloat b) (hinv : FloatsInv top) (h : floatLayout attr top b cb = .ok (b', top')) :
    FloatsInv top' ∧ ∃ s, top' = top ++ [s] ∧ Shape.rect s = (b'.px, b'.py, b'.marginWidth, b'.marginHeight) := by
  obtain ⟨hf, hz, hmh, hmw⟩ := hg
  obtain ⟨hp, hs, hd⟩ := hinv
  unfold floatLayout at h
  simp only at h
  split at h
  · simp at h
  · rename_i x y hpos
    simp only [Except.ok.injEq, Prod.mk.injEq] at h
    obtain ⟨f1, f2, f3, f4, _⟩ := afterClearance_fields attr b
    have hf1 : (afterClearance attr b).float ≠ .none := by rw [f1]; exact hf
    have hz1 : (afterClearance attr b).bh ≠ 0 := by rw [f2]; exact hz
    have hmh1 : 0 < (afterClearance attr b).marginHeight := by rw [f3]; exact hmh
    obtain ⟨_, r2, _, _⟩ := float_rules top _ cb x y hf1 hpos
    obtain ⟨hno, _⟩ := float_no_overlap top _ cb x y hf1 hz1 hmh1 hp hpos
    rw [f3, f4] at hno
    obtain ⟨hb', ht'⟩ := h
    have hshape : ({ afterClearance attr b with px := x, py := y } : ABox).toShape =
        ⟨x, y, b.marginWidth, b.marginHeight, if b.float = .right then Side.right else Side.left⟩ := by
      simp only [ABox.toShape, ABox.marginWidth, ABox.marginHeight] at *
      rw [f1, f3, f4]
    rw [hshape] at ht'
    subst ht'
    refine ⟨⟨?_, ?_, ?_⟩, _, rfl, ?_⟩
    · intro s hsm
      rcases List.mem_append.mp hsm with h1 | h1
      · exact hp s h1
      · simp at h1; subst h1; exact ⟨hmh, hmw⟩
    · unfold SortedTops
      rw [List.pairwise_append]
      refine ⟨hs, by simp, ?_⟩
      intro a ha c hc
      simp at hc; subst hc; simp
      cases hl : top.getLast? with
      | none => simp [List.getLast?_eq_none_iff] at hl; subst hl; simp at ha
      | some l =>
        have h1 : ∀ s ∈ top, s.y ≤ l.y := by
          intro s hsm
          have hmem : l ∈ top := List.mem_of_getLast? hl
          unfold SortedTops at hs
          rcases List.getLast?_eq_some_iff.mp hl with ⟨pre, hpre⟩
          rw [hpre] at hs hsm
          rcases List.mem_append.mp hsm with h2 | h2
          · exact (List.pairwise_append.mp hs).2.2 s h2 l (by simp)
          · simp at h2; subst h2; exact Rat.le_refl
        have := h1 a ha
        have := r2 l hl
        grind
    · unfold PairwiseDisjoint
      rw [List.pairwise_append]
      refine ⟨hd, by simp, ?_⟩
      intro a ha c hc
      simp at hc; subst hc
      exact hno a ha
    · rw [← hb']
      simp [Shape.rect, ABox.marginWidth, ABox.marginHeight] at f3 f4 ⊢
      constructor <;> grind

/-- The margin boxes of the floats of a line that were laid out by the first pass. -/
def keptRects (marks : List (ABox × Option (Rat × Rat × Rat × Rat))) : List (Rat × Rat × Rat × Rat) :=
  marks.filterMap (·.2)

/-- Marks as the first pass leaves them: once a float waits, all the later ones wait. -/
def OkMarks : List (ABox × Option (Rat × Rat × Rat × Rat)) → Prop
  | [] => True
  | (_, some _) :: rest => OkMarks rest
  | (_, none) :: rest => ∀ e ∈ rest, e.2 = none

/-- First pass over the floats of a line: the stack's top stays well formed, grows exactly by the floats laid out
on the line (in order), and the marks have the "placed prefix, waiting suffix" shape. -/
theorem inlinePass1_inv (cb : CB) (lineY : Rat) (attr top : List Shape) (rem : Rat) (w : Bool) (bs : List ABox)
    (attr' top' : List Shape) (marks : List (ABox × Option (Rat × Rat × Rat × Rat)))
    (hg : ∀ b ∈ bs, GoodFloat b) (hinv : FloatsInv top)
    (h : inlinePass1 cb lineY attr top rem w bs = .ok (attr', top', marks)) :
    FloatsInv top' ∧ (∃ added, top' = top ++ added ∧ added.map Shape.rect = keptRects marks) ∧
    OkMarks marks ∧ (∀ m ∈ marks, GoodFloat m.1) := by
  induction bs generalizing attr top rem w attr' top' marks with
  | nil =>
    simp [inlinePass1] at h
    obtain ⟨_, h2, h3⟩ := h
    subst h2; subst h3
    exact ⟨hinv, ⟨[], by simp, by simp [keptRects]⟩, trivial, by simp⟩
  | cons b rest ih =>
    simp only [inlinePass1] at h
    split at h
    · -- this float waits
      split at h
      · simp at h
      · rename_i a t o hrec
        simp only [Except.ok.injEq, Prod.mk.injEq] at h
        obtain ⟨_, h2, h3⟩ := h
        subst h2; subst h3
        rename_i hcond
        have hall : ∀ e ∈ o, e.2 = none := by
          have := inline_waiting_is_suffix cb lineY attr top rem rest a t o hrec
          exact this.2.2
        obtain ⟨i1, ⟨added, i2, i3⟩, _, i5⟩ := ih attr top rem true a t o (fun b hb => hg b (by simp [hb])) hinv hrec
        refine ⟨i1, ⟨added, i2, by simpa [keptRects] using i3⟩, hall, ?_⟩
        intro m hm
        rcases List.mem_cons.mp hm with hm | hm
        · rw [hm]; exact hg b (by simp)
        · exact i5 m hm
    · split at h
      · simp at h
      · rename_i b' top1 hpl
        split at h
        · simp at h
        · rename_i a t o hrec
          simp only [Except.ok.injEq, Prod.mk.injEq] at h
          obtain ⟨_, h2, h3⟩ := h
          subst h2; subst h3
          obtain ⟨j1, s, j2, j3⟩ := floatLayout_inv attr top _ cb b' top1
            (GoodFloat_move b cb.cx lineY (hg b (by simp))) hinv hpl
          obtain ⟨i1, ⟨added, i2, i3⟩, i4, i5⟩ := ih top1 top1 _ false a t o
            (fun b hb => hg b (by simp [hb])) j1 hrec
          refine ⟨i1, ⟨s :: added, by rw [i2, j2]; simp, ?_⟩, i4, ?_⟩
          · simp [keptRects] at i3 ⊢
            exact ⟨j3, i3⟩
          · intro m hm
            rcases List.mem_cons.mp hm with hm | hm
            · rw [hm]; exact hg b (by simp)
            · exact i5 m hm

/-- End of the line, when every float waits: the stack's top grows exactly by the reported floats. -/
private theorem inlinePass2_waiting (cb : CB) (lineBottom : Rat) (attr top : List Shape)
    (marks : List (ABox × Option (Rat × Rat × Rat × Rat))) (attr' top' : List Shape)
    (rects : List (Rat × Rat × Rat × Rat))
    (hnone : ∀ e ∈ marks, e.2 = none) (hg : ∀ m ∈ marks, GoodFloat m.1) (hinv : FloatsInv top)
    (h : inlinePass2 cb lineBottom attr top marks = .ok (attr', top', rects)) :
    FloatsInv top' ∧ ∃ added, top' = top ++ added ∧ added.map Shape.rect = rects := by
  induction marks generalizing attr top attr' top' rects with
  | nil =>
    simp [inlinePass2] at h
    obtain ⟨_, h2, h3⟩ := h
    subst h2; subst h3
    exact ⟨hinv, [], by simp, by simp⟩
  | cons m rest ih =>
    obtain ⟨b, o⟩ := m
    have ho : o = none := hnone (b, o) (by simp)
    subst ho
    simp only [inlinePass2] at h
    split at h
    · simp at h
    · rename_i b' top1 hpl
      split at h
      · simp at h
      · rename_i a t out hrec
        simp only [Except.ok.injEq, Prod.mk.injEq] at h
        obtain ⟨_, h2, h3⟩ := h
        subst h2; subst h3
        obtain ⟨j1, s, j2, j3⟩ := floatLayout_inv attr top _ cb b' top1
          (GoodFloat_move b cb.cx lineBottom (hg (b, none) (by simp))) hinv hpl
        obtain ⟨i1, added, i2, i3⟩ := ih top1 top1 a t out (fun e he => hnone e (by simp [he]))
          (fun m hm => hg m (by simp [hm])) j1 hrec
        exact ⟨i1, s :: added, by rw [i2, j2]; simp, by simp [j3, i3]⟩

/-- End of the line: the reported floats of the line are the ones kept by the first pass followed by the ones laid
out now, and the stack's top grows exactly by the latter. -/
theorem inlinePass2_inv (cb : CB) (lineBottom : Rat) (attr top : List Shape)
    (marks : List (ABox × Option (Rat × Rat × Rat × Rat))) (attr' top' : List Shape)
    (rects : List (Rat × Rat × Rat × Rat))
    (hok : OkMarks marks) (hg : ∀ m ∈ marks, GoodFloat m.1) (hinv : FloatsInv top)
    (h : inlinePass2 cb lineBottom attr top marks = .ok (attr', top', rects)) :
    FloatsInv top' ∧ ∃ added, top' = top ++ added ∧ rects = keptRects marks ++ added.map Shape.rect := by
  induction marks generalizing attr top attr' top' rects with
  | nil =>
    simp [inlinePass2] at h
    obtain ⟨_, h2, h3⟩ := h
    subst h2; subst h3
    exact ⟨hinv, [], by simp, by simp [keptRects]⟩
  | cons m rest ih =>
    obtain ⟨b, o⟩ := m
    cases o with
    | some r0 =>
      simp only [inlinePass2] at h
      split at h
      · simp at h
      · rename_i a t out hrec
        simp only [Except.ok.injEq, Prod.mk.injEq] at h
        obtain ⟨_, h2, h3⟩ := h
        subst h2; subst h3
        obtain ⟨i1, added, i2, i3⟩ := ih attr top a t out hok (fun m hm => hg m (by simp [hm])) hinv hrec
        exact ⟨i1, added, i2, by simp [keptRects] at i3 ⊢; exact i3⟩
    | none =>
      have hnone : ∀ e ∈ (b, none) :: rest, e.2 = none := by
        intro e he
        rcases List.mem_cons.mp he with he | he
        · rw [he]
        · exact hok e he
      obtain ⟨i1, added, i2, i3⟩ := inlinePass2_waiting cb lineBottom attr top _ attr' top' rects hnone hg hinv h
      refine ⟨i1, added, i2, ?_⟩
      have hk : keptRects ((b, none) :: rest) = [] := by
        simp only [keptRects, List.filterMap_eq_nil_iff]
        intro e he; exact hnone e he
      rw [hk, i3]; simp

/-- What is known after `get_next_linebox`: the stack's top is well formed and has only grown, and the floats the
last pass kept on the line are, in order, among what was added. -/
structure LineInv (top : List Shape) (t : LineTry) : Prop where
  inv : FloatsInv t.top
  grown : ∃ added, t.top = top ++ added ∧ (keptRects t.marks).Sublist (added.map Shape.rect)
  ok : OkMarks t.marks
  good : ∀ m ∈ t.marks, GoodFloat m.1

theorem lineLoop_inv (cb : CB) (strut : Rat) (align : Align) (l : LineSpec) (shapes0 : List Shape)
    (hg : ∀ b ∈ l.floats, GoodFloat b) (fuel : Nat) (attr top : List Shape) (px py avail lbw cand : Rat)
    (t : LineTry) (hinv : FloatsInv top)
    (h : lineLoop cb strut align l shapes0 fuel attr top px py avail lbw cand = .ok t) : LineInv top t := by
  induction fuel generalizing attr top px py avail lbw cand with
  | zero => simp [lineLoop] at h
  | succ n ih =>
    simp only [lineLoop] at h
    split at h
    · simp at h
    · rename_i shapes1 top1 marks hp1
      obtain ⟨i1, ⟨added, i2, i3⟩, i4, i5⟩ := inlinePass1_inv cb py _ top _ false l.floats shapes1 top1 marks hg hinv hp1
      have mk : ∀ x y, LineInv top ⟨shapes1, top1, marks, x, y⟩ := fun x y =>
        ⟨i1, ⟨added, i2, by rw [i3]; exact List.Sublist.refl _⟩, i4, i5⟩
      -- started again: the floats of this pass stay on the stack's top
      have restart : ∀ px' py' avail' lbw' cand',
          lineLoop cb strut align l shapes0 n shapes0 top1 px' py' avail' lbw' cand' = .ok t → LineInv top t := by
        intro px' py' avail' lbw' cand' h'
        have r := ih shapes0 top1 px' py' avail' lbw' cand' i1 h'
        obtain ⟨added2, r2, r3⟩ := r.grown
        exact ⟨r.inv, ⟨added ++ added2, by rw [r2, i2]; simp, by
          rw [List.map_append]; exact List.Sublist.trans r3 (List.sublist_append_right _ _)⟩, r.ok, r.good⟩
      split at h
      · simp at h
      · split at h
        · simp only [Except.ok.injEq] at h; rw [← h]; exact mk _ _
        · split at h
          · simp at h
          · cases hr : cb.rtl <;>
              simp only [hr, Bool.not_false, Bool.not_true, if_true, Bool.false_eq_true, if_false] at h <;>
              split at h <;>
              first
                | exact restart _ _ _ _ _ h
                | (simp only [Except.ok.injEq] at h; rw [← h]; exact mk _ _)

/-- All the lines of a paragraph: the stack's top stays well formed and only grows, and the floats reported for the
lines are, in document order, among what was added. -/
theorem layoutLines_inv (cb : CB) (fs : Rat) (align : Align) (attr top : List Shape) (ls : List LineSpec)
    (hg : ∀ l ∈ ls, ∀ b ∈ l.floats, GoodFloat b) (y : Rat) (attr' top' : List Shape) (out : List PlacedLine)
    (y' : Rat) (hinv : FloatsInv top)
    (h : layoutLines cb fs align attr top ls y = .ok (attr', top', out, y')) :
    FloatsInv top' ∧ ∃ added, top' = top ++ added ∧
      ((out.map (·.floats)).flatten).Sublist (added.map Shape.rect) := by
  induction ls generalizing attr top y attr' top' out y' with
  | nil =>
    simp [layoutLines] at h
    obtain ⟨_, h2, h3, _⟩ := h
    subst h2; subst h3
    exact ⟨hinv, [], by simp, by simp⟩
  | cons l rest ih =>
    simp only [layoutLines] at h
    split at h
    · simp at h
    · rename_i t ht
      have hl : LineInv top t := by
        unfold nextLinebox at ht
        simp only at ht
        split at ht
        · simp at ht
        · exact lineLoop_inv cb fs align l attr (hg l (by simp)) _ _ _ _ _ _ _ _ t hinv ht
      obtain ⟨a1, e1, s1⟩ := hl.grown
      split at h
      · simp at h
      · rename_i shapes2 top2 rects hp2
        obtain ⟨k1, a2, e2, k3⟩ := inlinePass2_inv cb _ t.shapes t.top t.marks shapes2 top2 rects hl.ok hl.good hl.inv hp2
        split at h
        · simp at h
        · rename_i shapes3 top3 restOut y3 hrec
          simp only [Except.ok.injEq, Prod.mk.injEq] at h
          obtain ⟨_, h2, h3, _⟩ := h
          subst h2; subst h3
          obtain ⟨m1, a3, e3, m3⟩ := ih shapes2 top2 (fun l hl => hg l (by simp [hl])) _ _ _ _ _ k1 hrec
          refine ⟨m1, a1 ++ a2 ++ a3, by rw [e3, e2, e1]; simp, ?_⟩
          simp only [List.map_cons, List.flatten_cons, List.map_append]
          rw [k3]
          exact List.Sublist.append (List.Sublist.append s1 (List.Sublist.refl _)) m3

/-- The items of the full theorem: every float — block-level or met inside a line — has area. -/
def ItemOkAll (cb : CB) : Item → Prop
  | .float b => GoodFloat b
  | .floatSpec f => GoodFloat (floatResolve f cb.w)
  | .para _ _ _ lines _ _ => ∀ l ∈ lines, ∀ b ∈ l.floats, GoodFloat b
  | _ => True

/-- The margin boxes of *all* the floats among the placed items, in document order: block-level floats and the
floats met inside the lines of paragraphs. -/
def allFloatRects : List Placed → List (Rat × Rat × Rat × Rat)
  | [] => []
  | .float x y mw mh :: rest => (x, y, mw, mh) :: allFloatRects rest
  | .para lines :: rest => (lines.map (·.floats)).flatten ++ allFloatRects rest
  | _ :: rest => allFloatRects rest

theorem flowStep_inv_all (cb : CB) (st st' : FlowState) (it : Item) (pl : Placed)
    (hit : ItemOkAll cb it) (hinv : FloatsInv st.top) (h : flowStep cb st it = .ok (st', pl)) :
    FloatsInv st'.top ∧ ∃ added, st'.top = st.top ++ added ∧
      (allFloatRects [pl]).Sublist (added.map Shape.rect) := by
  have hfloat : ∀ b, GoodFloat b → flowFloat cb st b = .ok (st', pl) →
      FloatsInv st'.top ∧ ∃ added, st'.top = st.top ++ added ∧
        (allFloatRects [pl]).Sublist (added.map Shape.rect) := by
    intro b hb hfl
    unfold flowFloat at hfl
    split at hfl
    · simp at hfl
    · rename_i b' top1 hpl
      simp only [Except.ok.injEq, Prod.mk.injEq] at hfl
      obtain ⟨j1, s, j2, j3⟩ := floatLayout_inv st.shapes st.top _ cb b' top1
        (GoodFloat_move b cb.cx _ hb) hinv hpl
      rw [← hfl.1, ← hfl.2]
      exact ⟨j1, [s], j2, by simp [allFloatRects, j3]⟩
  cases it with
  | float b => exact hfloat b hit (by simpa [flowStep] using h)
  | floatSpec f => exact hfloat _ hit (by simpa [flowStep] using h)
  | para c fs align lines mt mb =>
    simp only [flowStep] at h
    split at h
    · simp at h
    · rename_i shapes' top' placed y' hl
      simp only [Except.ok.injEq, Prod.mk.injEq] at h
      obtain ⟨i1, added, i2, i3⟩ := layoutLines_inv cb fs align st.shapes st.top lines hit _ _ _ _ _ hinv hl
      rw [← h.1, ← h.2]
      exact ⟨i1, added, i2, by simpa [allFloatRects] using i3⟩
  | bfc c width h0 ml mr mt mb =>
    simp only [flowStep] at h
    split at h
    · simp at h
    · simp only [Except.ok.injEq, Prod.mk.injEq] at h
      rw [← h.1, ← h.2]
      split <;> exact ⟨hinv, [], by simp, by simp [allFloatRects]⟩
  | block c h0 mt mb =>
    simp only [flowStep, Except.ok.injEq, Prod.mk.injEq] at h
    rw [← h.1, ← h.2]
    split <;> exact ⟨hinv, [], by simp, by simp [allFloatRects]⟩
  | replaced kind c w h0 ml mr =>
    simp only [flowStep] at h
    split at h
    · simp at h
    · simp only [Except.ok.injEq, Prod.mk.injEq] at h
      rw [← h.1, ← h.2]
      exact ⟨hinv, [], by simp, by simp [allFloatRects]⟩

private theorem allFloatRects_cons (pl : Placed) (rest : List Placed) :
    allFloatRects (pl :: rest) = allFloatRects [pl] ++ allFloatRects rest := by
  cases pl <;> simp [allFloatRects]

/-- **Every document, every float**: whatever mixture of block-level floats, paragraphs with floats met inside
their lines (any side, size, margins, `clear`; lines that are started again included), BFC roots, images, tables and
blocks, the list of floats of the formatting context stays pairwise disjoint with tops in document order, and the
margin boxes reported for all the floats are, in document order, a sub-list of it. -/
theorem flow_all_floats (cb : CB) (items : List Item) (st : FlowState) (out : List Placed)
    (hit : ∀ it ∈ items, ItemOkAll cb it) (hinv : FloatsInv st.top)
    (h : flowFrom cb st items = .ok out) :
    ∃ top', FloatsInv top' ∧ ∃ added, top' = st.top ++ added ∧
      (allFloatRects out).Sublist (added.map Shape.rect) := by
  induction items generalizing st out with
  | nil =>
    simp [flowFrom] at h
    exact ⟨st.top, hinv, [], by simp, by rw [h]; simp [allFloatRects]⟩
  | cons it rest ih =>
    simp only [flowFrom] at h
    split at h
    · simp at h
    · rename_i st' pl hstep
      split at h
      · simp at h
      · rename_i out' hrest
        simp only [Except.ok.injEq] at h
        obtain ⟨i1, a1, e1, s1⟩ := flowStep_inv_all cb st st' it pl (hit it (by simp)) hinv hstep
        obtain ⟨top', j1, a2, e2, s2⟩ := ih st' out' (fun it' h' => hit it' (by simp [h'])) i1 hrest
        refine ⟨top', j1, a1 ++ a2, by rw [e2, e1]; simp, ?_⟩
        rw [← h, allFloatRects_cons, List.map_append]
        exact List.Sublist.append s1 s2

/-- The checker's verdict is inherited by sub-lists. -/
theorem floatsOk_sublist (l1 l2 : List Shape) (hs : l1.Sublist l2) (h : floatsOk l2 = true) : floatsOk l1 = true := by
  rw [floatsOk_iff] at h ⊢
  exact ⟨List.Pairwise.sublist hs h.1, List.Pairwise.sublist hs h.2⟩

/-- **No two floats of a document overlap, and none is higher than an earlier one** — inline floats included: from
an empty context, the reported margin boxes of all floats are those of a list of shapes that the verified checker
accepts. -/
theorem flow_all_floats_accepted (cb : CB) (items : List Item) (y : Rat) (out : List Placed)
    (hit : ∀ it ∈ items, ItemOkAll cb it) (h : flow cb [] y items = .ok out) :
    ∃ shapes : List Shape, shapes.map Shape.rect = allFloatRects out ∧ floatsOk shapes = true ∧
      checkEvents [] 0 (shapes.map Event.float) = none := by
  obtain ⟨top', i1, added, e1, s1⟩ := flow_all_floats cb items ⟨[], [], y, []⟩ out hit
    ⟨by intro s hs; simp at hs, by simp [SortedTops], by simp [PairwiseDisjoint]⟩ h
  simp only [List.nil_append] at e1
  subst e1
  obtain ⟨l', hl', hmap⟩ := List.sublist_map_iff.mp s1
  have hok : floatsOk top' = true := (floatsOk_iff _).mpr ⟨i1.2.2, i1.2.1⟩
  have hok' := floatsOk_sublist l' top' hl' hok
  exact ⟨l', hmap.symm, hok', checkEvents_floats_complete [] 0 l' (by simpa using hok')⟩

/-- Non-vacuity: an rtl paragraph whose first line holds two floats is started again (the floats of the abandoned
pass stay on the stack); the hypotheses hold and the reported floats are disjoint. -/
example :
    let items : List Item := [
      .para .none 10 .start [{ w0 := 20, w := 20, h := 10, floats :=
        [⟨0, 0, 0, 0, 0, 0, 20, 10, .left, .none, .bfc⟩, ⟨0, 0, 0, 0, 0, 0, 30, 5, .right, .none, .bfc⟩] }] 0 0,
      .float ⟨0, 0, 0, 0, 0, 0, 50, 10, .left, .none, .bfc⟩]
    (∀ it ∈ items, ItemOkAll ⟨20, 100, true⟩ it) ∧
    ((flow ⟨20, 100, true⟩ [] 20 items).toOption.map allFloatRects) =
      some [(40, 20, 20, 10), (60, 20, 30, 5), (20, 30, 50, 10)] := by
  refine ⟨?_, by decide +kernel⟩
  intro it hit
  simp at hit
  rcases hit with h | h <;> subst h <;> simp [ItemOkAll, GoodFloat, ABox.marginHeight, ABox.marginWidth] <;>
    decide +kernel

end Wp.C11
