/-
C20 — "… rendering continues as if the resource were absent, giving the same result as the document without
that reference", for image references at document level: with the shared image cache in the picture.
A reference whose fetch raises leaves a `None` entry in the cache that the document without the reference
does not have; the theorem shows that this difference can never be observed — by any later reference,
under any orientation or MIME type — so the boxes generated for the whole document are the same.
-/
import WpModel.Model.ResourcesDoc
import WpModel.Props.C20

namespace Wp.C20.Absent
open Wp Wp.Res

/-- The fetcher raises for every request that shares the cache key `k` (for URLs without spaces: for the URL). -/
def FailsKey (f : Fetcher) (k : String) : Prop := ∀ (req : Req) (o : Opts), req.key o = k → ∃ e, f req.url = .raises e

/-- The caches agree, except that one may hold the `None` of a failed fetch where the other holds nothing. -/
def Agree (f : Fetcher) (c1 c2 : Cache) : Prop :=
  ∀ k, c1.find? k = c2.find? k ∨
    (FailsKey f k ∧ ((c1.find? k = some none ∧ c2.find? k = none) ∨ (c1.find? k = none ∧ c2.find? k = some none)))

/-- No image is cached under a key for which the fetcher always raises. -/
def Sound (f : Fetcher) (c : Cache) : Prop := ∀ k img, c.find? k = some (some img) → ¬ FailsKey f k

private theorem find_cons (c : Cache) (k k' : String) (v : Option Img) :
    Cache.find? ((k, v) :: c) k' = if k == k' then some v else c.find? k' := by
  simp [Cache.find?]

private theorem agree_refl (f : Fetcher) (c : Cache) : Agree f c c := fun _ => Or.inl rfl

private theorem agree_cons (f : Fetcher) (c1 c2 : Cache) (k : String) (v : Option Img) (h : Agree f c1 c2) :
    Agree f ((k, v) :: c1) ((k, v) :: c2) := by
  intro k'
  rw [find_cons, find_cons]
  by_cases hk : (k == k') = true
  · simp [hk]
  · simp only [hk, Bool.false_eq_true, ↓reduceIte]; exact h k'

/-- On a cache miss, what `get_image_from_uri` does depends on the cache only through the miss. -/
private theorem getImage_miss (c : Cache) (f : Fetcher) (o : Opts) (req : Req) (h : c.find? (req.key o) = none) :
    ∃ evs out, (getImage [] f o req).2 = (evs, out) ∧
      ((∃ img, out = .ok (some img) ∧ getImage c f o req = (((req.key o), some img) :: c, evs, .ok (some img))) ∨
       (out = .ok none ∧ getImage c f o req = (((req.key o), none) :: c, evs, .ok none)) ∨
       (∃ e, out = .error e ∧ getImage c f o req = (c, evs, .error e))) := by
  have hnil : Cache.find? ([] : Cache) (req.key o) = none := rfl
  unfold getImage
  simp only [h, hnil]
  cases hfe : fetch (f req.url) req.url (imageBody req) with
  | mk evs fetched =>
    cases fetched with
    | error e =>
      simp only
      cases hcls : (e.isUrlFetching || e.isImageLoading)
      · exact ⟨evs, .error e, by simp [hcls], Or.inr (Or.inr ⟨e, rfl, by simp [hcls]⟩)⟩
      · exact ⟨evs, .ok none, by simp [hcls], Or.inr (Or.inl ⟨rfl, by simp [hcls]⟩)⟩
    | ok t =>
      obtain ⟨fn, content, mime⟩ := t
      simp only
      cases hd : decideImage req o fn content mime with
      | ok img => exact ⟨evs, .ok (some img), rfl, Or.inl ⟨img, rfl, rfl⟩⟩
      | error e =>
        simp only
        cases hcls : (e.isUrlFetching || e.isImageLoading)
        · exact ⟨evs, .error e, by simp [hcls], Or.inr (Or.inr ⟨e, rfl, by simp [hcls]⟩)⟩
        · exact ⟨evs, .ok none, by simp [hcls], Or.inr (Or.inl ⟨rfl, by simp [hcls]⟩)⟩

/-- When the fetcher raises, a miss gives `None`. -/
private theorem getImage_fails (c : Cache) (f : Fetcher) (o : Opts) (req : Req) (h : c.find? (req.key o) = none)
    (hf : FailsKey f (req.key o)) : ∃ evs, getImage c f o req = (((req.key o), none) :: c, evs, .ok none) := by
  obtain ⟨e, he⟩ := hf req o rfl
  exact ⟨[.call req.url], Wp.C20.image_fetch_failure_is_none c f o req e h he⟩

/-- One call on agreeing caches: same result, and the caches still agree. -/
private theorem getImage_agree (f : Fetcher) (o : Opts) (req : Req) (c1 c2 : Cache) (h : Agree f c1 c2) :
    (getImage c1 f o req).2.2 = (getImage c2 f o req).2.2 ∧
    Agree f (getImage c1 f o req).1 (getImage c2 f o req).1 := by
  rcases h (req.key o) with heq | ⟨hfail, hcase⟩
  · cases h1 : c1.find? (req.key o) with
    | some v =>
      have h2 : c2.find? (req.key o) = some v := by rw [← heq, h1]
      rw [Wp.C20.image_cache_hit c1 f o req v h1, Wp.C20.image_cache_hit c2 f o req v h2]
      exact ⟨rfl, h⟩
    | none =>
      have h2 : c2.find? (req.key o) = none := by rw [← heq, h1]
      obtain ⟨evs, out, _, hc1⟩ := getImage_miss c1 f o req h1
      obtain ⟨evs', out', _, hc2⟩ := getImage_miss c2 f o req h2
      have hsame : (getImage [] f o req).2 = (evs, out) ∧ (getImage [] f o req).2 = (evs', out') := by
        obtain ⟨_, _, ha, _⟩ := getImage_miss c1 f o req h1
        exact ⟨by assumption, by assumption⟩
      have heo : out = out' := by
        have := hsame.1.symm.trans hsame.2
        exact (Prod.mk.inj this).2
      subst heo
      rcases hc1 with ⟨img, ho, hg1⟩ | ⟨ho, hg1⟩ | ⟨e, ho, hg1⟩
      · rcases hc2 with ⟨img', ho', hg2⟩ | ⟨ho', hg2⟩ | ⟨e', ho', hg2⟩
        · rw [ho] at ho'; cases ho'
          rw [hg1, hg2]; exact ⟨rfl, agree_cons f c1 c2 _ _ h⟩
        · rw [ho] at ho'; cases ho'
        · rw [ho] at ho'; cases ho'
      · rcases hc2 with ⟨img', ho', hg2⟩ | ⟨ho', hg2⟩ | ⟨e', ho', hg2⟩
        · rw [ho] at ho'; cases ho'
        · rw [hg1, hg2]; exact ⟨rfl, agree_cons f c1 c2 _ _ h⟩
        · rw [ho] at ho'; cases ho'
      · rcases hc2 with ⟨img', ho', hg2⟩ | ⟨ho', hg2⟩ | ⟨e', ho', hg2⟩
        · rw [ho] at ho'; cases ho'
        · rw [ho] at ho'; cases ho'
        · rw [ho] at ho'; cases ho'
          rw [hg1, hg2]; exact ⟨rfl, h⟩
  · rcases hcase with ⟨h1, h2⟩ | ⟨h1, h2⟩
    · obtain ⟨evs, hg2⟩ := getImage_fails c2 f o req h2 hfail
      rw [Wp.C20.image_cache_hit c1 f o req none h1, hg2]
      refine ⟨rfl, ?_⟩
      intro k
      rw [find_cons]
      by_cases hk : ((req.key o) == k) = true
      · have : (req.key o) = k := by simpa using hk
        subst this
        simp [h1]
      · simp only [hk, Bool.false_eq_true, ↓reduceIte]; exact h k
    · obtain ⟨evs, hg1⟩ := getImage_fails c1 f o req h1 hfail
      rw [Wp.C20.image_cache_hit c2 f o req none h2, hg1]
      refine ⟨rfl, ?_⟩
      intro k
      rw [find_cons]
      by_cases hk : ((req.key o) == k) = true
      · have : (req.key o) = k := by simpa using hk
        subst this
        simp [h2]
      · simp only [hk, Bool.false_eq_true, ↓reduceIte]; exact h k

/-- The image stage on agreeing caches generates the same boxes and ends the same way. -/
private theorem runRefs_agree (f : Fetcher) (o : Opts) (refs : List Doc.ImgRef) (c1 c2 : Cache) (h : Agree f c1 c2) :
    (Doc.runRefs f o c1 refs).2.1 = (Doc.runRefs f o c2 refs).2.1 ∧
    (Doc.runRefs f o c1 refs).2.2.2 = (Doc.runRefs f o c2 refs).2.2.2 := by
  induction refs generalizing c1 c2 with
  | nil => exact ⟨rfl, rfl⟩
  | cons r rest ih =>
    unfold Doc.runRefs
    cases hu : r.url with
    | none =>
      obtain ⟨h1, h2⟩ := ih c1 c2 h
      simp only [h1, h2, and_self]
    | some u =>
      simp only
      by_cases he : (u == "") = true
      · simp only [he, ↓reduceIte]
        obtain ⟨h1, h2⟩ := ih c1 c2 h
        simp only [h1, h2, and_self]
      · have he' : (u == "") = false := by simpa using he
        simp only [he', Bool.false_eq_true, ↓reduceIte]
        obtain ⟨hres, hag⟩ := getImage_agree f o ⟨u, r.orient, r.forcedMime⟩ c1 c2 h
        cases hg1 : getImage c1 f o ⟨u, r.orient, r.forcedMime⟩ with
        | mk c1' r1 =>
          cases hg2 : getImage c2 f o ⟨u, r.orient, r.forcedMime⟩ with
          | mk c2' r2 =>
            obtain ⟨e1, o1⟩ := r1
            obtain ⟨e2, o2⟩ := r2
            rw [hg1, hg2] at hres hag
            simp only at hres hag
            subst hres
            cases o1 with
            | error e => exact ⟨rfl, rfl⟩
            | ok image =>
              obtain ⟨h1, h2⟩ := ih c1' c2' hag
              simp only [h1, h2, and_self]

/-- `getImage` keeps the cache sound. -/
private theorem getImage_sound (f : Fetcher) (o : Opts) (req : Req) (c : Cache) (h : Sound f c) :
    Sound f (getImage c f o req).1 := by
  cases hc : c.find? (req.key o) with
  | some v => rw [Wp.C20.image_cache_hit c f o req v hc]; exact h
  | none =>
    obtain ⟨evs, out, hnil, hcase⟩ := getImage_miss c f o req hc
    rcases hcase with ⟨img, ho, hg⟩ | ⟨ho, hg⟩ | ⟨e, ho, hg⟩
    · rw [hg]
      intro k img' hk hfail
      rw [find_cons] at hk
      by_cases hkk : ((req.key o) == k) = true
      · have hkeq : (req.key o) = k := by simpa using hkk
        subst hkeq
        obtain ⟨evs', hf⟩ := getImage_fails c f o req hc hfail
        rw [hg] at hf
        simp at hf
      · simp only [hkk, Bool.false_eq_true, ↓reduceIte] at hk
        exact h k img' hk hfail
    · rw [hg]
      intro k img' hk hfail
      rw [find_cons] at hk
      by_cases hkk : ((req.key o) == k) = true
      · simp [hkk] at hk
      · simp only [hkk, Bool.false_eq_true, ↓reduceIte] at hk
        exact h k img' hk hfail
    · rw [hg]; exact h

/-- The reference `r` without its URL. -/
def withoutUrl (r : Doc.ImgRef) : Doc.ImgRef := { r with url := none }

private theorem refBoxes_withoutUrl (r : Doc.ImgRef) : Doc.refBoxes r none = Doc.refBoxes (withoutUrl r) none := by
  unfold Doc.refBoxes withoutUrl
  cases r.kind <;> simp [Wp.C20.failure_as_absent_img, (Wp.C20.failure_as_absent_embed_object r.url).1,
    (Wp.C20.failure_as_absent_embed_object r.url).2]

private theorem step_failed (f : Fetcher) (o : Opts) (r : Doc.ImgRef) (post : List Doc.ImgRef) (c : Cache) (u : String)
    (hs : Sound f c) (hu : r.url = some u) (hfail : FailsKey f (Req.key ⟨u, r.orient, r.forcedMime⟩ o)) :
    (Doc.runRefs f o c (r :: post)).2.1 = (Doc.runRefs f o c (withoutUrl r :: post)).2.1 ∧
    (Doc.runRefs f o c (r :: post)).2.2.2 = (Doc.runRefs f o c (withoutUrl r :: post)).2.2.2 := by
  have hw : (withoutUrl r).url = none := rfl
  have hb := refBoxes_withoutUrl r
  conv => lhs; unfold Doc.runRefs
  conv => rhs; unfold Doc.runRefs
  simp only [hu, hw]
  by_cases he : (u == "") = true
  · simp only [he, ↓reduceIte, hb, and_self]
  · have he' : (u == "") = false := by simpa using he
    simp only [he', Bool.false_eq_true, ↓reduceIte]
    cases hc : c.find? (Req.key ⟨u, r.orient, r.forcedMime⟩ o) with
    | some v =>
      have hv : v = none := by
        cases v with
        | none => rfl
        | some img => exact absurd hfail (hs _ img hc)
      subst hv
      rw [Wp.C20.image_cache_hit c f o ⟨u, r.orient, r.forcedMime⟩ none hc]
      simp only [hb, and_self]
    | none =>
      obtain ⟨evs, hg⟩ := getImage_fails c f o ⟨u, r.orient, r.forcedMime⟩ hc hfail
      rw [hg]
      simp only
      have hag : Agree f ((Req.key ⟨u, r.orient, r.forcedMime⟩ o, none) :: c) c := by
        intro k
        rw [find_cons]
        by_cases hk : (Req.key ⟨u, r.orient, r.forcedMime⟩ o == k) = true
        · have : Req.key ⟨u, r.orient, r.forcedMime⟩ o = k := by simpa using hk
          subst this
          rw [if_pos hk]
          exact Or.inr ⟨hfail, Or.inl ⟨rfl, hc⟩⟩
        · rw [if_neg hk]; exact Or.inl rfl
      obtain ⟨h1, h2⟩ := runRefs_agree f o post _ c hag
      simp only [h1, h2, hb, and_self]

/-- `failure_as_absent` (image references, whole document): an `<img>` / `<embed>` / `<object>` /
`background-image` / `list-style-image` / `content: url()` / `border-image-source` reference whose fetch
raises — whatever the exception — anywhere in the document, leaves for *every* reference of the document
the boxes that the document without that URL gives (alt text, fallback children, or nothing at its own
place; and the `None` it leaves in the shared image cache is never seen by a later reference), and the
image stage ends the same way. -/
theorem failure_as_absent_image_reference (f : Fetcher) (o : Opts) (pre post : List Doc.ImgRef) (r : Doc.ImgRef)
    (u : String) (hu : r.url = some u) (hfail : FailsKey f (Req.key ⟨u, r.orient, r.forcedMime⟩ o)) :
    (Doc.runRefs f o [] (pre ++ r :: post)).2.1 = (Doc.runRefs f o [] (pre ++ withoutUrl r :: post)).2.1 ∧
    (Doc.runRefs f o [] (pre ++ r :: post)).2.2.2 = (Doc.runRefs f o [] (pre ++ withoutUrl r :: post)).2.2.2 := by
  have hs0 : Sound f [] := by intro k img hk; simp [Cache.find?] at hk
  suffices hgen : ∀ (c : Cache), Sound f c →
      (Doc.runRefs f o c (pre ++ r :: post)).2.1 = (Doc.runRefs f o c (pre ++ withoutUrl r :: post)).2.1 ∧
      (Doc.runRefs f o c (pre ++ r :: post)).2.2.2 = (Doc.runRefs f o c (pre ++ withoutUrl r :: post)).2.2.2 from
    hgen [] hs0
  induction pre with
  | nil => intro c hs; exact step_failed f o r post c u hs hu hfail
  | cons x xs ih =>
    intro c hs
    simp only [List.cons_append]
    conv => lhs; unfold Doc.runRefs
    conv => rhs; unfold Doc.runRefs
    cases hx : x.url with
    | none =>
      obtain ⟨h1, h2⟩ := ih c hs
      simp only [h1, h2, and_self]
    | some v =>
      simp only
      by_cases he : (v == "") = true
      · simp only [he, ↓reduceIte]
        obtain ⟨h1, h2⟩ := ih c hs
        simp only [h1, h2, and_self]
      · have he' : (v == "") = false := by simpa using he
        simp only [he', Bool.false_eq_true, ↓reduceIte]
        have hsound := getImage_sound f o ⟨v, x.orient, x.forcedMime⟩ c hs
        cases hg : getImage c f o ⟨v, x.orient, x.forcedMime⟩ with
        | mk c' rr =>
          obtain ⟨evs, out⟩ := rr
          rw [hg] at hsound
          cases out with
          | error e => exact ⟨rfl, rfl⟩
          | ok image =>
            obtain ⟨h1, h2⟩ := ih c' hsound
            simp only [h1, h2, and_self]

/-- Non-vacuity: a failing `<img alt>` between two uses of a good image and followed by a second reference
to the failing URL. -/
example :
    let good : Fetched := .resp ⟨true, none, none, none, ⟨1, false, some ⟨"PNG", "RGB", false, false, true⟩, false, true, false⟩⟩
    let f : Fetcher := fun u => if u == "http://a.test/bad.png" then .raises ⟨"OSError", "reset"⟩ else good
    let bad : Doc.ImgRef := ⟨.img, some "http://a.test/bad.png", some "ALT", .fromImage, none, none⟩
    let ok : Doc.ImgRef := ⟨.img, some "http://a.test/ok.png", none, .fromImage, none, none⟩
    (Doc.runRefs f ⟨false, none, none⟩ [] [ok, bad, ok, ⟨.background, some "http://a.test/bad.png", none, .fromImage, none, none⟩]).2.1 =
      [[.replaced], [.altText "ALT"], [.replaced], []] := by decide +kernel

end Wp.C20.Absent
