/-
C14 — `make_margin_boxes` yields **exactly** the margin boxes that have content: each once, in the order of the code
(`Model/PageBoxes.makeMarginBoxes`, tables of `Gen/MarginBoxes.lean`).  `margin_boxes_generated_only` (Props/C14) is
the inclusion "only boxes with content"; here the converse and the multiplicity / order: the clauses "generated
twice" and "has content but was not generated" of the document oracle, for all inputs.
-/
import WpModel.Props.C14

namespace Wp.C14
open Wp Wp.PageDoc Wp.PageBoxes Wp.PageState Wp.PageSel

private theorem placeSide_kw' (row : SideRow) (g : PageGeom) (vo fo : Rat) (m : MBox) (off : Rat) (p : Placed)
    (h : placeSide row g vo fo m off = .ok p) : p.kw = m.kw := by
  unfold placeSide at h
  simp only at h
  split at h
  · split at h
    · split at h
      · cases h
      · simp only [Except.ok.injEq] at h; subst h; rfl
    · cases h
  · split at h
    · split at h
      · cases h
      · simp only [Except.ok.injEq] at h; subst h; rfl
    · cases h

/-- The inner loop of a side row yields, in order, one box per generated box of the row. -/
private theorem inner_fold_kws (row : SideRow) (g : PageGeom) (vo fo : Rat) :
    ∀ (l : List (MBox × Option Rat)) (acc res : List Placed),
      l.foldlM (fun acc (x : MBox × Option Rat) =>
        if !x.1.generated then (Except.ok acc : Except PyErr (List Placed))
        else match x.2 with
          | none => .error (.indexError "make_margin_boxes:offsets")
          | some o =>
            match placeSide row g vo fo x.1 o with
            | .error e => .error e
            | .ok p => .ok (acc ++ [p])) acc = .ok res →
      res.map (·.kw) = acc.map (·.kw) ++ ((l.filter (fun x => x.1.generated)).map (fun x => x.1.kw)) := by
  intro l
  induction l with
  | nil => intro acc res h; simp [List.foldlM, pure, Except.pure] at h; subst h; simp
  | cons x xs ih =>
    intro acc res h
    rw [List.foldlM_cons] at h
    simp only [bind, Except.bind] at h
    split at h
    · cases h
    · rename_i acc' hacc
      have := ih acc' res h
      rw [this]
      by_cases hg : x.1.generated = true
      · simp only [hg, Bool.not_true, Bool.false_eq_true, ↓reduceIte] at hacc
        split at hacc
        · cases hacc
        · split at hacc
          · cases hacc
          · rename_i o _ p hp
            simp only [Except.ok.injEq] at hacc; subst hacc
            simp [List.filter_cons, hg, placeSide_kw' _ _ _ _ _ _ _ hp]
      · have hg' : x.1.generated = false := by simpa using hg
        simp only [hg', Bool.not_false, ↓reduceIte, Except.ok.injEq] at hacc
        subst hacc
        simp [List.filter_cons, hg']

private theorem findStyle_kw' (styles : List MStyle) (kw : String) : (findStyle styles kw).kw = kw := by
  unfold findStyle
  split
  · rename_i s hs
    have := List.find?_some hs
    simpa using this
  · rfl

private theorem makeBox_kw' (s : MStyle) (w h : Rat) :
    (makeBox s w h).kw = s.kw ∧ (makeBox s w h).generated = s.generated := by
  unfold makeBox; split <;> simp_all

/-- The keywords of the three boxes of a side row, in the order of the code. -/
def rowKeywords (row : SideRow) : List String :=
  (if row.vertical then Gen.verticalSuffixes else Gen.horizontalSuffixes).map (fun sfx => "@" ++ row.pre ++ "-" ++ sfx)

/-- One row of the side loop yields exactly the boxes of the row that have content, once each, in order. -/
theorem side_boxes_exact (row : SideRow) (g : PageGeom) (styles : List MStyle) (ps : List Placed)
    (h : sideBoxes row g styles = .ok ps) :
    ps.map (·.kw) = (rowKeywords row).filter (fun kw => (findStyle styles kw).generated) := by
  unfold sideBoxes at h
  simp only at h
  split at h
  · rename_i a b c hboxes
    -- the three boxes are those of the three keywords
    have hk : ∃ k1 k2 k3, rowKeywords row = [k1, k2, k3] ∧
        a.kw = k1 ∧ a.generated = (findStyle styles k1).generated ∧
        b.kw = k2 ∧ b.generated = (findStyle styles k2).generated ∧
        c.kw = k3 ∧ c.generated = (findStyle styles k3).generated := by
      unfold rowKeywords
      cases hv : row.vertical <;>
        simp only [hv, Bool.false_eq_true, ↓reduceIte, Gen.verticalSuffixes, Gen.horizontalSuffixes, List.map_cons,
          List.map_nil, List.cons.injEq, and_true] at hboxes ⊢ <;>
        (obtain ⟨rfl, rfl, rfl⟩ := hboxes
         exact ⟨_, _, _, ⟨rfl, rfl, rfl⟩, by simp [makeBox_kw', findStyle_kw']⟩)
    obtain ⟨k1, k2, k3, hrow, ha, hga, hb, hgb, hc, hgc⟩ := hk
    rw [hrow]
    split at h
    · rename_i hnone
      simp only [Except.ok.injEq] at h; subst h
      simp only [Bool.not_eq_eq_eq_not, Bool.not_true, Bool.or_eq_false_iff] at hnone
      simp [List.filter_cons, ← hga, ← hgb, ← hgc, hnone.1.1, hnone.1.2, hnone.2]
    · split at h
      · cases h
      · rename_i ra rb rc _
        have := inner_fold_kws row g _ _ _ [] ps h
        rw [this]
        cases hv : row.vertical <;>
          simp [List.filter_cons, MBox.restoreV, MBox.restoreH, ha, hb, hc, hga, hgb, hgc] <;>
          (cases (findStyle styles k1).generated <;> cases (findStyle styles k2).generated <;>
            cases (findStyle styles k3).generated <;> simp)
  · cases h

/-- A corner box is yielded exactly when it has content. -/
theorem corner_box_exact (row : CornerRow) (g : PageGeom) (styles : List MStyle) (ps : List Placed)
    (h : cornerBox row g styles = .ok ps) :
    ps.map (·.kw) = [row.kw].filter (fun kw => (findStyle styles kw).generated) := by
  unfold cornerBox at h
  simp only at h
  split at h
  · rename_i hg
    simp only [Except.ok.injEq] at h; subst h
    simp only [makeBox_kw', Bool.not_eq_eq_eq_not, Bool.not_true] at hg
    simp [List.filter_cons, hg]
  · rename_i hg
    simp only [makeBox_kw', Bool.not_eq_eq_eq_not, Bool.not_true, Bool.not_eq_false] at hg
    split at h
    · cases h
    · split at h
      · cases h
      · simp only [Except.ok.injEq] at h; subst h
        simp [List.filter_cons, hg, makeBox_kw', findStyle_kw']

private theorem fold_append_kws {α : Type} (f : α → Except PyErr (List Placed)) (K : α → List String) :
    ∀ (l : List α) (acc res : List Placed),
      (∀ x ∈ l, ∀ ps, f x = .ok ps → ps.map (·.kw) = K x) →
      l.foldlM (fun acc x => do
        let ps ← f x
        pure (acc ++ ps)) acc = .ok res →
      res.map (·.kw) = acc.map (·.kw) ++ l.flatMap K := by
  intro l
  induction l with
  | nil => intro acc res _ h; simp [List.foldlM, pure, Except.pure] at h; subst h; simp
  | cons x xs ih =>
    intro acc res hK h
    rw [List.foldlM_cons] at h
    simp only [bind, Except.bind, pure, Except.pure] at h
    split at h
    · cases h
    · rename_i acc' hacc
      split at hacc
      · cases hacc
      · rename_i ps hps
        simp only [Except.ok.injEq] at hacc; subst hacc
        rw [ih _ _ (fun y hy => hK y (by simp [hy])) h]
        simp [hK x (by simp) ps hps]

private theorem flatMap_single_filter (l : List CornerRow) (p : String → Bool) :
    l.flatMap (fun r => [r.kw].filter p) = (l.map (·.kw)).filter p := by
  induction l with
  | nil => rfl
  | cons r rs ih =>
    rw [List.flatMap_cons, List.map_cons, ih]
    simp only [List.filter_cons, List.filter_nil]
    split <;> simp

/-- **`make_margin_boxes` yields exactly the margin boxes that have content — each once, in the order of the code**
(the four side rows, three boxes each, then the four corners): nothing is generated twice, nothing with content is
left out, nothing without content is yielded. -/
theorem make_margin_boxes_exact (g : PageGeom) (styles : List MStyle) (res : List Placed)
    (h : makeMarginBoxes g styles = .ok res) :
    res.map (·.kw) = allKeywords.filter (fun kw => (findStyle styles kw).generated) := by
  unfold makeMarginBoxes at h
  simp only [bind, Except.bind, pure, Except.pure] at h
  split at h
  · cases h
  · rename_i sides hsides
    split at h
    · cases h
    · rename_i corners hcorners
      simp only [Except.ok.injEq] at h; subst h
      have h1 := fold_append_kws (fun row => sideBoxes row g styles)
        (fun row => (rowKeywords row).filter (fun kw => (findStyle styles kw).generated)) Gen.sideTable [] sides
        (fun row _ ps hps => side_boxes_exact row g styles ps hps) hsides
      have h2 := fold_append_kws (fun row => cornerBox row g styles)
        (fun row => [row.kw].filter (fun kw => (findStyle styles kw).generated)) Gen.cornerTable [] corners
        (fun row _ ps hps => corner_box_exact row g styles ps hps) hcorners
      simp only [List.map_nil, List.nil_append] at h1 h2
      rw [List.map_append, h1, h2]
      unfold allKeywords
      rw [List.filter_append]
      congr 1
      · rw [List.filter_flatMap]; rfl
      · exact flatMap_single_filter _ _

/-- The sixteen margin-box keywords of the generated tables are pairwise different. -/
theorem all_keywords_nodup : allKeywords.Nodup := by decide +kernel

/-- No margin box is yielded twice. -/
theorem make_margin_boxes_nodup (g : PageGeom) (styles : List MStyle) (res : List Placed)
    (h : makeMarginBoxes g styles = .ok res) : (res.map (·.kw)).Nodup := by
  rw [make_margin_boxes_exact g styles res h]
  exact all_keywords_nodup.filter _

/-- Completeness: every margin box that has content is yielded. -/
theorem make_margin_boxes_complete (g : PageGeom) (styles : List MStyle) (res : List Placed)
    (h : makeMarginBoxes g styles = .ok res) (kw : String) (hk : kw ∈ allKeywords)
    (hg : (findStyle styles kw).generated = true) : ∃ p ∈ res, p.kw = kw := by
  have : kw ∈ res.map (·.kw) := by
    rw [make_margin_boxes_exact g styles res h]; exact List.mem_filter.mpr ⟨hk, hg⟩
  obtain ⟨p, hp, hpk⟩ := List.mem_map.mp this
  exact ⟨p, hp, hpk⟩

/-- Non-vacuity: with content for `@bottom-left` and `@top-left` only (given in that order), the boxes yielded on a
100 × 100 page box with margins 20 are `@top-left`, `@bottom-left`. -/
example : (match makeMarginBoxes ⟨20, 20, 20, 20, 100, 100⟩
    [ { kw := "@bottom-left", generated := true, width := .auto, height := .auto, mt := .px 0, mr := .px 0, mb := .px 0
        ml := .px 0, pt := .px 0, pr := .px 0, pb := .px 0, pl := .px 0, bt := 0, br := 0, bb := 0, bl := 0
        minC := 10, maxC := 30 },
      { kw := "@top-left", generated := true, width := .auto, height := .auto, mt := .px 0, mr := .px 0, mb := .px 0
        ml := .px 0, pt := .px 0, pr := .px 0, pb := .px 0, pl := .px 0, bt := 0, br := 0, bb := 0, bl := 0
        minC := 10, maxC := 30 } ] with
    | .ok res => res.map (·.kw) == ["@top-left", "@bottom-left"]
    | .error _ => false) = true := by decide +kernel

end Wp.C14
