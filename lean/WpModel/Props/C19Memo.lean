/-
C19 — per-render memoisation is invisible, process-wide memoisation under the same key is not (`Model/Memo`).

  `memo_transparent`            within one render (one environment) a cache that only holds values measured in that
                                environment answers exactly as the measurement does, whatever was asked before
  `fresh_caches_pure`           a process in which every render creates its own cache computes, for every render, what
                                that render computes alone — independent of all earlier renders
  `shared_cache_not_pure`       necessity: with a cache that outlives the render and a key that omits the environment,
                                a render is answered with another render's measurement (the class of the seeded change
                                C19-8: `strut_layouts` as a class attribute)
The tie to the source: `C19.context_state_fresh` (the model of `Document._render`: every render allocates its
`LayoutContext`), the `render-state` correspondence (`shared=`: no container of a context is the object of an earlier
context, class attributes included), `Purity.no_class_level_container` (generated), and the font-binding pairs of the
history harness (document level).
-/
import WpModel.Model.Memo

namespace Wp.C19.MemoProps
open Wp.Memo

variable {ε κ ν : Type} [DecidableEq κ]

/-- Every entry of the cache was measured in `env`. -/
def Consistent (measure : ε → κ → ν) (env : ε) (t : Table κ ν) : Prop :=
  ∀ k v, find t k = some v → v = measure env k

theorem consistent_nil (measure : ε → κ → ν) (env : ε) : Consistent measure env ([] : Table κ ν) := by
  intro k v h; simp [find] at h

theorem memoGet_spec (measure : ε → κ → ν) (env : ε) (t : Table κ ν) (k : κ) (h : Consistent measure env t) :
    (memoGet measure env t k).1 = measure env k ∧ Consistent measure env (memoGet measure env t k).2 := by
  unfold memoGet
  cases hf : find t k with
  | some v => exact ⟨h k v hf, h⟩
  | none =>
    refine ⟨rfl, ?_⟩
    intro k' v' h'
    simp only [find] at h'
    by_cases e : k = k'
    · subst e; simp at h'; exact h'.symm
    · simp only [e, if_false] at h'; exact h k' v' h'

/-- **memo_transparent**: the calls of one render return the measurements of that render's environment, in order,
whatever the (consistent) cache already holds. -/
theorem memo_transparent (measure : ε → κ → ν) (env : ε) (t : Table κ ν) (ks : List κ)
    (h : Consistent measure env t) :
    (run measure env t ks).1 = ks.map (measure env) ∧ Consistent measure env (run measure env t ks).2 := by
  induction ks generalizing t with
  | nil => exact ⟨rfl, h⟩
  | cons k rest ih =>
    obtain ⟨g1, g2⟩ := memoGet_spec measure env t k h
    obtain ⟨r1, r2⟩ := ih _ g2
    simp only [run, List.map_cons, List.cons.injEq]
    exact ⟨⟨g1, r1⟩, r2⟩

/-- **fresh_caches_pure**: when every render starts with its own empty cache, each render of a process returns the
measurements of its own environment — the same as when it is the only render of the process. -/
theorem fresh_caches_pure (measure : ε → κ → ν) (t : Table κ ν) (renders : List (ε × List κ)) :
    runRenders measure true t renders = renders.map (fun r => r.2.map (measure r.1)) := by
  induction renders generalizing t with
  | nil => rfl
  | cons r rest ih =>
    obtain ⟨env, ks⟩ := r
    simp only [runRenders, if_true, List.map_cons, List.cons.injEq]
    exact ⟨(memo_transparent measure env [] ks (consistent_nil measure env)).1, ih _⟩

/-- **shared_cache_not_pure**: two renders that ask for the same key in different environments (the same font style,
the family bound to different fonts): with a cache that outlives the render the second gets the first's value. -/
theorem shared_cache_not_pure :
    let measure : Bool → Nat → Nat := fun env k => if env then k + 10 else k
    runRenders measure false [] [(true, [1]), (false, [1])] = [[11], [11]] ∧
    runRenders measure true [] [(true, [1]), (false, [1])] = [[11], [1]] := by decide

end Wp.C19.MemoProps
