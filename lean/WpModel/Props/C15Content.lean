/-
C15 — the counter functions of `content`: theorems about `Model/ContentFns.lean` (`check_counter_function`,
`get_target` of css/utils.py).  The counter name a function reads is an identifier of its argument list **as
written** (a case-sensitive `<custom-ident>`, like the names `counter-reset` / `-increment` / `-set` declare);
only the counter style of `target-counter(s)()` and the `target-text()` keyword go through `get_keyword`.
-/
import WpModel.Model.ContentFns

namespace Wp.C15
open Wp.Counters Wp.ContentFns

private theorem parseArgs_mem : ∀ (toks : List ATok) (lc : Bool) (acc args : List ATok),
    parseArgs toks lc acc = some args → ∀ t ∈ args, t ∈ acc ∨ t ∈ toks := by
  intro toks
  induction toks with
  | nil =>
    intro lc acc args h t ht
    cases lc <;> simp [parseArgs] at h
    subst h; exact Or.inl ht
  | cons x xs ih =>
    intro lc acc args h t ht
    cases x with
    | comma =>
      cases lc
      · simp only [parseArgs] at h
        rcases ih true acc args (by simpa using h) t ht with h1 | h1
        · exact Or.inl h1
        · exact Or.inr (List.mem_cons_of_mem _ h1)
      · simp [parseArgs] at h
    | ident v =>
      simp only [parseArgs] at h
      rcases ih false _ args h t ht with h1 | h1
      · rcases List.mem_append.mp h1 with h2 | h2
        · exact Or.inl h2
        · simp at h2; subst h2; exact Or.inr (by simp)
      · exact Or.inr (List.mem_cons_of_mem _ h1)
    | str v =>
      simp only [parseArgs] at h
      rcases ih false _ args h t ht with h1 | h1
      · rcases List.mem_append.mp h1 with h2 | h2
        · exact Or.inl h2
        · simp at h2; subst h2; exact Or.inr (by simp)
      · exact Or.inr (List.mem_cons_of_mem _ h1)
    | url v =>
      simp only [parseArgs] at h
      rcases ih false _ args h t ht with h1 | h1
      · rcases List.mem_append.mp h1 with h2 | h2
        · exact Or.inl h2
        · simp at h2; subst h2; exact Or.inr (by simp)
      · exact Or.inr (List.mem_cons_of_mem _ h1)
    | attr =>
      simp only [parseArgs] at h
      rcases ih false _ args h t ht with h1 | h1
      · rcases List.mem_append.mp h1 with h2 | h2
        · exact Or.inl h2
        · simp at h2; subst h2; exact Or.inr (by simp)
      · exact Or.inr (List.mem_cons_of_mem _ h1)
    | other =>
      simp only [parseArgs] at h
      rcases ih false _ args h t ht with h1 | h1
      · rcases List.mem_append.mp h1 with h2 | h2
        · exact Or.inl h2
        · simp at h2; subst h2; exact Or.inr (by simp)
      · exact Or.inr (List.mem_cons_of_mem _ h1)

private theorem splitOnComma_mem : ∀ (toks cur : List ATok), ∀ p ∈ splitOnComma toks cur, ∀ t ∈ p, t ∈ cur ∨ t ∈ toks := by
  intro toks
  induction toks with
  | nil => intro cur p hp t ht; simp [splitOnComma] at hp; subst hp; exact Or.inl ht
  | cons x xs ih =>
    intro cur p hp t ht
    cases x with
    | comma =>
      simp only [splitOnComma, List.mem_cons] at hp
      rcases hp with hp | hp
      · subst hp; exact Or.inl ht
      · rcases ih [] p hp t ht with h1 | h1
        · simp at h1
        · exact Or.inr (List.mem_cons_of_mem _ h1)
    | ident v | str v | url v =>
      simp only [splitOnComma] at hp
      rcases ih _ p hp t ht with h1 | h1
      · rcases List.mem_append.mp h1 with h2 | h2
        · exact Or.inl h2
        · simp at h2; subst h2; exact Or.inr (by simp)
      · exact Or.inr (List.mem_cons_of_mem _ h1)
    | attr | other =>
      simp only [splitOnComma] at hp
      rcases ih _ p hp t ht with h1 | h1
      · rcases List.mem_append.mp h1 with h2 | h2
        · exact Or.inl h2
        · simp at h2; subst h2; exact Or.inr (by simp)
      · exact Or.inr (List.mem_cons_of_mem _ h1)

private theorem joinParts_mem : ∀ (parts : List (List ATok)) (out : List ATok), joinParts parts = some out →
    ∀ t ∈ out, ∃ p ∈ parts, t ∈ p := by
  intro parts
  induction parts with
  | nil => intro out h t ht; simp [joinParts] at h; subst h; simp at ht
  | cons p rest ih =>
    intro out h t ht
    unfold joinParts at h
    split at h
    · simp at h
    · cases hr : joinParts rest with
      | none => simp [hr] at h
      | some r =>
        simp only [hr, Option.map_some, Option.some.injEq] at h
        subst h
        rcases List.mem_append.mp ht with h1 | h1
        · exact ⟨p, by simp, h1⟩
        · obtain ⟨q, hq, hq2⟩ := ih r hr t h1
          exact ⟨q, List.mem_cons_of_mem _ hq, hq2⟩

private theorem optionalComma_mem (args out : List ATok) (h : splitOnOptionalComma args = some out) :
    ∀ t ∈ out, t ∈ args := by
  intro t ht
  obtain ⟨p, hp, htp⟩ := joinParts_mem _ out h t ht
  rcases splitOnComma_mem args [] p hp t htp with h1 | h1
  · simp at h1
  · exact h1

/-- **C15.counter_name_as_written** — whatever the function (`counter`, `counters`, `target-counter`,
`target-counters`, in any spelling of the function name) and whatever its arguments, the counter name of the
parsed item is an identifier token of the argument list, exactly as written: it is never case-folded, so it
designates the same counter as the `counter-reset` / `counter-increment` / `counter-set` that declared it. -/
theorem counter_name_as_written (rawName : String) (toks : List ATok) (p : Parsed) (n : String)
    (h : contentFn rawName toks = some p) (hn : p.counterName = some n) : ATok.ident n ∈ toks := by
  have key : ∀ args, parseArgs toks false [] = some args → ATok.ident n ∈ args → ATok.ident n ∈ toks := by
    intro args ha hm
    rcases parseArgs_mem toks false [] args ha _ hm with h1 | h1
    · simp at h1
    · exact h1
  unfold contentFn at h
  split at h
  · -- counter / counters
    unfold counterFn at h
    cases ha : parseArgs toks false [] with
    | none => simp [ha] at h
    | some args =>
      simp only [ha] at h
      repeat' split at h
      all_goals first
        | (simp at h; done)
        | (simp only [Option.some.injEq] at h; subst h; simp [Parsed.counterName] at hn; subst hn
           exact key _ ha (by simp))
        | (simp only [Option.map_eq_some_iff] at h; obtain ⟨s, _, h⟩ := h; subst h
           simp [Parsed.counterName] at hn; subst hn; exact key _ ha (by simp))
  · -- target-*
    unfold targetFn at h
    cases ha : parseArgs toks false [] with
    | none => simp [ha] at h
    | some args0 =>
      simp only [ha] at h
      cases hsp : splitOnOptionalComma args0 with
      | none => simp [hsp] at h
      | some parts =>
        cases parts with
        | nil => simp [hsp] at h
        | cons link args =>
          simp only [hsp] at h
          have back : ATok.ident n ∈ args → ATok.ident n ∈ toks := fun hm =>
            key args0 ha (optionalComma_mem args0 _ hsp _ (List.mem_cons_of_mem _ hm))
          repeat' split at h
          all_goals first
            | (simp at h; done)
            | (simp only [Option.some.injEq] at h; subst h; simp [Parsed.counterName] at hn; done)
            | (simp only [Option.some.injEq] at h; subst h; simp [Parsed.counterName] at hn; subst hn
               exact back (by simp))
            | (simp only [Option.map_eq_some_iff] at h; obtain ⟨s, _, h⟩ := h; subst h
               simp [Parsed.counterName] at hn; subst hn; exact back (by simp))

/-- `target-counter(link, name, style)` with or without commas: the name as written, the style lower-cased. -/
theorem target_counter_shape (n st : String) :
    targetFn "target-counter" [.str "#t", .comma, .ident n, .comma, .ident st] =
      some (.targetCounter (.str "#t") n (lowerAscii st)) ∧
    targetFn "target-counter" [.str "#t", .ident n, .ident st] =
      some (.targetCounter (.str "#t") n (lowerAscii st)) := by
  constructor <;>
    simp [targetFn, parseArgs, splitOnOptionalComma, splitOnComma, joinParts, linkOf, keyword?]

/-- **C15.target_counter_style_named** (since `fix:` 9677ed2; the style used to be Python `None` for a string,
`symbols()` or number argument, finding `target-counter-non-ident-style-crash`): the third argument of an
accepted `target-counter()` — the fourth of `target-counters()` — is an identifier, and the item carries its
lower-cased name; with the type `style : String` every accepted item names a counter style. -/
theorem target_counter_style_named (link : ATok) (n : String) (st : ATok) (p : Parsed)
    (h : targetFn "target-counter" [link, .ident n, st] = some p) (hst : st ≠ .comma) (hl : link ≠ .comma) :
    ∃ l v, linkOf link = some l ∧ st = .ident v ∧ p = .targetCounter l n (lowerAscii v) := by
  have hp : parseArgs [link, .ident n, st] false [] = some [link, .ident n, st] := by
    cases link <;> cases st <;> simp_all [parseArgs]
  have hs : splitOnOptionalComma [link, .ident n, st] = some [link, .ident n, st] := by
    cases link <;> cases st <;> simp_all [splitOnOptionalComma, splitOnComma, joinParts]
  simp only [targetFn, hp, hs] at h
  cases hlk : linkOf link with
  | none => simp [hlk] at h
  | some l =>
    cases st with
    | ident v =>
      simp [hlk, keyword?] at h
      exact ⟨l, v, rfl, rfl, h.symm⟩
    | str v => simp [hlk, keyword?] at h
    | url v => simp [hlk, keyword?] at h
    | attr => simp [hlk, keyword?] at h
    | comma => exact absurd rfl hst
    | other => simp [hlk, keyword?] at h

/-- `counter(name, style)`: both as written (`list_style_type` keeps the identifier). -/
theorem counter_shape (n st : String) :
    counterFn "counter" [.ident n, .comma, .ident st] = some (.counter n (.named st)) := by
  simp [counterFn, parseArgs, listStyleType]

/-! Non-vacuity -/
example : contentFn "target-counter" [.attr, .comma, .ident "chapterNum", .comma, .ident "UPPER-ROMAN"] =
    some (.targetCounter .attr "chapterNum" "upper-roman") := by decide
example : contentFn "Target-Counters" [.url "#Sec", .ident "Sec", .str "."] =
    some (.targetCounters (.internal "Sec") "Sec" "." "decimal") := by decide
example : contentFn "COUNTER" [.ident "c"] = none := by decide
example : contentFn "target-counter" [.str "#t", .comma, .ident "c", .comma, .str "x"] = none := by decide
example : contentFn "counters" [.ident "Sec", .comma, .str "-", .comma, .str "*"] =
    some (.counters "Sec" "-" (.str "*")) := by decide
example : contentFn "target-counter" [.str "#t", .comma, .comma, .ident "c"] = none := by decide

end Wp.C15
