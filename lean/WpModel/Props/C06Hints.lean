/-
C06 — presentational hints (`find_style_attributes` with `presentational_hints=True`): what the
HTML attributes contribute to the cascade, on `Model/PresHints.lean`.
-/
import WpModel.Model.PresHints

namespace Wp.C06
open Wp Wp.PresHints

private theorem lookup_font_sizes (n : Int) (h1 : 1 ≤ n) (h7 : n ≤ 7) :
    ∃ name, lookupInt n fontSizes = some name ∧ name ∈ fontSizes.map (·.2) := by
  have : n = 1 ∨ n = 2 ∨ n = 3 ∨ n = 4 ∨ n = 5 ∨ n = 6 ∨ n = 7 := by omega
  rcases this with h | h | h | h | h | h | h <;> subst h <;> exact ⟨_, rfl, by decide⟩

private theorem clamped_lookup (x : Int) :
    ∃ name ∈ fontSizes.map (·.2),
      (lookupInt (max 1 (min 7 x)) fontSizes).map ("font-size:" ++ ·) = some ("font-size:" ++ name) := by
  obtain ⟨name, hl, hm⟩ := lookup_font_sizes (max 1 (min 7 x)) (by omega) (by omega)
  exact ⟨name, hm, by rw [hl]; rfl⟩

/-- `<font size>`: whenever the attribute holds an integer (with an optional sign, read as
relative to 3), the hint is one of the seven sizes of the table — the clamp to 1‥7 makes the
`font_sizes[size]` lookup total (no `KeyError` for `size="0"`, `"99"`, `"-9"`). -/
theorem font_size_hint_total (attr : String) :
    fontSizeHint attr = none ∨
    ∃ name ∈ fontSizes.map (·.2), fontSizeHint attr = some ("font-size:" ++ name) := by
  unfold fontSizeHint
  simp only
  split
  · exact Or.inl rfl
  · exact Or.inr (clamped_lookup _)

/-- Sizes are absolute 1‥7, or relative: `+n` is `3 + n`, `-n` is `3 - n`, clamped. -/
theorem font_size_hint_examples :
    fontSizeHint "1" = some "font-size:x-small" ∧ fontSizeHint "3" = some "font-size:medium" ∧
    fontSizeHint "7" = some "font-size:48px" ∧ fontSizeHint "99" = some "font-size:48px" ∧
    fontSizeHint "0" = some "font-size:x-small" ∧ fontSizeHint "+1" = some "font-size:large" ∧
    fontSizeHint " -2 " = some "font-size:x-small" ∧ fontSizeHint "+ 4" = some "font-size:48px" ∧
    fontSizeHint "abc" = none ∧ fontSizeHint "1.5" = none := by
  decide +kernel

/-- An element that is not one of the tags the function knows gets no hint, whatever its
attributes. -/
theorem no_hint_for_other_tags (attrs : Attrs) :
    hints "p" attrs = [] ∧ hints "span" attrs = [] ∧ hints "section" attrs = [] := by
  refine ⟨?_, ?_, ?_⟩ <;> simp [hints]

/-- The `align` attribute of a `div` / table part / caption: ASCII case-insensitive, `middle` means
`center`, anything else but the four values is ignored. -/
theorem align_hint_values (attrs : Attrs) :
    alignHint attrs = [] ∨ alignHint attrs = ["text-align:center"] ∨ alignHint attrs = ["text-align:left"] ∨
    alignHint attrs = ["text-align:right"] ∨ alignHint attrs = ["text-align:justify"] := by
  unfold alignHint
  simp only
  split
  · exact Or.inr (Or.inl rfl)
  · split
    · rename_i h
      have hm : lower (getD attrs "align") ∈ ["center", "left", "right", "justify"] := by simpa using h
      simp only [List.mem_cons, List.mem_nil_iff, or_false] at hm
      rcases hm with h | h | h | h <;> rw [h] <;> simp
    · exact Or.inl rfl

example : hints "div" [("align", "MIDDLE")] = ["text-align:center"] ∧
    hints "table" [("width", "50"), ("height", "50%"), ("cellspacing", "2")] =
      ["border-spacing:2px", "width:50px", "height:50%"] ∧
    hints "hr" [("size", "3"), ("noshade", "")] = ["border-width:1.5px"] ∧
    hints "hr" [("size", "5")] = ["height:3px"] ∧
    hints "img" [("align", "Center"), ("border", "2")] = ["vertical-align:middle", "border-width:2px;border-style:solid"] ∧
    cellPaddingHint [("cellpadding", "4")] =
      some "padding-left:4px;padding-right:4px;padding-top:4px;padding-bottom:4px;" := by
  decide +kernel

end Wp.C06
