/-
C14 — document level: what every page of `PageDoc.render` is made of.  `render` is the function whose output is
compared, page by page and number by number, with the real pipeline on every generated document (section
`documents`); these theorems transport the function-level theorems of `Props/C14.lean` to it: the page sequence
(`doc_pages`), `counter(pages)` (`pages_counter`), the page box (`makePageBox`: `page_box`, `page_fills_sheet`,
`page_content_is_what_remains`, `make_page_box_refines`) and the margin boxes (`margin_box_rects`).
-/
import WpModel.Props.C14
import WpModel.Props.C14Exact

namespace Wp.C14
open Wp Wp.PageDoc Wp.PageBoxes Wp.PageState Wp.PageSel Wp.PageGroups

/-- Pointwise relation between two lists of the same length. -/
private def Paired {α β : Type} (R : α → β → Prop) : List α → List β → Prop
  | [], [] => True
  | a :: as, b :: bs => R a b ∧ Paired R as bs
  | _, _ => False

private theorem Paired.length {α β : Type} {R : α → β → Prop} : ∀ {l1 : List α} {l2 : List β}, Paired R l1 l2 → l1.length = l2.length
  | [], [], _ => rfl
  | _ :: _, _ :: _, h => by simp [Paired.length h.2]
  | [], _ :: _, h => h.elim
  | _ :: _, [], h => h.elim

private theorem Paired.get {α β : Type} {R : α → β → Prop} : ∀ {l1 : List α} {l2 : List β}, Paired R l1 l2 →
    ∀ (i : Nat) (h1 : i < l1.length) (h2 : i < l2.length), R l1[i] l2[i]
  | _ :: _, _ :: _, h, 0, _, _ => h.1
  | _ :: _, _ :: _, h, i + 1, h1, h2 => Paired.get h.2 i (by simpa using h1) (by simpa using h2)
  | [], _, _, _, h1, _ => by simp at h1
  | _ :: _, [], _, _, _, h2 => by simp at h2

/-- The cascade gives the margin box `kw` of a page of type `pt` a `content` other than `normal` / `none`. -/
def HasContent (d : Doc) (pt : PageType) (kw : String) : Prop :=
  ∃ items w, (addPageDeclarations d.rules pt kw).get "content" = some (.content (some items), w)

/-- Boolean form of `HasContent`: what `make_box` tests (`box.is_generated`). -/
def hasContentB (d : Doc) (pt : PageType) (kw : String) : Bool :=
  match (addPageDeclarations d.rules pt kw).get "content" with
  | some (.content (some _), _) => true
  | _ => false

theorem hasContentB_iff (d : Doc) (pt : PageType) (kw : String) : hasContentB d pt kw = true ↔ HasContent d pt kw := by
  unfold hasContentB HasContent
  constructor
  · intro h
    split at h
    · rename_i items w hget; exact ⟨items, w, hget⟩
    · cases h
  · rintro ⟨items, w, hget⟩; simp [hget]

private theorem mapM_ok_paired {α β : Type} (f : α → Except PyErr β) :
    ∀ (l : List α) (r : List β), l.mapM f = .ok r → Paired (fun x y => f x = .ok y) l r := by
  intro l
  induction l with
  | nil => intro r h; simp [pure, Except.pure] at h; subst h; exact True.intro
  | cons a as ih =>
    intro r h
    rw [List.mapM_cons] at h
    simp only [bind, Except.bind, pure, Except.pure] at h
    split at h
    · cases h
    · rename_i b hb
      split at h
      · cases h
      · rename_i bs hbs
        simp only [Except.ok.injEq] at h; subst h
        exact ⟨hb, ih bs hbs⟩

private theorem paired_map_snd {α β γ : Type} (R : α → β → Prop) (S : α → γ → Prop) (f : β → γ) :
    ∀ (l : List α) (r : List β), Paired R l r → (∀ a b, R a b → S a (f b)) → Paired S l (r.map f)
  | [], [], _, _ => True.intro
  | a :: as, b :: bs, h, hRS => ⟨hRS a b h.1, paired_map_snd R S f as bs h.2 hRS⟩
  | [], _ :: _, h, _ => h.elim
  | _ :: _, [], h, _ => h.elim

private theorem mapM_ok_mem {α β : Type} (f : α → Except PyErr β) :
    ∀ (l : List α) (r : List β), l.mapM f = .ok r → ∀ y ∈ r, ∃ x ∈ l, f x = .ok y := by
  intro l
  induction l with
  | nil => intro r h y hy; simp [pure, Except.pure] at h; subst h; simp at hy
  | cons a as ih =>
    intro r h y hy
    rw [List.mapM_cons] at h
    simp only [bind, Except.bind, pure, Except.pure] at h
    split at h
    · cases h
    · rename_i b hb
      split at h
      · cases h
      · rename_i bs hbs
        simp only [Except.ok.injEq] at h; subst h
        rcases List.mem_cons.mp hy with rfl | hy
        · exact ⟨a, by simp, hb⟩
        · obtain ⟨x, hx, hfx⟩ := ih bs hbs y hy
          exact ⟨x, by simp [hx], hfx⟩

private theorem marginStyle_spec (d : Doc) (st run : Strings) (pt : PageType) (n : Nat) (secs : List Section) (cs : CState)
    (kw : String) (ms : MStyle) (ws : List String) (h : marginStyle d st run pt n secs cs kw = .ok (ms, ws)) :
    ms.kw = kw ∧ (ms.generated = true → HasContent d pt kw) ∧ ms.generated = hasContentB d pt kw := by
  unfold marginStyle at h
  simp only [bind, Except.bind, pure, Except.pure] at h
  split at h
  · rename_i hnone
    simp only [Except.ok.injEq, Prod.mk.injEq] at h
    obtain ⟨rfl, _⟩ := h
    have hb : hasContentB d pt kw = false := by
      cases hq : hasContentB d pt kw
      · rfl
      · obtain ⟨items, w, hget⟩ := (hasContentB_iff d pt kw).mp hq
        simp [hget] at hnone
    exact ⟨rfl, fun hg => by simp at hg, hb.symm⟩
  · rename_i items hitems
    split at h
    · cases h
    · split at h
      · cases h
      · simp only [Except.ok.injEq, Prod.mk.injEq] at h
        obtain ⟨rfl, _⟩ := h
        have hc : HasContent d pt kw := by
          split at hitems
          · rename_i x w hget
            subst hitems
            exact ⟨items, w, hget⟩
          · cases hitems
        exact ⟨rfl, fun _ => hc, ((hasContentB_iff d pt kw).mpr hc).symm⟩
/-- The clamp `height = max(min(height, max_height), min_height)` of `block_container_layout` on a margin box. -/
def clampHeight (q : Placed) : Placed := { q with height := max q.height 0 }

/-- What one output of `render` is, relative to the page it was made from. -/
private def PageOutOf (d : Doc) (total : Nat) (p : (PageHead × List Section) × PageType × Cascaded Val × CState)
    (o : PageOut) : Prop :=
  o.head = p.1.1 ∧ o.box = makePageBox (pageStyle p.2.2.1) ∧ o.counters = setPages p.2.2.2 total ∧
  o.bleed = pageBleed p.2.2.1 ∧ o.groups = p.2.1.groups ∧
  ∃ styles placed, (∀ s ∈ styles, s.generated = true → HasContent d p.2.1 s.kw) ∧
    makeMarginBoxes o.box.geom styles = .ok placed ∧ o.margin.map (·.1) = placed.map clampHeight ∧
    Paired (fun kw (s : MStyle) => s.kw = kw ∧ s.generated = hasContentB d p.2.1 kw) allKeywords styles

private theorem render_go_spec (d : Doc) (total : Nat) (st run : Strings)
    (ps : List ((PageHead × List Section) × PageType × Cascaded Val × CState)) (n : Nat) (outs : List PageOut)
    (h : render.go d total st run ps n = .ok outs) : Paired (PageOutOf d total) ps outs := by
  induction ps generalizing n outs with
  | nil =>
    unfold render.go at h
    simp only [pure, Except.pure, Except.ok.injEq] at h
    subst h; exact True.intro
  | cons p rest ih =>
    obtain ⟨⟨hd, secs⟩, pt, c, cs⟩ := p
    unfold render.go at h
    simp only [bind, Except.bind, pure, Except.pure] at h
    split at h
    · cases h
    · rename_i styled hstyled
      split at h
      · cases h
      · rename_i placed hplaced
        split at h
        · cases h
        · split at h
          · cases h
          · rename_i tail htail
            simp only [Except.ok.injEq] at h
            subst h
            refine ⟨⟨rfl, rfl, rfl, rfl, rfl, _, placed, ?_, hplaced, ?_, ?_⟩, ih _ _ htail⟩
            · intro s hs hg
              obtain ⟨⟨ms, ws⟩, hmem, rfl⟩ := List.mem_map.mp hs
              obtain ⟨kw, _, hkw⟩ := mapM_ok_mem _ _ _ hstyled (ms, ws) hmem
              obtain ⟨hk, hc, _⟩ := marginStyle_spec _ _ _ _ _ _ _ _ _ _ hkw
              simp only at hk hg ⊢
              rw [hk]; exact hc hg
            · simp [List.map_map, Function.comp_def, clampHeight]
            · have hpair := mapM_ok_paired _ _ _ hstyled
              exact paired_map_snd _ _ _ _ _ hpair (fun kw y hy => by
                obtain ⟨hk, _, hg⟩ := marginStyle_spec _ _ _ _ _ _ _ _ _ _ hy
                exact ⟨hk, hg⟩)

private theorem pageStates_length (styles : List RawCStyle) (st : CState) (l : List CState)
    (h : pageStates styles st = .ok l) : l.length = styles.length := by
  induction styles generalizing st l with
  | nil => simp [pageStates] at h; subst h; rfl
  | cons s rest ih =>
    unfold pageStates at h
    split at h
    · cases h
    · split at h
      · cases h
      · rename_i l' hl
        simp only [Except.ok.injEq] at h; subst h
        simp [ih _ _ hl]

private theorem pageGroups_length (root : Elt) (reqs : List (Request × RA)) (gs : List Group) (l : List (List Group))
    (h : pageGroups root reqs gs = .ok l) : l.length = reqs.length := by
  induction reqs generalizing gs l with
  | nil => simp [pageGroups] at h; subst h; rfl
  | cons r rest ih =>
    obtain ⟨req, ra⟩ := r
    unfold pageGroups at h
    split at h
    · cases h
    · split at h
      · cases h
      · rename_i l' hl
        simp only [Except.ok.injEq] at h; subst h
        simp [ih _ _ hl]

private theorem pageReqs_length (pages : List (PageHead × List Section)) (rs : List (Request × RA)) :
    (pageReqs pages rs).length = pages.length := by
  induction pages generalizing rs with
  | nil => rfl
  | cons p ps ih =>
    obtain ⟨h, secs⟩ := p
    unfold pageReqs
    split
    · simp [ih]
    · split <;> simp [ih]

private theorem Paired.map_eq {α β γ : Type} {R : α → β → Prop} (f : α → γ) (g : β → γ) (hR : ∀ a b, R a b → g b = f a) :
    ∀ {l1 : List α} {l2 : List β}, Paired R l1 l2 → l2.map g = l1.map f
  | [], [], _ => rfl
  | a :: as, b :: bs, h => by simp [hR a b h.1, Paired.map_eq f g hR h.2]
  | [], _ :: _, h => h.elim
  | _ :: _, [], h => h.elim

private theorem Paired.exists_left {α β : Type} {R : α → β → Prop} :
    ∀ {l1 : List α} {l2 : List β}, Paired R l1 l2 → ∀ b ∈ l2, ∃ a ∈ l1, R a b
  | [], [], _, b, hb => by simp at hb
  | a :: as, b' :: bs, h, b, hb => by
    rcases List.mem_cons.mp hb with rfl | hb
    · exact ⟨a, by simp, h.1⟩
    · obtain ⟨a', ha', hr⟩ := Paired.exists_left h.2 b hb
      exact ⟨a', by simp [ha'], hr⟩
  | [], _ :: _, h, _, _ => h.elim
  | _ :: _, [], h, _, _ => h.elim

/-- **Document level: what every page of `render` (the function compared with the real pipeline on every generated
document) is made of.**  If the model renders a document, then
* its pages are exactly the pages of `docPages` (so `doc_pages` applies: at least one page, indexes 0, 1, 2 …, sides
  alternating from the side `initialize_page_maker` chose, never two blank pages in a row);
* on every page `counter(pages)` is the number of pages of the document;
* every page box is `makePageBox` of a cascaded `@page` style (so `page_box`, `page_fills_sheet`,
  `page_content_is_what_remains`, `make_page_box_refines` apply), its bleed the computed `bleed-*` of that style;
* the margin boxes of the page are the result of `makeMarginBoxes` on the geometry of that page box (so
  `margin_box_rects`, `margin_boxes_generated_only` apply), heights clamped at 0. -/
theorem render_sound (d : Doc) (outs : List PageOut) (h : render d = .ok outs) :
    outs.map (·.head) = (docPages d).map (·.1) ∧
    ∀ o ∈ outs,
      counterValue o.counters "pages" = .ok (outs.length : Int) ∧
      (∃ c : Cascaded Val, o.box = makePageBox (pageStyle c) ∧ o.bleed = pageBleed c) ∧
      ∃ styles placed, makeMarginBoxes o.box.geom styles = .ok placed ∧ o.margin.map (·.1) = placed.map clampHeight := by
  unfold render at h
  simp only [bind, Except.bind] at h
  split at h
  · cases h
  · rename_i groups hgroups
    split at h
    · cases h
    · rename_i states hstates
      split at h
      · cases h
      · rename_i strs _
        have hp := render_go_spec _ _ _ _ _ _ _ h
        have hlenG := pageGroups_length _ _ _ _ hgroups
        have hlenS := pageStates_length _ _ _ hstates
        have hG : groups.length = (docPages d).length := by
          split at hlenG
          · rename_i r y rest heq
            have := congrArg List.length heq
            rw [pageReqs_length] at this
            rw [hlenG, this]; rfl
          · rename_i heq
            have := congrArg List.length heq
            rw [pageReqs_length] at this
            rw [hlenG, this]
        have hS : states.length = (docPages d).length := by
          rw [hlenS]; simp [List.length_zip, hG]
        have hlen := (Paired.length hp).symm
        have hlen' : outs.length = (docPages d).length := by
          rw [hlen]; simp [List.length_zip, hG, hS]
        constructor
        · have := Paired.map_eq (R := PageOutOf d (docPages d).length) (fun p => p.1.1) (fun o : PageOut => o.head)
            (fun a b hab => hab.1) hp
          rw [this]
          have hz : ∀ {β : Type} (l2 : List β), (docPages d).length ≤ l2.length →
              List.map (fun p => p.1.1) ((docPages d).zip l2) = List.map (fun x => x.1) (docPages d) := by
            intro β l2 hle
            have := List.map_fst_zip (l₁ := docPages d) (l₂ := l2) hle
            calc List.map (fun p => p.1.1) ((docPages d).zip l2)
                = List.map (fun x : PageHead × List Section => x.1) (List.map Prod.fst ((docPages d).zip l2)) := by
                  rw [List.map_map]; rfl
              _ = _ := by rw [this]
          apply hz
          simp [List.length_zip, hG, hS]
        · intro o ho
          obtain ⟨p, _, hpo⟩ := Paired.exists_left hp o ho
          obtain ⟨_, hbox, hcnt, hbleed, _, styles, placed, _, hm1, hm2, _⟩ := hpo
          refine ⟨?_, ⟨p.2.2.1, hbox, hbleed⟩, styles, placed, hm1, hm2⟩
          rw [hcnt, hlen']
          exact (pages_counter _ _).1

/-- Pages of a rendered document: at least one, numbered 0, 1, 2 …, alternating right / left from the side chosen by
`initialize_page_maker`, never two blank pages in a row (`doc_pages` transported to the output of `render`). -/
theorem render_pages (d : Doc) (outs : List PageOut) (h : render d = .ok outs) :
    outs.length ≥ 1 ∧ Alternates (outs.map (·.head)) 0 (initRightPage d.rootBreak d.ltr) ∧
    noTwoBlanks (outs.map (·.head)) = true := by
  have hs := (render_sound d outs h).1
  have hd := doc_pages d
  refine ⟨?_, by rw [hs]; exact hd.2.1, by rw [hs]; exact hd.2.2⟩
  have := congrArg List.length hs
  simp only [List.length_map] at this
  omega

/-- Every margin box of every page of a rendered document has content and lies in its own corner area or margin
strip of *that page's* box (`margin_box_rects` transported to the output of `render`; the observed height is the
used height clamped at 0). -/
theorem render_margin_boxes (d : Doc) (outs : List PageOut) (h : render d = .ok outs) :
    ∀ o ∈ outs, ∀ m ∈ o.margin, ∃ (styles : List MStyle) (q : Placed), m.1 = clampHeight q ∧
      (findStyle styles q.kw).generated = true ∧
      ((∃ row, row ∈ Gen.cornerTable ∧ (q.x, q.y, q.marginWidth, q.marginHeight) = cornerArea o.box.geom row.kw) ∨
       ∃ row, row ∈ Gen.sideTable ∧ ∃ off, off ∈ Gen.offsets ∧
         if row.vertical = true then
           q.x = (strip o.box.geom row.pre).1 ∧ q.marginWidth = (strip o.box.geom row.pre).2.2.1 ∧
           q.y = (strip o.box.geom row.pre).2.1 + off * ((strip o.box.geom row.pre).2.2.2 - q.marginHeight)
         else
           q.y = (strip o.box.geom row.pre).2.1 ∧ q.marginHeight = (strip o.box.geom row.pre).2.2.2 ∧
           q.x = (strip o.box.geom row.pre).1 + off * ((strip o.box.geom row.pre).2.2.1 - q.marginWidth)) := by
  intro o ho m hm
  obtain ⟨_, _, styles, placed, hplaced, hmap⟩ := (render_sound d outs h).2 o ho
  have hm1 : m.1 ∈ o.margin.map (·.1) := List.mem_map_of_mem hm
  rw [hmap] at hm1
  obtain ⟨q, hq, hqm⟩ := List.mem_map.mp hm1
  obtain ⟨hg, hrect⟩ := margin_box_rects _ _ _ hplaced q hq
  exact ⟨styles, q, hqm.symm, hg, hrect⟩

/-- Non-vacuity: a two-section document with a forced `right` break after a right-hand first page renders to three
pages (right, blank left, right), each showing `counter(pages)` = 3. -/
example : (match render { ltr := true, rootBreak := .auto, fontSize := 16
                          sections := [{ brk := .auto, name := "", sets := [], innerSets := [], lateSets := [] },
                                       { brk := .right, name := "", sets := [], innerSets := [], lateSets := [] }]
                          rules := [] } with
    | .ok l => l.map (fun o => (o.head.blank, match counterValue o.counters "pages" with | .ok v => v | _ => (-1 : Int))) ==
        [(false, (3 : Int)), (true, 3), (false, 3)]
    | .error _ => false) = true := by decide +kernel


private theorem zip_map_aligned {α β γ δ : Type} (l : List α) (g : List β) (f : α × β → γ) (rest : List δ) :
    ∀ p ∈ l.zip (((l.zip g).map f).zip rest), ∃ b, p.2.1 = f (p.1, b) := by
  intro p hp
  obtain ⟨i, hi, rfl⟩ := List.mem_iff_getElem.mp hp
  simp only [List.getElem_zip, List.getElem_map]
  exact ⟨_, rfl⟩

/-- **"Margin boxes are generated only when they have content", for every rendered document**: each margin box of
each page of `render` has, in the cascade of the `@page` rules that select *that page* (its side, blankness, name,
index and page groups) for *that margin box*, a `content` other than `normal` / `none` — `margin_box_rects` /
`margin_boxes_generated_only` transported through `marginStyle`, the cascade (`add_page_declarations`) and the page
types of `render`. -/
theorem render_margin_boxes_have_content (d : Doc) (outs : List PageOut) (h : render d = .ok outs) :
    ∀ o ∈ outs, ∀ m ∈ o.margin, ∃ gs : List Group,
      o.groups = gs.map (fun g => (g.name, g.index)) ∧ HasContent d (pageTypeOf o.head gs) m.1.kw := by
  unfold render at h
  simp only [bind, Except.bind] at h
  split at h
  · cases h
  · rename_i groups _
    split at h
    · cases h
    · rename_i states _
      split at h
      · cases h
      · have hp := render_go_spec _ _ _ _ _ _ _ h
        intro o ho m hm
        obtain ⟨p, hpmem, hpo⟩ := Paired.exists_left hp o ho
        obtain ⟨hhead, _, _, _, hgroups, styles, placed, hcontent, hplaced, hmap, _⟩ := hpo
        obtain ⟨gs, hgs⟩ := zip_map_aligned (docPages d) groups (fun x => pageTypeOf x.1.fst x.snd) _ p hpmem
        have hm1 : m.1 ∈ o.margin.map (·.1) := List.mem_map_of_mem hm
        rw [hmap] at hm1
        obtain ⟨q, hq, hqm⟩ := List.mem_map.mp hm1
        have hgen := (margin_box_rects _ _ _ hplaced q hq).1
        have hkw : m.1.kw = q.kw := by rw [← hqm]; rfl
        refine ⟨gs, ?_, ?_⟩
        · rw [hgroups, hgs]; rfl
        · rw [hhead, ← hgs, hkw]
          unfold findStyle at hgen
          split at hgen
          · rename_i s hfind
            have hs := List.mem_of_find?_eq_some hfind
            have hk : s.kw = q.kw := by simpa using List.find?_some hfind
            rw [← hk]; exact hcontent s hs hgen
          · simp at hgen


private theorem findStyle_cons_eq (s : MStyle) (ss : List MStyle) (k : String) (h : (s.kw == k) = true) :
    findStyle (s :: ss) k = s := by
  unfold findStyle; simp [List.find?_cons, h]

private theorem findStyle_cons_ne (s : MStyle) (ss : List MStyle) (k : String) (h : (s.kw == k) = false) :
    findStyle (s :: ss) k = findStyle ss k := by
  unfold findStyle; simp [List.find?_cons, h]

private theorem findStyle_of_paired (P : String → Bool) :
    ∀ (l : List String) (styles : List MStyle),
      Paired (fun kw (s : MStyle) => s.kw = kw ∧ s.generated = P kw) l styles →
      ∀ k ∈ l, (findStyle styles k).generated = P k
  | [], [], _, k, hk => by simp at hk
  | k0 :: ks, s :: ss, h, k, hk => by
    by_cases hq : (s.kw == k) = true
    · rw [findStyle_cons_eq s ss k hq, h.1.2]
      have : k0 = k := by rw [← h.1.1]; simpa using hq
      rw [this]
    · have hq' : (s.kw == k) = false := by simpa using hq
      rw [findStyle_cons_ne s ss k hq']
      have hne : k ≠ k0 := by
        intro e; rw [e, ← h.1.1] at hq'; simp at hq'
      have hk' : k ∈ ks := by
        rcases List.mem_cons.mp hk with e | e
        · exact absurd e hne
        · exact e
      exact findStyle_of_paired P ks ss h.2 k hk'
  | [], _ :: _, h, _, _ => h.elim
  | _ :: _, [], h, _, _ => h.elim

/-- **The margin boxes of every page of a rendered document are exactly the margin boxes to which the cascade of the
`@page` rules selecting that page gives content — each once, in the order of `make_margin_boxes`**: nothing generated
twice, nothing with content missing, nothing without content present (`make_margin_boxes_exact` transported through
`marginStyle`, the cascade and the page types of `render`; the document oracle's clauses "generated twice", "has
content but was not generated", "generated although no rule gives it content", for all documents of the model). -/
theorem render_margin_boxes_exact (d : Doc) (outs : List PageOut) (h : render d = .ok outs) :
    ∀ o ∈ outs, ∃ gs : List Group, o.groups = gs.map (fun g => (g.name, g.index)) ∧
      o.margin.map (fun m => m.1.kw) = allKeywords.filter (hasContentB d (pageTypeOf o.head gs)) := by
  unfold render at h
  simp only [bind, Except.bind] at h
  split at h
  · cases h
  · rename_i groups _
    split at h
    · cases h
    · rename_i states _
      split at h
      · cases h
      · have hp := render_go_spec _ _ _ _ _ _ _ h
        intro o ho
        obtain ⟨p, hpmem, hpo⟩ := Paired.exists_left hp o ho
        obtain ⟨hhead, _, _, _, hgroups, styles, placed, _, hplaced, hmap, hpair⟩ := hpo
        obtain ⟨gs, hgs⟩ := zip_map_aligned (docPages d) groups (fun x => pageTypeOf x.1.fst x.snd) _ p hpmem
        refine ⟨gs, by rw [hgroups, hgs]; rfl, ?_⟩
        have hkws : o.margin.map (fun m => m.1.kw) = placed.map (·.kw) := by
          have := congrArg (List.map (fun q : Placed => q.kw)) hmap
          simpa [List.map_map, Function.comp_def, clampHeight] using this
        rw [hkws, make_margin_boxes_exact _ _ _ hplaced, hhead, ← hgs]
        apply List.filter_congr
        intro kw hkw
        exact findStyle_of_paired _ _ _ hpair kw hkw

/-- Non-vacuity: rules (listed in another order) giving content to a corner, to `@bottom-left` and, on the first page
only, to `@top-left`, and `content: none` to `@top-right`: the margin boxes of the single page are `@top-left`,
`@bottom-left`, `@top-right-corner`, in the order of the code. -/
example : (match render { ltr := true, rootBreak := .auto, fontSize := 16
                          sections := [{ brk := .auto, name := "", sets := [], innerSets := [], lateSets := [] }]
                          rules := [{ origin := .author, sel := {}, pseudo := "@top-right-corner"
                                      decls := [("content", .content (some [.text "x"]), false)] },
                                    { origin := .author, sel := {}, pseudo := "@bottom-left"
                                      decls := [("content", .content (some [.text "cd"]), false)] },
                                    { origin := .author, sel := { first := true, spec := (0, 1, 0) }, pseudo := "@top-left"
                                      decls := [("content", .content (some [.text "ab"]), false)] },
                                    { origin := .author, sel := {}, pseudo := "@top-right"
                                      decls := [("content", .content none, false)] }] } with
    | .ok [o] => o.margin.map (fun m => m.1.kw) == ["@top-left", "@bottom-left", "@top-right-corner"]
    | _ => false) = true := by decide +kernel

/-- Non-vacuity: one unconditional `@top-left { content: "ab" }` rule — the single page of the document has exactly
that margin box. -/
example : (match render { ltr := true, rootBreak := .auto, fontSize := 16
                          sections := [{ brk := .auto, name := "", sets := [], innerSets := [], lateSets := [] }]
                          rules := [{ origin := .author, sel := {}, pseudo := "@top-left"
                                      decls := [("content", .content (some [.text "ab"]), false)] }] } with
    | .ok [o] => o.margin.map (fun m => m.1.kw) == ["@top-left"]
    | _ => false) = true := by decide +kernel

/-- No `@page` rule of the document (page context or margin box) declares `name`. -/
def NotDeclared (rules : List (PageRule Val)) (name : String) : Prop :=
  ∀ r ∈ rules, ∀ decl ∈ r.decls, decl.1 ≠ name

private theorem get_set_ne {α : Type} (c : Cascaded α) (n m : String) (v : α) (w : Weight) (h : m ≠ n) :
    (c.set n v w).get m = c.get m := by
  induction c with
  | nil => simp [Cascaded.set, Cascaded.get, h.symm]
  | cons x xs ih =>
    obtain ⟨k, v', w'⟩ := x
    simp only [Cascaded.set]
    split
    · rename_i hk
      have hk' : k = n := by simpa using hk
      simp [Cascaded.get, hk', h.symm]
    · simp only [Cascaded.get]
      split
      · rfl
      · exact ih

private theorem applyDecl_get_ne {α : Type} (c : Cascaded α) (n m : String) (v : α) (w : Weight) (h : m ≠ n) :
    (applyDecl c n v w).get m = c.get m := by
  unfold applyDecl
  split
  · exact get_set_ne _ _ _ _ _ h
  · split
    · exact get_set_ne _ _ _ _ _ h
    · rfl

/-- A property that no rule declares is absent from every cascaded page / margin-box style. -/
theorem cascade_not_declared (rules : List (PageRule Val)) (p : PageType) (pseudo name : String)
    (h : NotDeclared rules name) : (addPageDeclarations rules p pseudo).get name = none := by
  unfold addPageDeclarations
  have inner : ∀ (r : PageRule Val) (decls : List (String × Val × Bool)) (c : Cascaded Val),
      (∀ decl ∈ decls, decl.1 ≠ name) → c.get name = none →
      (decls.foldl (fun c (x : String × Val × Bool) =>
        applyDecl c x.1 x.2.1 ⟨declarationPrecedence r.origin x.2.2, r.sel.spec⟩) c).get name = none := by
    intro r decls
    induction decls with
    | nil => intro c _ hc; exact hc
    | cons x xs ih =>
      intro c hd hc
      simp only [List.foldl_cons]
      apply ih
      · intro decl hdecl; exact hd decl (by simp [hdecl])
      · rw [applyDecl_get_ne _ _ _ _ _ (fun e => hd x (by simp) e.symm)]; exact hc
  have outer : ∀ (rs : List (PageRule Val)) (c : Cascaded Val), (∀ r ∈ rs, ∀ decl ∈ r.decls, decl.1 ≠ name) →
      c.get name = none →
      (rs.foldl (fun c r =>
        if r.pseudo == pseudo && pageTypeMatch r.sel p then
          r.decls.foldl (fun c (x : String × Val × Bool) =>
            applyDecl c x.1 x.2.1 ⟨declarationPrecedence r.origin x.2.2, r.sel.spec⟩) c
        else c) c).get name = none := by
    intro rs
    induction rs with
    | nil => intro c _ hc; exact hc
    | cons r rest ih =>
      intro c hr hc
      simp only [List.foldl_cons]
      apply ih
      · intro r' hr'; exact hr r' (by simp [hr'])
      · split
        · exact inner r r.decls c (hr r (by simp)) hc
        · exact hc
  exact outer rules [] h rfl


/-- No `@page` rule touches a counter (`counter-reset`, `counter-set`, `counter-increment`). -/
def NoPageCounterDecls (d : Doc) : Prop :=
  NotDeclared d.rules "counter-set" ∧ NotDeclared d.rules "counter-reset" ∧ NotDeclared d.rules "counter-increment"

private theorem raw_default (d : Doc) (pt : PageType) (h : NoPageCounterDecls d) :
    rawCStyle (addPageDeclarations d.rules pt "") = ⟨some [], some [], none⟩ := by
  simp [rawCStyle, getCounters, cascade_not_declared _ _ _ _ h.1, cascade_not_declared _ _ _ _ h.2.1,
    cascade_not_declared _ _ _ _ h.2.2]

/-- **`counter(page)` numbers the pages of a rendered document from 1** (blank pages included) when no `@page` rule
touches a counter — whatever the sections, breaks, names, selectors and other declarations: `page_counter_default`
transported through the cascade (`cascade_not_declared`) and `render`. -/
theorem render_page_counter (d : Doc) (outs : List PageOut) (h : render d = .ok outs) (hn : NoPageCounterDecls d) :
    ∀ i (hi : i < outs.length), counterValue outs[i].counters "page" = .ok ((i : Int) + 1) := by
  unfold render at h
  simp only [bind, Except.bind] at h
  split at h
  · cases h
  · rename_i groups hgroups
    split at h
    · cases h
    · rename_i states hstates
      split at h
      · cases h
      · have hp := render_go_spec _ _ _ _ _ _ _ h
        have hlenS := pageStates_length _ _ _ hstates
        -- every page has the default counter style
        have hrep : ∀ l : List PageType, List.map rawCStyle (List.map (fun pt => addPageDeclarations d.rules pt "") l) =
            List.replicate l.length ⟨some [], some [], none⟩ := by
          intro l
          induction l with
          | nil => rfl
          | cons x xs ih => simp [List.replicate_succ, raw_default d x hn, ih]
        rw [hrep] at hstates hlenS
        obtain ⟨l, hl, _, hval⟩ := page_counter_default
          (List.map (fun x => pageTypeOf x.1.fst x.snd) ((docPages d).zip groups)).length
        rw [hl] at hstates
        simp only [Except.ok.injEq] at hstates
        subst hstates
        intro i hi
        have hlen := Paired.length hp
        have hiZ : i < ((docPages d).zip
            ((List.map (fun x => pageTypeOf x.1.fst x.snd) ((docPages d).zip groups)).zip
              ((List.map (fun pt => addPageDeclarations d.rules pt "")
                (List.map (fun x => pageTypeOf x.1.fst x.snd) ((docPages d).zip groups))).zip l))).length := by
          rw [hlen]; exact hi
        have hR := Paired.get hp i hiZ hi
        obtain ⟨_, _, hcnt, _⟩ := hR
        rw [hcnt, (pages_counter _ _).2 "page" (by decide)]
        simp only [List.getElem_zip]
        have hil : i < l.length := by
          simp only [List.length_zip, List.length_map] at hiZ
          omega
        exact hval i hil

/-- Non-vacuity: page names, a forced `left` break and an `@page :first` margin rule touch no counter. -/
example : NoPageCounterDecls { ltr := true, rootBreak := .auto, fontSize := 16, sections := []
                               rules := [{ origin := .author, sel := { first := true, spec := (0, 1, 0) }, pseudo := ""
                                           decls := [("margin-top", .dim (.px 10), false)] }] } := by
  refine ⟨?_, ?_, ?_⟩ <;>
    (intro r hr decl hd
     simp only [List.mem_cons, List.not_mem_nil, or_false] at hr; subst hr
     simp only [List.mem_cons, List.not_mem_nil, or_false] at hd; subst hd
     decide)


end Wp.C14
