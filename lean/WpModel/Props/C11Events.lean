/-
C11, fourth file — `check (model x) = ok` for the whole event stream: the verified trace checker `checkEvents`
(the command `checkbfc` that the harness runs on rendered wide-grammar documents) accepts the events of *every*
document the flow model lays out — the margin boxes of all floats (block-level and met inside lines) **and** the
border boxes of all formatting-context roots, images and tables of positive height, in document order.  This lifts
the sampled clause "a BFC root / image / table never overlaps a float, floats never overlap each other and never go
up" from the rendered samples to all inputs of the model, and ties the function-level theorems (`no_overlap`,
`result_fits_or_is_free`, `float_place_invariants`) to the document level.
-/
import WpModel.Props.C11Inline

namespace Wp.C11
open Wp Wp.Floats

/-- What an observer sees of an event: float or box, and the rectangle (the edges a box has to stay between are
not observable geometry of the box itself). -/
def Event.view : Event → Bool × (Rat × Rat × Rat × Rat)
  | .float s => (true, Shape.rect s)
  | .box _ _ x y w h => (false, (x, y, w, h))

/-- What an observer sees of the model's output, in document order: the margin box of every float (block-level,
and met inside the lines of a paragraph) and the border box of every BFC root, image and table with a positive
height (a box without height has no interior to keep clear of floats). -/
def placedViews : List Placed → List (Bool × (Rat × Rat × Rat × Rat))
  | [] => []
  | .float x y mw mh :: rest => (true, (x, y, mw, mh)) :: placedViews rest
  | .para lines :: rest => ((lines.map (·.floats)).flatten.map (fun r => (true, r))) ++ placedViews rest
  | .bfc x y w h :: rest => (if 0 < h then [(false, (x, y, w, h))] else []) ++ placedViews rest
  | .replaced x y w h :: rest => (if 0 < h then [(false, (x, y, w, h))] else []) ++ placedViews rest
  | .block _ :: rest => placedViews rest

private theorem placedViews_cons (pl : Placed) (rest : List Placed) :
    placedViews (pl :: rest) = placedViews [pl] ++ placedViews rest := by
  cases pl <;> simp [placedViews]

private theorem pairwiseB_append_single'' {α} (r : α → α → Bool) (l : List α) (a : α) :
    pairwiseB r (l ++ [a]) = (pairwiseB r l && l.all (fun b => r b a)) := by
  induction l with
  | nil => simp [pairwiseB]
  | cons b l ih =>
    simp only [List.cons_append, pairwiseB, ih, List.all_append, List.all_cons, List.all_nil, Bool.and_true]
    cases l.all (r b) <;> cases r b a <;> cases pairwiseB r l <;> simp

/-- The checker walks through a run of floats that keeps the list well formed and continues behind it. -/
theorem checkEvents_floats_then (shapes : List Shape) (i : Nat) (l : List Shape) (evs : List Event)
    (h : floatsOk (shapes ++ l) = true) :
    checkEvents shapes i (l.map Event.float ++ evs) = checkEvents (shapes ++ l) (i + l.length) evs := by
  induction l generalizing shapes i with
  | nil => simp
  | cons s rest ih =>
    have h' : floatsOk ((shapes ++ [s]) ++ rest) = true := by simpa [List.append_assoc] using h
    have hs : floatsOk (shapes ++ [s]) = true := by
      unfold floatsOk at h' ⊢
      rw [pairwiseB_iff] at h' ⊢
      exact (List.pairwise_append.mp h').1
    unfold floatsOk at hs
    rw [pairwiseB_append_single''] at hs
    simp only [Bool.and_eq_true] at hs
    simp only [List.map_cons, List.cons_append, checkEvents, hs.2, if_true]
    rw [ih (shapes ++ [s]) (i + 1) h']
    simp only [List.append_assoc, List.cons_append, List.nil_append, List.length_cons]
    congr 1; omega

/-- The checker passes a box that overlaps no float. -/
theorem checkEvents_box_then (shapes : List Shape) (i : Nat) (l0 r0 x y w h : Rat) (evs : List Event)
    (hno : ∀ s ∈ shapes, ¬ Overlaps x y w h s) :
    checkEvents shapes i (.box l0 r0 x y w h :: evs) = checkEvents shapes (i + 1) evs := by
  have hb : boxOk shapes l0 r0 x y w h = true := by
    simp only [boxOk, Bool.or_eq_true, List.all_eq_true, Bool.not_eq_true']
    right
    intro s hs
    cases hb : overlapsB x y w h s with
    | false => rfl
    | true => exact absurd ((overlapsB_iff _ _ _ _ _).mp hb) (hno s hs)
  simp only [checkEvents, hb, if_true]

/-- The event of a placed BFC root, image or table (none without height; none for the other items). -/
def boxEvents (l0 r0 : Rat) : Placed → List Event
  | .bfc x y w h => if 0 < h then [.box l0 r0 x y w h] else []
  | .replaced x y w h => if 0 < h then [.box l0 r0 x y w h] else []
  | _ => []

/-- The items of the event theorem: every float has a margin box with area, and a block-level box placed by
`avoid_collisions` is an image or a table (the two classes `Item.replaced` stands for), not a line box. -/
def ItemOkEv (cb : CB) : Item → Prop
  | .replaced kind _ _ _ _ _ => kind ≠ .line
  | it => ItemOkAll cb it

/-- One child of the container: its events are accepted against the floats so far, and the checker continues with
exactly the float list the model continues with. -/
theorem flowStep_events (cb : CB) (st st' : FlowState) (it : Item) (pl : Placed)
    (hit : ItemOkEv cb it) (hinv : FloatsInv st.shapes) (h : flowStep cb st it = .ok (st', pl)) :
    FloatsInv st'.shapes ∧ ∃ evs1 : List Event, evs1.map Event.view = placedViews [pl] ∧
      ∀ i evs2, checkEvents st.shapes i (evs1 ++ evs2) = checkEvents st'.shapes (i + evs1.length) evs2 := by
  -- a run of floats appended to the list
  have floats : ∀ (added : List Shape), st'.shapes = st.shapes ++ added → FloatsInv st'.shapes →
      ∀ i evs2, checkEvents st.shapes i (added.map Event.float ++ evs2) =
        checkEvents st'.shapes (i + (added.map Event.float).length) evs2 := by
    intro added he hi i evs2
    have hok : floatsOk (st.shapes ++ added) = true := by
      rw [← he]; exact (floatsOk_iff _).mpr ⟨hi.2.2, hi.2.1⟩
    rw [checkEvents_floats_then st.shapes i added evs2 hok, ← he, List.length_map]
  have hfloat : ∀ b, GoodFloat b → flowFloat cb st b = .ok (st', pl) →
      FloatsInv st'.shapes ∧ ∃ evs1 : List Event, evs1.map Event.view = placedViews [pl] ∧
        ∀ i evs2, checkEvents st.shapes i (evs1 ++ evs2) = checkEvents st'.shapes (i + evs1.length) evs2 := by
    intro b hb hfl
    unfold flowFloat at hfl
    split at hfl
    · simp at hfl
    · rename_i b' sh1 hpl
      simp only [Except.ok.injEq, Prod.mk.injEq] at hfl
      obtain ⟨j1, s, j2, j3⟩ := floatPlace_inv st.shapes _ cb b' sh1 (GoodFloat_move b cb.cx _ hb) hinv hpl
      have hs' : st'.shapes = st.shapes ++ [s] := by rw [← hfl.1]; exact j2
      have hi' : FloatsInv st'.shapes := by rw [← hfl.1]; exact j1
      refine ⟨hi', [s].map Event.float, ?_, floats [s] hs' hi'⟩
      rw [← hfl.2]; simp [Event.view, placedViews, j3]
  cases it with
  | float b => exact hfloat b hit (by simpa [flowStep] using h)
  | floatSpec f => exact hfloat _ hit (by simpa [flowStep] using h)
  | para c fs align lines mt mb =>
    simp only [flowStep] at h
    split at h
    · simp at h
    · rename_i shapes' placed y' hl
      simp only [Except.ok.injEq, Prod.mk.injEq] at h
      obtain ⟨i1, added, i2, i3⟩ := layoutLines_inv cb fs align st.shapes lines hit _ _ _ _ hinv hl
      have hs' : st'.shapes = st.shapes ++ added := by rw [← h.1]; exact i2
      have hi' : FloatsInv st'.shapes := by rw [← h.1]; exact i1
      refine ⟨hi', added.map Event.float, ?_, floats added hs' hi'⟩
      rw [← h.2]
      simp only [placedViews, List.append_nil, i3, List.map_map]
      apply List.map_congr_left
      intro s _; rfl
  | bfc c width h0 ml mr mt mb =>
    simp only [flowStep] at h
    split at h
    · simp at h
    · rename_i p hp
      simp only [Except.ok.injEq, Prod.mk.injEq] at h
      have hsh : st'.shapes = st.shapes := by rw [← h.1]; split <;> rfl
      refine ⟨by rw [hsh]; exact hinv, boxEvents (cb.cx + ml) (cb.cx + cb.w - mr) pl, ?_, ?_⟩
      · rw [← h.2]; simp only [boxEvents, placedViews, List.append_nil]; split <;> simp [Event.view]
      · intro i evs2
        rw [hsh, ← h.2]
        simp only [boxEvents]
        by_cases hh : 0 < h0
        · have hno := avoided_box_no_overlap st.shapes _ cb p hp (by simpa using hh) hinv.1 (by simp)
          simp only [hh, if_true, List.cons_append, List.nil_append, List.length_singleton]
          exact checkEvents_box_then st.shapes i _ _ _ _ _ _ evs2 hno
        · simp [hh]
  | block c h0 mt mb =>
    simp only [flowStep, Except.ok.injEq, Prod.mk.injEq] at h
    have hsh : st'.shapes = st.shapes := by rw [← h.1]; split <;> rfl
    refine ⟨by rw [hsh]; exact hinv, [], ?_, by intro i evs2; rw [hsh]; simp⟩
    rw [← h.2]; simp [placedViews]
  | replaced kind c w h0 ml mr =>
    simp only [flowStep] at h
    split at h
    · simp at h
    · rename_i p hp
      simp only [Except.ok.injEq, Prod.mk.injEq] at h
      have hsh : st'.shapes = st.shapes := by rw [← h.1]
      have hk : kind ≠ .line := by simpa [ItemOkEv] using hit
      refine ⟨by rw [hsh]; exact hinv, boxEvents (cb.cx + ml) (cb.cx + cb.w - mr) pl, ?_, ?_⟩
      · rw [← h.2]; simp only [boxEvents, placedViews, List.append_nil]; split <;> simp [Event.view]
      · intro i evs2
        rw [hsh, ← h.2]
        simp only [boxEvents]
        by_cases hh : 0 < h0
        · have hno := avoided_box_no_overlap st.shapes _ cb p hp (by simpa using hh) hinv.1 (by simpa using hk)
          simp only [Rat.add_zero] at hno
          simp only [hh, if_true, List.cons_append, List.nil_append, List.length_singleton]
          exact checkEvents_box_then st.shapes i _ _ _ _ _ _ evs2 hno
        · simp [hh]

/-- **`check (model x) = ok`, floats and boxes**: for every document the flow model lays out there is an event list
that an observer cannot tell from the model's output (same floats and boxes, same rectangles, same order) and that
the verified checker accepts from the floats already in the context. -/
theorem flow_events_from (cb : CB) (items : List Item) (st : FlowState) (out : List Placed)
    (hit : ∀ it ∈ items, ItemOkEv cb it) (hinv : FloatsInv st.shapes)
    (h : flowFrom cb st items = .ok out) (i : Nat) :
    ∃ evs : List Event, evs.map Event.view = placedViews out ∧ checkEvents st.shapes i evs = none := by
  induction items generalizing st out i with
  | nil =>
    simp [flowFrom] at h
    exact ⟨[], by rw [h]; simp [placedViews], by simp [checkEvents]⟩
  | cons it rest ih =>
    simp only [flowFrom] at h
    split at h
    · simp at h
    · rename_i st' pl hstep
      split at h
      · simp at h
      · rename_i out' hrest
        simp only [Except.ok.injEq] at h
        obtain ⟨i1, evs1, v1, c1⟩ := flowStep_events cb st st' it pl (hit it (by simp)) hinv hstep
        obtain ⟨evs2, v2, c2⟩ := ih st' out' (fun it' h' => hit it' (by simp [h'])) i1 hrest (i + evs1.length)
        refine ⟨evs1 ++ evs2, ?_, ?_⟩
        · rw [← h, placedViews_cons, List.map_append, v1, v2]
        · rw [c1 i evs2]; exact c2

/-- **Every document**: from an empty context, the events of the model's output — all floats, all BFC roots, images
and tables with height — pass `checkEvents`: floats pairwise disjoint with tops in order, no box over a float. -/
theorem flow_events_all_accepted (cb : CB) (items : List Item) (y : Rat) (out : List Placed)
    (hit : ∀ it ∈ items, ItemOkEv cb it) (h : flow cb [] y items = .ok out) :
    ∃ evs : List Event, evs.map Event.view = placedViews out ∧ checkEvents [] 0 evs = none :=
  flow_events_from cb items ⟨[], y, []⟩ out hit
    ⟨by intro s hs; simp at hs, by simp [SortedTops], by simp [PairwiseDisjoint]⟩ h 0

/-- Non-vacuity: a float, a BFC root too wide to fit beside it (moved below), a paragraph with an inline float, an
image that fits beside the floats, a table: the hypotheses hold and the observable output is as expected. -/
example :
    let items : List Item := [
      .float ⟨0, 0, 0, 0, 0, 0, 60, 50, .left, .none, .bfc⟩,
      .bfc .none (some 70) 20 0 0 0 0,
      .para .none 10 .start [⟨20, 20, 10, [⟨0, 0, 0, 0, 0, 0, 20, 10, .right, .none, .bfc⟩]⟩] 0 0,
      .replaced .replaced .none 30 15 0 0,
      .replaced .tableWrapper .none 90 10 0 0]
    (∀ it ∈ items, ItemOkEv ⟨0, 100, false⟩ it) ∧
    ((flow ⟨0, 100, false⟩ [] 0 items).toOption.map placedViews) =
      some [(true, (0, 0, 60, 50)), (false, (0, 50, 70, 20)), (true, (80, 70, 20, 10)), (false, (0, 80, 30, 15)),
        (false, (0, 95, 90, 10))] := by
  refine ⟨?_, by decide +kernel⟩
  intro it hit
  simp at hit
  rcases hit with h | h | h | h | h <;> subst h <;>
    simp [ItemOkEv, ItemOkAll, GoodFloat, ABox.marginHeight, ABox.marginWidth] <;> decide +kernel

end Wp.C11
