/-
C11, second file — theorems about the document-level float model (`Model/FloatFlow.lean`), the verified
float checker (`Model/FloatCheck.lean`) and the positioned-box plumbing (`Model/Positioned.lean`).
-/
import WpModel.Props.C11
import WpModel.Model.FloatCheck
import WpModel.Model.Positioned
import WpModel.Model.FixedPages
import WpModel.Model.FloatFlow
import WpModel.Model.FloatTrace

namespace Wp.C11
open Wp Wp.Floats

/-! ## The verified checker -/

theorem overlapsB_iff (x y w h : Rat) (s : Shape) : overlapsB x y w h s = true ↔ Overlaps x y w h s := by
  simp [overlapsB, Overlaps, and_assoc]

theorem pairwiseB_iff {α} (r : α → α → Bool) (l : List α) :
    pairwiseB r l = true ↔ l.Pairwise (fun a b => r a b = true) := by
  induction l with
  | nil => simp [pairwiseB]
  | cons a l ih => simp [pairwiseB, List.pairwise_cons, ih]

/-- **The checker is sound and complete**: it accepts a list of float margin boxes exactly when no two of
them overlap and their tops are in document order. -/
theorem floatsOk_iff (shapes : List Shape) :
    floatsOk shapes = true ↔ PairwiseDisjoint shapes ∧ SortedTops shapes := by
  unfold floatsOk PairwiseDisjoint SortedTops
  rw [pairwiseB_iff]
  simp only [respects, Bool.and_eq_true, Bool.not_eq_true', decide_eq_true_eq]
  rw [← List.pairwise_and_iff]
  apply List.Pairwise.iff
  intro a b
  constructor
  · intro ⟨h1, h2⟩
    refine ⟨?_, h2⟩
    intro ho
    have := (overlapsB_iff b.x b.y b.mw b.mh a).mpr ho
    rw [h1] at this; cases this
  · intro ⟨h1, h2⟩
    refine ⟨?_, h2⟩
    cases hb : overlapsB b.x b.y b.mw b.mh a with
    | false => rfl
    | true => exact absurd ((overlapsB_iff _ _ _ _ _).mp hb) h1

example : floatsOk [⟨0, 0, 60, 50, .left⟩, ⟨70, 0, 30, 20, .right⟩, ⟨60, 20, 35, 10, .left⟩] = true ∧
    floatsOk [⟨0, 0, 60, 50, .left⟩, ⟨50, 10, 30, 20, .right⟩] = false := by decide +kernel

/-- **The checker accepts everything the float model produces**: whatever sequence of floats (with area)
is placed, the resulting list passes `floatsOk`. -/
theorem placeAll_accepted (cb : CB) (bs : List ABox) (shapes' : List Shape)
    (hb : ∀ b ∈ bs, GoodFloat b) (h : placeAll cb [] bs = .ok shapes') : floatsOk shapes' = true := by
  obtain ⟨_, h2, h3⟩ := all_floats_disjoint_and_ordered cb bs [] shapes' hb
    (by intro s hs; simp at hs) (by simp [SortedTops]) (by simp [PairwiseDisjoint]) h
  exact (floatsOk_iff shapes').mpr ⟨h3, h2⟩

/-- Soundness of `boxOk`: an accepted box that is not wider than the room between the edges it has to respect
overlaps no float. -/
theorem boxOk_sound (shapes : List Shape) (l0 r0 x y w h : Rat) (hok : boxOk shapes l0 r0 x y w h = true)
    (hfit : w ≤ r0 - l0) : ∀ s ∈ shapes, ¬ Overlaps x y w h s := by
  simp only [boxOk, Bool.or_eq_true, decide_eq_true_eq, List.all_eq_true, Bool.not_eq_true'] at hok
  rcases hok with h1 | h1
  · grind
  · intro s hs ho
    have := (overlapsB_iff x y w h s).mpr ho
    rw [h1 s hs] at this; cases this

end Wp.C11

namespace Wp.C11
open Wp Wp.Floats

/-! ## The trace checker run on rendered documents -/

private theorem pairwiseB_append_single {α} (r : α → α → Bool) (l : List α) (a : α) :
    pairwiseB r (l ++ [a]) = (pairwiseB r l && l.all (fun b => r b a)) := by
  induction l with
  | nil => simp [pairwiseB]
  | cons b l ih =>
    simp only [List.cons_append, pairwiseB, ih, List.all_append, List.all_cons, List.all_nil, Bool.and_true]
    cases l.all (r b) <;> cases r b a <;> cases pairwiseB r l <;> simp

/-- **Soundness of the trace checker**: if `checkEvents` accepts the events extracted from a formatting context
(starting from floats that are already pairwise fine), then all the floats — the initial ones followed by those
among the events — are pairwise disjoint with tops in document order. -/
theorem checkEvents_floats_sound (shapes : List Shape) (i : Nat) (evs : List Event)
    (h0 : floatsOk shapes = true) (h : checkEvents shapes i evs = none) :
    floatsOk (shapes ++ eventFloats evs) = true := by
  induction evs generalizing shapes i with
  | nil => simpa [eventFloats] using h0
  | cons e rest ih =>
    cases e with
    | float s =>
      simp only [checkEvents] at h
      split at h
      · rename_i hall
        have h1 : floatsOk (shapes ++ [s]) = true := by
          unfold floatsOk at h0 ⊢
          rw [pairwiseB_append_single, h0, hall]; rfl
        have := ih (shapes ++ [s]) (i + 1) h1 h
        simpa [eventFloats, List.append_assoc] using this
      · simp at h
    | box l0 r0 x y w hh =>
      simp only [checkEvents] at h
      split at h
      · simpa [eventFloats] using ih shapes (i + 1) h0 h
      · simp at h

/-- … and every box among the events passed `boxOk` against the floats that precede it (so, by `boxOk_sound`,
overlaps none of them when it is not wider than the room they leave). -/
theorem checkEvents_boxes_sound (shapes : List Shape) (i : Nat) (evs : List Event)
    (h : checkEvents shapes i evs = none) (pre : List Event) (l0 r0 x y w hh : Rat) (post : List Event)
    (hsplit : evs = pre ++ .box l0 r0 x y w hh :: post) :
    boxOk (shapes ++ eventFloats pre) l0 r0 x y w hh = true := by
  induction pre generalizing shapes i evs with
  | nil =>
    subst hsplit
    simp only [List.nil_append, checkEvents] at h
    split at h
    · rename_i hb; simpa [eventFloats] using hb
    · simp at h
  | cons e pre' ih =>
    subst hsplit
    cases e with
    | float s =>
      simp only [List.cons_append, checkEvents] at h
      split at h
      · have := ih (shapes ++ [s]) (i + 1) _ h rfl
        simpa [eventFloats, List.append_assoc] using this
      · simp at h
    | box a b c d e f =>
      simp only [List.cons_append, checkEvents] at h
      split at h
      · simpa [eventFloats] using ih shapes (i + 1) _ h rfl
      · simp at h

example : checkEvents [] 0 [.float ⟨0, 0, 60, 50, .left⟩, .box 0 100 60 0 40 10, .float ⟨70, 0, 30, 20, .right⟩,
    .box 0 100 55 5 8 10] = some 3 := by decide +kernel


/-! ## The document-level flow: every float arrangement the model can produce is well formed -/

/-- The invariant of `context.excluded_shapes`. -/
def FloatsInv (shapes : List Shape) : Prop := Proper shapes ∧ SortedTops shapes ∧ PairwiseDisjoint shapes

theorem GoodFloat_move (b : ABox) (x y : Rat) (h : GoodFloat b) : GoodFloat { b with px := x, py := y } := by
  obtain ⟨h1, h3, h4⟩ := h
  exact ⟨h1, by simpa [ABox.marginHeight] using h3, by simpa [ABox.marginWidth] using h4⟩

/-- With no float inside the line, `get_next_linebox` leaves `excluded_shapes` alone. -/
private theorem lineLoop_shapes (cb : CB) (strut : Rat) (align : Align) (l : LineSpec) (shapes0 : List Shape)
    (hl : l.floats = []) (fuel : Nat) (px py avail lbw cand : Rat) (t : LineTry)
    (h : lineLoop cb strut align l shapes0 fuel px py avail lbw cand = .ok t) :
    t.shapes = shapes0 ∧ t.marks = [] := by
  induction fuel generalizing px py avail lbw cand with
  | zero => simp [lineLoop] at h
  | succ n ih =>
    simp only [lineLoop, hl, inlinePass1] at h
    split at h
    · simp at h
    · split at h
      · simp at h; rw [← h]; exact ⟨rfl, rfl⟩
      · split at h
        · simp at h
        · cases hr : cb.rtl <;>
            simp only [hr, Bool.not_false, Bool.not_true, if_true, Bool.false_eq_true, if_false] at h <;>
            split at h <;>
            first
              | exact ih _ _ _ _ _ h
              | (simp only [Except.ok.injEq] at h; rw [← h]; exact ⟨rfl, rfl⟩)

private theorem layoutLines_shapes (cb : CB) (fs : Rat) (align : Align) (shapes : List Shape)
    (ls : List LineSpec) (hls : ∀ l ∈ ls, l.floats = []) (y : Rat)
    (shapes' : List Shape) (out : List PlacedLine) (y' : Rat)
    (h : layoutLines cb fs align shapes ls y = .ok (shapes', out, y')) : shapes' = shapes := by
  induction ls generalizing y out y' shapes' with
  | nil => simp [layoutLines] at h; exact h.1.symm
  | cons l rest ih =>
    simp only [layoutLines] at h
    split at h
    · simp at h
    · rename_i t ht
      have hl := hls l (by simp)
      have hts : t.shapes = shapes ∧ t.marks = [] := by
        unfold nextLinebox at ht
        simp only at ht
        split at ht
        · simp at ht
        · exact lineLoop_shapes cb fs align l shapes hl _ _ _ _ _ _ t ht
      simp only [hts.1, hts.2, inlinePass2] at h
      split at h
      · simp at h
      · rename_i s3 r y3 hrec
        simp only [Except.ok.injEq, Prod.mk.injEq] at h
        have := ih (fun l hl => hls l (by simp [hl])) _ _ _ _ hrec
        rw [← h.1]; exact this


/-- The items the theorem is about: floats with area (given resolved or by their computed style), any
in-flow block, BFC root, image or table, and paragraphs whose lines hold no float (paragraphs with floats met
inside their lines: `flow_inline_floats_*` below). -/
def ItemOk (cb : CB) : Item → Prop
  | .float b => GoodFloat b
  | .floatSpec f => GoodFloat (floatResolve f cb.w)
  | .para _ _ _ lines _ _ => ∀ l ∈ lines, l.floats = []
  | _ => True

/-- The margin boxes of the block-level floats among the placed items, in document order. -/
def floatRects : List Placed → List (Rat × Rat × Rat × Rat)
  | [] => []
  | .float x y mw mh :: rest => (x, y, mw, mh) :: floatRects rest
  | _ :: rest => floatRects rest

def Shape.rect (s : Shape) : Rat × Rat × Rat × Rat := (s.x, s.y, s.mw, s.mh)

private theorem flowFloat_inv (cb : CB) (st st' : FlowState) (b : ABox) (pl : Placed)
    (hb : GoodFloat b) (hinv : FloatsInv st.shapes) (h : flowFloat cb st b = .ok (st', pl)) :
    FloatsInv st'.shapes ∧ ∃ x y mw mh, pl = .float x y mw mh ∧
      st'.shapes.map Shape.rect = st.shapes.map Shape.rect ++ [(x, y, mw, mh)] := by
  unfold flowFloat at h
  split at h
  · simp at h
  · rename_i b' shapes' hpl
    simp only [Except.ok.injEq, Prod.mk.injEq] at h
    obtain ⟨g1, g3, g4⟩ := GoodFloat_move b cb.cx (st.y + collapseMargin st.adj) hb
    obtain ⟨i1, i2, i3, _, _⟩ := float_place_invariants st.shapes _ cb b' shapes' g1 g3 g4
      hinv.1 hinv.2.1 hinv.2.2 hpl
    obtain ⟨x, y, _, hb', hsh⟩ := floatPlace_ok st.shapes _ cb b' shapes' hpl
    obtain ⟨f1, _, f3, f4, _⟩ := afterClearance_fields st.shapes
      { b with px := cb.cx, py := st.y + collapseMargin st.adj }
    rw [← h.1]
    refine ⟨⟨i1, i2, i3⟩, b'.px, b'.py, b'.marginWidth, b'.marginHeight, h.2.symm, ?_⟩
    simp only
    rw [hsh, hb']
    simp [Shape.rect, ABox.marginWidth, ABox.marginHeight] at f3 f4 ⊢
    constructor <;> grind

/-- One child of the container keeps `excluded_shapes` well formed, and adds to it exactly the margin box it
reports for a block-level float (nothing for any other item). -/
theorem flowStep_inv (cb : CB) (st st' : FlowState) (it : Item) (pl : Placed)
    (hit : ItemOk cb it) (hinv : FloatsInv st.shapes) (h : flowStep cb st it = .ok (st', pl)) :
    FloatsInv st'.shapes ∧
    st'.shapes.map Shape.rect = st.shapes.map Shape.rect ++ floatRects [pl] := by
  cases it with
  | float b =>
    obtain ⟨i, x, y, mw, mh, hp, hs⟩ := flowFloat_inv cb st st' b pl hit hinv (by simpa [flowStep] using h)
    exact ⟨i, by rw [hs, hp]; simp [floatRects]⟩
  | floatSpec f =>
    obtain ⟨i, x, y, mw, mh, hp, hs⟩ := flowFloat_inv cb st st' _ pl hit hinv (by simpa [flowStep] using h)
    exact ⟨i, by rw [hs, hp]; simp [floatRects]⟩
  | para c fs align lines mt mb =>
    simp only [flowStep] at h
    split at h
    · simp at h
    · rename_i shapes' placed y' hl
      simp only [Except.ok.injEq, Prod.mk.injEq] at h
      have := layoutLines_shapes cb fs align st.shapes lines hit _ _ _ _ hl
      rw [← h.1, ← h.2]
      simp [floatRects, this, hinv]
  | bfc c width h0 ml mr mt mb =>
    simp only [flowStep] at h
    split at h
    · simp at h
    · simp only [Except.ok.injEq, Prod.mk.injEq] at h
      rw [← h.1, ← h.2]
      split <;> simp [floatRects, hinv]
  | block c h0 mt mb =>
    simp only [flowStep, Except.ok.injEq, Prod.mk.injEq] at h
    rw [← h.1, ← h.2]
    split <;> simp [floatRects, hinv]
  | replaced kind c w h0 ml mr =>
    simp only [flowStep] at h
    split at h
    · simp at h
    · simp only [Except.ok.injEq, Prod.mk.injEq] at h
      rw [← h.1, ← h.2]
      simp [floatRects, hinv]

private theorem floatRects_cons (pl : Placed) (rest : List Placed) :
    floatRects (pl :: rest) = floatRects [pl] ++ floatRects rest := by
  cases pl <;> simp [floatRects]

/-- **Every document the flow model lays out**: whatever mixture of block-level floats (any side, size,
margins, `clear`, percentages, auto widths), paragraphs, BFC roots, images, tables and plain blocks with
collapsing margins, the floats end up pairwise disjoint with their tops in document order — the reported
margin boxes of the floats are exactly a well-formed `excluded_shapes` list. -/
theorem flow_floats_disjoint_and_ordered (cb : CB) (items : List Item) (st : FlowState) (out : List Placed)
    (hit : ∀ it ∈ items, ItemOk cb it) (hinv : FloatsInv st.shapes)
    (h : flowFrom cb st items = .ok out) :
    ∃ shapes', FloatsInv shapes' ∧ floatsOk shapes' = true ∧
      shapes'.map Shape.rect = st.shapes.map Shape.rect ++ floatRects out := by
  induction items generalizing st out with
  | nil =>
    simp [flowFrom] at h
    exact ⟨st.shapes, hinv, (floatsOk_iff _).mpr ⟨hinv.2.2, hinv.2.1⟩, by rw [h]; simp [floatRects]⟩
  | cons it rest ih =>
    simp only [flowFrom] at h
    split at h
    · simp at h
    · rename_i st' pl hstep
      split at h
      · simp at h
      · rename_i out' hrest
        simp only [Except.ok.injEq] at h
        obtain ⟨i1, i2⟩ := flowStep_inv cb st st' it pl (hit it (by simp)) hinv hstep
        obtain ⟨sh, j1, j2, j3⟩ := ih st' out' (fun it' h' => hit it' (by simp [h'])) i1 hrest
        refine ⟨sh, j1, j2, ?_⟩
        rw [j3, i2, ← h, floatRects_cons pl out', List.append_assoc]

/-- From an empty context: the float rectangles of the output are themselves a well-formed float list, accepted
by the checker that the harness runs on rendered documents. -/
theorem flow_accepted (cb : CB) (items : List Item) (y : Rat) (out : List Placed)
    (hit : ∀ it ∈ items, ItemOk cb it) (h : flow cb [] y items = .ok out) :
    ∃ shapes', floatsOk shapes' = true ∧ shapes'.map Shape.rect = floatRects out := by
  obtain ⟨sh, _, h2, h3⟩ := flow_floats_disjoint_and_ordered cb items ⟨[], y, []⟩ out hit
    ⟨by intro s hs; simp at hs, by simp [SortedTops], by simp [PairwiseDisjoint]⟩ h
  exact ⟨sh, h2, by simpa using h3⟩

end Wp.C11

namespace Wp.C11
open Wp Wp.Floats

/-! ## In-flow boxes of the flow and floats -/

/-- **A BFC root placed by the flow overlaps no float when it fits**: the border box reported for a `bfc` item of
positive height that is not wider than the room `avoid_collisions` found overlaps no float of the context and
lies inside the containing block shrunk by its margins. -/
theorem flow_bfc_no_overlap (cb : CB) (st st' : FlowState) (c : Clear) (width : Len) (h0 ml mr mt mb : Rat)
    (x y w h : Rat) (hh : 0 < h0) (hp : Proper st.shapes)
    (hstep : flowStep cb st (.bfc c width h0 ml mr mt mb) = .ok (st', .bfc x y w h))
    (hroom : ∀ p, avoidCollisions st.shapes
      ⟨cb.cx, (clearedTop st.shapes c st.y (collapseMargin (st.adj ++ [mt]))).1 - mt, mt, mb, ml, mr, w, h0,
        .none, c, .bfc⟩ cb false = .ok p → w ≤ p.avail) :
    (∀ s ∈ st.shapes, ¬ Overlaps x y w h s) ∧ cb.cx + ml ≤ x ∧ x + w ≤ cb.cx + cb.w - mr ∧
    (clearedTop st.shapes c st.y (collapseMargin (st.adj ++ [mt]))).1 ≤ y := by
  simp only [flowStep] at hstep
  split at hstep
  · simp at hstep
  · rename_i p hp'
    simp only [Except.ok.injEq, Prod.mk.injEq, Placed.bfc.injEq] at hstep
    obtain ⟨_, hx, hy, hw, hh'⟩ := hstep
    subst hw
    have hfit := hroom p hp'
    have := placed_box_no_overlap st.shapes _ cb false p hp' (by simpa using hh) hp
      (by simpa using hfit)
    simp at this
    rw [← hx, ← hy, ← hh']
    obtain ⟨t1, t2, t3, t4⟩ := this
    refine ⟨t1, t2, t3, ?_⟩
    grind

/-! ## Floats met inside a line -/

/-- A float is not laid out above the position it is given (`float_layout`: clearance only moves it down,
`find_float_position` never up). -/
theorem floatPlace_not_above (shapes : List Shape) (b : ABox) (cb : CB) (b' : ABox) (shapes' : List Shape)
    (hf : b.float ≠ .none) (h : floatPlace shapes b cb = .ok (b', shapes')) :
    b.py ≤ b'.py := by
  obtain ⟨x, y, hpos, hb', _⟩ := floatPlace_ok shapes b cb b' shapes' h
  obtain ⟨f1, _, _, _, _⟩ := afterClearance_fields shapes b
  have h1 : b.py ≤ (afterClearance shapes b).py := by
    unfold afterClearance
    split
    · rename_i c hc
      have := (clearance_least shapes b.clear b.py 0 c hc).1
      simp; grind
    · exact Rat.le_refl
  obtain ⟨r1, _⟩ := float_rules shapes _ cb x y (by rw [f1]; exact hf) hpos
  rw [hb']; simp; grind

/-- **A float met in a line is never placed above that line** (second pass: the deferred floats are laid out
from the line's bottom; the floats kept on the line have been given the line's top). -/
theorem inline_floats_not_above_line (cb : CB) (lineTop lineBottom : Rat) (hle : lineTop ≤ lineBottom)
    (marks : List (ABox × Option (Rat × Rat × Rat × Rat))) (shapes shapes' : List Shape)
    (rects : List (Rat × Rat × Rat × Rat))
    (hgood : ∀ m ∈ marks, m.1.float ≠ .none)
    (hplaced : ∀ m ∈ marks, ∀ r, m.2 = some r → lineTop ≤ r.2.1)
    (h : inlinePass2 cb lineBottom shapes marks = .ok (shapes', rects)) :
    ∀ r ∈ rects, lineTop ≤ r.2.1 := by
  induction marks generalizing shapes shapes' rects with
  | nil => simp [inlinePass2] at h; rw [h.2]; simp
  | cons m rest ih =>
    obtain ⟨b, o⟩ := m
    cases o with
    | some r0 =>
      simp only [inlinePass2] at h
      split at h
      · simp at h
      · rename_i sh out hrec
        simp only [Except.ok.injEq, Prod.mk.injEq] at h
        have := ih shapes sh out (fun m hm => hgood m (by simp [hm])) (fun m hm => hplaced m (by simp [hm])) hrec
        rw [← h.2]
        intro r hr
        rcases List.mem_cons.mp hr with hr | hr
        · rw [hr]; exact hplaced (b, some r0) (by simp) r0 rfl
        · exact this r hr
    | none =>
      simp only [inlinePass2] at h
      split at h
      · simp at h
      · rename_i b' sh1 hpl
        split at h
        · simp at h
        · rename_i sh out hrec
          simp only [Except.ok.injEq, Prod.mk.injEq] at h
          have hg := hgood (b, none) (by simp)
          have hy := floatPlace_not_above shapes { b with px := cb.cx, py := lineBottom } cb b' sh1 hg hpl
          have := ih sh1 sh out (fun m hm => hgood m (by simp [hm])) (fun m hm => hplaced m (by simp [hm])) hrec
          rw [← h.2]
          intro r hr
          rcases List.mem_cons.mp hr with hr | hr
          · rw [hr]; simp at hy ⊢; grind
          · exact this r hr

/-- … and the floats laid out on the line itself (first pass) are not above the line's top either. -/
theorem inline_placed_not_above_line (cb : CB) (lineY : Rat) (shapes shapes' : List Shape) (rem : Rat)
    (w : Bool) (bs : List ABox) (marks : List (ABox × Option (Rat × Rat × Rat × Rat)))
    (hgood : ∀ b ∈ bs, b.float ≠ .none)
    (h : inlinePass1 cb lineY shapes rem w bs = .ok (shapes', marks)) :
    (∀ m ∈ marks, m.1.float ≠ .none) ∧ ∀ m ∈ marks, ∀ r, m.2 = some r → lineY ≤ r.2.1 := by
  induction bs generalizing shapes shapes' rem w marks with
  | nil => simp [inlinePass1] at h; rw [h.2]; simp
  | cons b rest ih =>
    simp only [inlinePass1] at h
    split at h
    · split at h
      · simp at h
      · rename_i a o hrec
        simp only [Except.ok.injEq, Prod.mk.injEq] at h
        obtain ⟨i1, i2⟩ := ih shapes a rem true o (fun b hb => hgood b (by simp [hb])) hrec
        rw [← h.2]
        refine ⟨?_, ?_⟩
        · intro m hm
          rcases List.mem_cons.mp hm with hm | hm
          · rw [hm]; exact hgood b (by simp)
          · exact i1 m hm
        · intro m hm r hr
          rcases List.mem_cons.mp hm with hm | hm
          · rw [hm] at hr; simp at hr
          · exact i2 m hm r hr
    · split at h
      · simp at h
      · rename_i b' sh1 hpl
        split at h
        · simp at h
        · rename_i a o hrec
          simp only [Except.ok.injEq, Prod.mk.injEq] at h
          have hy := floatPlace_not_above shapes { b with px := cb.cx, py := lineY } cb b' sh1
            (hgood b (by simp)) hpl
          obtain ⟨i1, i2⟩ := ih sh1 a _ false o (fun b hb => hgood b (by simp [hb])) hrec
          rw [← h.2]
          refine ⟨?_, ?_⟩
          · intro m hm
            rcases List.mem_cons.mp hm with hm | hm
            · rw [hm]; exact hgood b (by simp)
            · exact i1 m hm
          · intro m hm r hr
            rcases List.mem_cons.mp hm with hm | hm
            · rw [hm] at hr; simp at hr; rw [← hr]; simpa using hy
            · exact i2 m hm r hr

/-! ## `get_next_linebox` -/

/-- The only failures of the float functions: the (never taken) fuel exit and the class assertion. -/
def FloatErr (e : PyErr) : Prop :=
  e = .recursion "avoid_collisions:loop" ∨ e = .assertFailed "avoid_collisions:kind"

private theorem avoidCollisions_err (shapes : List Shape) (b : ABox) (cb : CB) (outer : Bool) (e : PyErr)
    (h : avoidCollisions shapes b cb outer = .error e) : FloatErr e := by
  unfold avoidCollisions at h
  simp only at h
  split at h
  · simp at h; exact Or.inl h.symm
  · split at h
    · simp at h; exact Or.inr h.symm
    · split at h <;> simp at h

private theorem floatPlace_err (shapes : List Shape) (b : ABox) (cb : CB) (e : PyErr)
    (h : floatPlace shapes b cb = .error e) : FloatErr e := by
  unfold floatPlace at h
  simp only at h
  split at h
  · rename_i e' he
    simp at h; subst h
    unfold findFloatPosition at he
    simp only at he
    split at he
    · rename_i e'' he'
      simp at he; subst he
      exact avoidCollisions_err _ _ _ _ _ he'
    · simp at he
  · simp at h

private theorem inlinePass1_err (cb : CB) (lineY : Rat) (shapes : List Shape) (rem : Rat) (w : Bool)
    (bs : List ABox) (e : PyErr) (h : inlinePass1 cb lineY shapes rem w bs = .error e) : FloatErr e := by
  induction bs generalizing shapes rem w with
  | nil => simp [inlinePass1] at h
  | cons b rest ih =>
    simp only [inlinePass1] at h
    split at h
    · split at h
      · rename_i e' he; simp at h; subst h; exact ih _ _ _ he
      · simp at h
    · split at h
      · rename_i e' he; simp at h; subst h; exact floatPlace_err _ _ _ _ he
      · split at h
        · rename_i e' he; simp at h; subst h; exact ih _ _ _ he
        · simp at h

private theorem floatErr_not_loop (e : PyErr) (h : FloatErr e) : e ≠ .recursion "get_next_linebox:loop" := by
  rcases h with h | h <;> subst h <;> simp

private theorem lineLoop_succ (cb : CB) (strut : Rat) (align : Align) (l : LineSpec) (shapes0 : List Shape)
    (fuel : Nat) (px py avail lbw cand : Rat) :
    lineLoop cb strut align l shapes0 (fuel + 1) px py avail lbw cand =
      (match inlinePass1 cb py shapes0 (avail - l.w) false l.floats with
      | .error e => .error e
      | .ok (shapes1, marks) =>
        let split : ABox := ⟨px, py, 0, 0, 0, 0, l.w, strut, .none, .none, .line⟩
        let laid : ABox := ⟨px, py, 0, 0, 0, 0, l.w, l.h, .none, .none, .line⟩
        match avoidCollisions shapes1 split cb false with
        | .error e => .error e
        | .ok p2 =>
          let off := textAlign align cb.rtl l.w p2.avail
          let x := if cb.rtl then px + (-off - l.w) else px + off
          if l.h ≤ cand then .ok ⟨shapes1, marks, x, py⟩ else
          match avoidCollisions shapes0 laid cb false with
          | .error e => .error e
          | .ok p3 =>
            let same := if !cb.rtl then p3.x = px ∧ p3.y = py else p3.x + l.w = px + lbw ∧ p3.y = py
            if same then .ok ⟨shapes1, marks, x, py⟩
            else lineLoop cb strut align l shapes0 fuel p3.x p3.y p3.avail l.w l.h) := by
  rfl

/-- One pass that starts with the line's own height as candidate height ends the loop. -/
private theorem lineLoop_second (cb : CB) (strut : Rat) (align : Align) (l : LineSpec) (shapes0 : List Shape)
    (n : Nat) (px py avail lbw : Rat) :
    lineLoop cb strut align l shapes0 (n + 1) px py avail lbw l.h ≠ .error (.recursion "get_next_linebox:loop") := by
  rw [lineLoop_succ]
  simp only
  split
  · rename_i e he
    intro h; simp at h
    exact floatErr_not_loop e (inlinePass1_err _ _ _ _ _ _ _ he) h
  · split
    · rename_i e he
      intro h; simp at h
      exact floatErr_not_loop e (avoidCollisions_err _ _ _ _ _ he) h
    · simp

/-- **The `while True` loop of `get_next_linebox` ends**: a line whose content does not depend on the width it
is given goes through the loop at most twice (the second pass starts with the line's own height as
candidate height), so the fuel of the model (3) is never exhausted. -/
theorem next_linebox_terminates (cb : CB) (strut : Rat) (align : Align) (l : LineSpec) (shapes0 : List Shape)
    (n : Nat) (px py avail lbw cand : Rat) :
    lineLoop cb strut align l shapes0 (n + 2) px py avail lbw cand ≠ .error (.recursion "get_next_linebox:loop") := by
  rw [lineLoop_succ]
  simp only
  split
  · rename_i e he
    intro h; simp at h
    exact floatErr_not_loop e (inlinePass1_err _ _ _ _ _ _ _ he) h
  · split
    · rename_i e he
      intro h; simp at h
      exact floatErr_not_loop e (avoidCollisions_err _ _ _ _ _ he) h
    · split
      · simp
      · split
        · rename_i e he
          intro h; simp at h
          exact floatErr_not_loop e (avoidCollisions_err _ _ _ _ _ he) h
        · split <;> split <;>
            first
              | exact lineLoop_second cb strut align l shapes0 n _ _ _ _
              | simp

end Wp.C11

namespace Wp.C11
open Wp Wp.Floats

/-! ## The beginning of `float_layout` and `text_align` -/

/-- The used width of a float — auto or specified (repaired in 802b9d8: a specified width used to escape the
clamp) — respects `min-width`, and `max-width` when `min-width ≤ max-width`. -/
theorem float_width_minmax (width : Len) (minW : Rat) (maxW : Option Rat) (minC maxC avail : Rat) :
    minW ≤ floatWidth width minW maxW minC maxC avail ∧
    (∀ mx, maxW = some mx → minW ≤ mx → floatWidth width minW maxW minC maxC avail ≤ mx) := by
  unfold floatWidth clampMinMax
  cases maxW with
  | none => simp only; constructor <;> (try split) <;> grind
  | some mx => simp only; constructor <;> (try split) <;> (try split) <;> grind

/-- A specified width inside `[min-width, max-width]` is the used width. -/
theorem float_width_specified (w minW : Rat) (maxW : Option Rat) (minC maxC avail : Rat)
    (h1 : minW ≤ w) (h2 : ∀ mx, maxW = some mx → w ≤ mx) :
    floatWidth (some w) minW maxW minC maxC avail = w := by
  unfold floatWidth clampMinMax
  cases maxW with
  | none => simp only; split <;> grind
  | some mx => have := h2 mx rfl; simp only; split <;> split <;> grind

/-- An auto width of a float respects `min-width`, and `max-width` when `min-width ≤ max-width`. -/
theorem float_auto_width_minmax (minW : Rat) (maxW : Option Rat) (minC maxC avail : Rat) :
    minW ≤ floatWidthAuto minW maxW minC maxC avail ∧
    (∀ mx, maxW = some mx → minW ≤ mx → floatWidthAuto minW maxW minC maxC avail ≤ mx) :=
  float_width_minmax none minW maxW minC maxC avail

/-- Without min/max constraints the auto width is the shrink-to-fit width for the available width. -/
theorem float_auto_width_shrink_to_fit (minC maxC avail : Rat) (h0 : 0 ≤ min (max minC avail) maxC) :
    floatWidthAuto 0 none minC maxC avail = min (max minC avail) maxC := by
  unfold floatWidthAuto floatWidth clampMinMax; simp only; split <;> grind

/-- **CSS 2.1 §10.3.5 for floats** (repaired in 8719f13): the width offered to shrink-to-fit is what the float's own
margins, borders and paddings leave of the containing block, so an auto-width float whose content can shrink
(`min-content ≤` that width) and that has no min/max constraint has a margin box that fits its containing block. -/
theorem float_auto_width_fits (f : FloatSpec) (cbW : Rat) (hw : f.width = .auto)
    (hmin : f.minW = .auto) (hmax : f.maxW = .auto)
    (hc : f.minC ≤ cbW - (Absolute.autoZero (f.ml.resolve cbW) + Absolute.autoZero (f.mr.resolve cbW) +
      Absolute.autoZero (f.pl.resolve cbW) + Absolute.autoZero (f.pr.resolve cbW) + f.bl + f.br))
    (h0 : 0 ≤ f.minC) :
    (floatResolve f cbW).marginWidth ≤ cbW := by
  have e1 : Absolute.Dim.auto.resolve cbW = none := rfl
  simp only [floatResolve, ABox.marginWidth, hw, hmin, hmax, e1]
  generalize Absolute.autoZero (f.ml.resolve cbW) = ml at *
  generalize Absolute.autoZero (f.mr.resolve cbW) = mr at *
  generalize Absolute.autoZero (f.pl.resolve cbW) = pl at *
  generalize Absolute.autoZero (f.pr.resolve cbW) = pr at *
  simp only [floatWidth, clampMinMax, Absolute.autoZero]
  grind

/-- `text_align` never moves a line out of the width it was given: the offset is between 0 and the free space. -/
theorem text_align_inside (a : Align) (rtl : Bool) (w avail : Rat) :
    0 ≤ textAlign a rtl w avail ∧ (w ≤ avail → textAlign a rtl w avail + w ≤ avail) ∧
    (avail ≤ w → textAlign a rtl w avail = 0) := by
  unfold textAlign
  by_cases h : w ≥ avail
  · simp [h]; intro h2; grind
  · simp only [h, if_false]
    cases a <;> cases rtl <;> simp <;> grind

example : textAlign .center false 20 90 = 35 ∧ textAlign .left true 20 90 = 70 ∧ textAlign .right true 20 90 = 0 := by
  decide +kernel

end Wp.C11

namespace Wp.C11
open Wp Wp.Positioned

/-! ## Containing block and fixed boxes (`Model/Positioned.lean`) -/

private def OwnerSpec (cur : Option Nat) (i : Nat) (anc : List Position) : Prop :=
  (ownerFrom cur i anc = cur ∧ ∀ p ∈ anc, p = .static) ∨
  (∃ k, k < anc.length ∧ ownerFrom cur i anc = some (i + k) ∧ anc[k]? ≠ some .static ∧ anc[k]?.isSome ∧
    ∀ j, k < j → j < anc.length → anc[j]? = some .static)

private theorem ownerFrom_spec (cur : Option Nat) (i : Nat) (anc : List Position) : OwnerSpec cur i anc := by
  induction anc generalizing cur i with
  | nil => left; simp [ownerFrom]
  | cons p rest ih =>
    have key : ∀ cur', ownerFrom cur' (i + 1) rest = ownerFrom cur i (p :: rest) →
        (p = .static → cur' = cur) → (p ≠ .static → cur' = some i) → OwnerSpec cur i (p :: rest) :=
        fun cur' he hs hn => by
      rcases ih cur' (i + 1) with ⟨h1, h2⟩ | ⟨k, hk, h1, h2, h3, h4⟩
      · by_cases hp : p = .static
        · left
          exact ⟨by rw [← he, h1, hs hp], by intro q hq; rcases List.mem_cons.mp hq with h | h; exact h ▸ hp; exact h2 q h⟩
        · right
          refine ⟨0, by simp, by rw [← he, h1, hn hp]; simp, by simpa using hp, by simp, ?_⟩
          intro j hj hjl
          cases j with
          | zero => omega
          | succ j' =>
            have hj' : j' < rest.length := by simp at hjl; omega
            simp only [List.getElem?_cons_succ, List.getElem?_eq_getElem hj']
            congr 1
            exact h2 _ (List.getElem_mem hj')
      · right
        refine ⟨k + 1, by simp; omega, by rw [← he, h1]; congr 1; omega, by simpa using h2, by simpa using h3, ?_⟩
        intro j hj hjl
        cases j with
        | zero => omega
        | succ j' => simp; exact h4 j' (by omega) (by simp at hjl; omega)
    cases p with
    | static => exact key cur (by simp [ownerFrom]) (fun _ => rfl) (fun h => absurd rfl h)
    | relative => exact key (some i) (by simp [ownerFrom]) (fun h => by cases h) (fun _ => rfl)
    | absolute => exact key (some i) (by simp [ownerFrom]) (fun h => by cases h) (fun _ => rfl)
    | fixed => exact key (some i) (by simp [ownerFrom]) (fun h => by cases h) (fun _ => rfl)

/-- **The containing block of an absolutely positioned box is its nearest positioned ancestor, else the page**:
the box that ends up calling `absolute_layout` on the placeholder is the innermost ancestor whose `position`
is not `static` (every ancestor below it is static); when all ancestors are static it is the page. -/
theorem owner_is_nearest_positioned (anc : List Position) :
    (owner .absolute anc = none ∧ ∀ p ∈ anc, p = .static) ∨
    (∃ k, k < anc.length ∧ owner .absolute anc = some k ∧ anc[k]? ≠ some .static ∧
      ∀ j, k < j → j < anc.length → anc[j]? = some .static) := by
  rcases ownerFrom_spec none 0 anc with h | ⟨k, hk, h1, h2, _, h4⟩
  · left; exact h
  · right; exact ⟨k, hk, by simpa [owner] using h1, h2, h4⟩

/-- A fixed box always belongs to the page. -/
theorem fixed_owner_is_page (anc : List Position) : owner .fixed anc = none := rfl

example : owner .absolute [.static, .relative, .static, .absolute, .static] = some 3 ∧
    owner .absolute [.static, .static] = none := by decide

/-- **A fixed box is laid out on every page**: every fixed box that `make_page` collects (on whichever page its
source lies) is among the boxes laid out on each page of the document … -/
theorem fixed_on_every_page (pages : List (List FixedBox)) (j : Nat) (f : FixedBox)
    (hf : f ∈ pages.getD j []) (hl : f.late = false) (i : Nat) (hi : i < pages.length) :
    f ∈ pageFixed pages i := by
  have hj : j < pages.length := by
    by_cases h : j < pages.length
    · exact h
    · simp [List.getD, List.getElem?_eq_none (Nat.le_of_not_lt h)] at hf
  have hfj : f ∈ pages[j] := by simpa [List.getD, hj] using hf
  have hc : f ∈ collected pages[j] := by simp [collected, hfj, hl]
  unfold pageFixed
  rcases Nat.lt_trichotomy j i with h | h | h
  · simp only [List.mem_append]; left; left
    simp only [List.mem_flatten, List.mem_map]
    exact ⟨collected pages[j], ⟨pages[j], by
      rw [List.mem_take_iff_getElem]; exact ⟨j, by omega, rfl⟩, rfl⟩, hc⟩
  · subst h; simp only [List.mem_append]; left; right; exact hf
  · simp only [List.mem_append]; right
    simp only [List.mem_flatten, List.mem_map]
    refine ⟨collected pages[j], ⟨pages[j], ?_, rfl⟩, hc⟩
    rw [List.mem_drop_iff_getElem]
    exact ⟨j - (i + 1), by omega, by congr 1; omega⟩

/-- … **at the same place**: the position does not depend on the page. -/
theorem fixed_same_place (cx cy : Rat) (pages : List (List FixedBox)) (i i' : Nat) (f : FixedBox)
    (_h : f ∈ pageFixed pages i) (_h' : f ∈ pageFixed pages i') :
    fixedAt cx cy f ∈ (pageFixed pages i).map (fixedAt cx cy) ∧
    fixedAt cx cy f ∈ (pageFixed pages i').map (fixedAt cx cy) :=
  ⟨List.mem_map_of_mem _h, List.mem_map_of_mem _h'⟩

/-- The rule for "collected too late": the outermost positioned ancestor is absolutely / fixed positioned. -/
theorem collectedLate_iff (anc : List Position) :
    collectedLate anc = true ↔
      ∃ k, k < anc.length ∧ (anc[k]? = some .absolute ∨ anc[k]? = some .fixed) ∧
        ∀ j, j < k → anc[j]? = some .static := by
  induction anc with
  | nil => simp [collectedLate]
  | cons p rest ih =>
    cases p with
    | static =>
      simp only [collectedLate, ih]
      constructor
      · rintro ⟨k, hk, h1, h2⟩
        refine ⟨k + 1, by simp; omega, by simpa using h1, ?_⟩
        intro j hj; cases j with
        | zero => simp
        | succ j' => simp; exact h2 j' (by omega)
      · rintro ⟨k, hk, h1, h2⟩
        cases k with
        | zero => simp at h1
        | succ k' =>
          refine ⟨k', by simp at hk; omega, by simpa using h1, ?_⟩
          intro j hj; have := h2 (j + 1) (by omega); simpa using this
    | relative =>
      simp only [collectedLate, Bool.false_eq_true, false_iff]
      rintro ⟨k, hk, h1, h2⟩
      cases k with
      | zero => simp at h1
      | succ k' => have := h2 0 (by omega); simp at this
    | absolute => simp only [collectedLate, true_iff]; exact ⟨0, by simp, by simp, by intro j hj; omega⟩
    | fixed => simp only [collectedLate, true_iff]; exact ⟨0, by simp, by simp, by intro j hj; omega⟩

example : (layoutFixed 20 20 [[⟨1, 5, 5, false⟩], [], [⟨3, 1, 1, false⟩]]) =
    [[(1, 25, 25), (3, 21, 21)], [(1, 25, 25), (3, 21, 21)], [(1, 25, 25), (3, 21, 21)]] := by decide +kernel

end Wp.C11

namespace Wp.C11
open Wp Wp.Floats

/-- Non-vacuity: a document with two floats, a paragraph, a cleared block and a BFC root satisfies `ItemOk`, is laid
out by the model, and its floats pass the checker. -/
example :
    let items : List Item := [
      .float ⟨0, 0, 0, 0, 0, 0, 60, 50, .left, .none, .bfc⟩,
      .para .none 10 .right [⟨30, 30, 10, []⟩, ⟨0, 50, 30, []⟩] 0 7,
      .floatSpec ⟨.right, .left, .auto, none, .px 0, .pct 25, .auto, .px 0, .px 2, .px 2, .px 0, .px 0, 1, 1, 0, 0,
        .auto, .px 40, 30, 70, 10, 20⟩,
      .block .both 5 12 0,
      .bfc .none none 10 0 0 3 0]
    (∀ it ∈ items, ItemOk ⟨20, 100, false⟩ it) ∧
    ((flow ⟨20, 100, false⟩ [] 20 items).toOption.map floatRects) = some [(20, 20, 60, 50), (49, 107, 71, 20)] := by
  refine ⟨?_, by decide +kernel⟩
  intro it hit
  simp at hit
  rcases hit with h | h | h | h | h <;> subst h <;> simp [ItemOk, GoodFloat, floatResolve, floatWidth, clampMinMax,
    ABox.marginHeight, ABox.marginWidth, Absolute.Dim.resolve, Absolute.autoZero] <;> decide +kernel

end Wp.C11

namespace Wp.C11
open Wp Wp.Floats

/-- **The instrumented loop computes what the model computes**: dropping the branch information from
`avoidLoopTrace` gives `avoidLoop` (so the branch histogram of the evidence is about the model itself). -/
theorem avoidLoopTrace_res (fuel : Nat) (shapes : List Shape) (w h l0 r0 y : Rat) (k : Nat) :
    (avoidLoopTrace fuel shapes w h l0 r0 y k).map (fun t => t.1) = avoidLoop fuel shapes w h l0 r0 y := by
  induction fuel generalizing y k with
  | zero => rfl
  | succ n ih =>
    rw [avoidLoop_succ]
    simp only [avoidLoopTrace]
    split
    · split
      · rename_i hl; rw [hl]; rfl
      · rename_i p ps hl; rw [hl]; exact ih _ _
    · rfl

example : avoidLoopTrace 3 [⟨0, 0, 60, 50, .left⟩, ⟨70, 0, 30, 20, .right⟩] 35 10 0 100 0 0
    = some (⟨20, 60, 100⟩, 1, .fits) := by decide +kernel

end Wp.C11

namespace Wp.C11
open Wp Wp.Floats

private theorem pairwiseB_append_single' {α} (r : α → α → Bool) (l : List α) (a : α) :
    pairwiseB r (l ++ [a]) = (pairwiseB r l && l.all (fun b => r b a)) := by
  induction l with
  | nil => simp [pairwiseB]
  | cons b l ih =>
    simp only [List.cons_append, pairwiseB, ih, List.all_append, List.all_cons, List.all_nil, Bool.and_true]
    cases l.all (r b) <;> cases r b a <;> cases pairwiseB r l <;> simp

/-- Completeness of the trace checker on floats: a list that is pairwise fine is accepted event by event. -/
theorem checkEvents_floats_complete (shapes : List Shape) (i : Nat) (l : List Shape)
    (h : floatsOk (shapes ++ l) = true) : checkEvents shapes i (l.map Event.float) = none := by
  induction l generalizing shapes i with
  | nil => simp [checkEvents]
  | cons s rest ih =>
    have h' : floatsOk ((shapes ++ [s]) ++ rest) = true := by simpa [List.append_assoc] using h
    have hs : floatsOk (shapes ++ [s]) = true := by
      unfold floatsOk at h' ⊢
      rw [pairwiseB_iff] at h' ⊢
      exact (List.pairwise_append.mp h').1
    unfold floatsOk at hs
    rw [pairwiseB_append_single'] at hs
    simp only [Bool.and_eq_true] at hs
    simp only [List.map_cons, checkEvents, hs.2, if_true]
    exact ih (shapes ++ [s]) (i + 1) h'

/-- **`check (model x) = ok`**: the float margin boxes that the flow model reports for any admissible document
are accepted by the very checker (`checkEvents`, command `checkbfc`) that the harness runs on rendered documents. -/
theorem flow_events_accepted (cb : CB) (items : List Item) (y : Rat) (out : List Placed)
    (hit : ∀ it ∈ items, ItemOk cb it) (h : flow cb [] y items = .ok out) :
    ∃ shapes' : List Shape, shapes'.map Shape.rect = floatRects out ∧ checkEvents [] 0 (shapes'.map Event.float) = none := by
  obtain ⟨sh, h1, h2⟩ := flow_accepted cb items y out hit h
  exact ⟨sh, h2, checkEvents_floats_complete [] 0 sh (by simpa using h1)⟩

end Wp.C11

namespace Wp.C11
open Wp Wp.Positioned Wp.Absolute

/-! ## Fixed boxes on pages whose areas differ, nested fixed boxes (`Model/FixedPages.lean`) -/

/-- **The offsets of a fixed box refer to the page area it is laid out against**: `left` / `top` are measured from
the area's top-left corner; with `left` (resp. `top`) auto, `right` / `bottom` are measured from its bottom-right
corner: `left + margin box + right = width of the page area` with the area of *that* page. -/
theorem fixedPos_spec (area : Rect) (st : FixedStyle) (x y : Rat) (hw : 0 ≤ st.w)
    (h : fixedPos area st = .ok (x, y)) :
    (∀ l, st.left.resolve area.w = some l → x = area.x + l) ∧
    (∀ r, st.left.resolve area.w = none → st.right.resolve area.w = some r →
      x + (st.w + st.ml + st.mr) + r = area.x + area.w) ∧
    (∀ t, st.top.resolve area.h = some t → y = area.y + t) ∧
    (∀ b, st.top.resolve area.h = none → st.bottom.resolve area.h = some b →
      y + (st.h + st.mt + st.mb) + b = area.y + area.h) := by
  unfold fixedPos absoluteBlock at h
  simp only [FixedStyle.toAbs] at h
  generalize st.left.resolve area.w = L at *
  generalize st.right.resolve area.w = R at *
  generalize st.top.resolve area.h = T at *
  generalize st.bottom.resolve area.h = B at *
  have hnlt : ¬ st.w < 0 := by grind
  cases L <;> cases R <;> cases T <;> cases B <;>
    simp [Dim.resolve, autoZero, absoluteWidth, absoluteWidthCore, maxStage, minStage, finalX, absoluteHeight,
      finalY, HBox.pb, VBox.pb, hnlt] at h <;>
    (obtain ⟨hx, hy⟩ := h; subst hx; subst hy; simp; try grind)

mutual
/-- The boxes of a tree of fixed boxes, in tree order. -/
def nodesTree : FixedTree → List (Nat × FixedStyle)
  | .mk id st _ kids => (id, st) :: nodesTrees kids
def nodesTrees : List FixedTree → List (Nat × FixedStyle)
  | [] => []
  | t :: ts => nodesTree t ++ nodesTrees ts
end

mutual
/-- Every box drawn for a collected fixed box — the box itself and every fixed box nested in it at any depth — is
placed by `absolute_box_layout` against the same `area`: that of the page it is drawn on. -/
theorem layoutTree_spec (area : Rect) : ∀ (t : FixedTree) (l : List (Nat × Rat × Rat)),
    layoutTree area t = .ok l →
      l.map (·.1) = (nodesTree t).map (·.1) ∧
      ∀ e ∈ l, ∃ n ∈ nodesTree t, n.1 = e.1 ∧ fixedPos area n.2 = .ok e.2
  | .mk id st late kids, l, h => by
    simp only [layoutTree] at h
    split at h
    · rename_i x y rest hp hk
      simp only [Except.ok.injEq] at h
      obtain ⟨i1, i2⟩ := layoutTrees_spec area kids rest hk
      subst h
      refine ⟨by simp [nodesTree, i1], ?_⟩
      intro e he
      rcases List.mem_cons.mp he with he | he
      · exact ⟨(id, st), by simp [nodesTree], by rw [he], by rw [he]; exact hp⟩
      · obtain ⟨n, hn, h1, h2⟩ := i2 e he
        exact ⟨n, by simp [nodesTree, hn], h1, h2⟩
    · simp at h
    · simp at h
theorem layoutTrees_spec (area : Rect) : ∀ (ts : List FixedTree) (l : List (Nat × Rat × Rat)),
    layoutTrees area ts = .ok l →
      l.map (·.1) = (nodesTrees ts).map (·.1) ∧
      ∀ e ∈ l, ∃ n ∈ nodesTrees ts, n.1 = e.1 ∧ fixedPos area n.2 = .ok e.2
  | [], l, h => by simp [layoutTrees] at h; subst h; simp [nodesTrees]
  | t :: ts, l, h => by
    simp only [layoutTrees] at h
    split at h
    · rename_i a b ha hb
      simp only [Except.ok.injEq] at h
      obtain ⟨i1, i2⟩ := layoutTree_spec area t a ha
      obtain ⟨j1, j2⟩ := layoutTrees_spec area ts b hb
      subst h
      refine ⟨by simp [nodesTrees, i1, j1], ?_⟩
      intro e he
      rcases List.mem_append.mp he with he | he
      · obtain ⟨n, hn, h1, h2⟩ := i2 e he
        exact ⟨n, by simp [nodesTrees, hn], h1, h2⟩
      · obtain ⟨n, hn, h1, h2⟩ := j2 e he
        exact ⟨n, by simp [nodesTrees, hn], h1, h2⟩
    · simp at h
    · simp at h
end

/-- **A fixed box is laid out identically on every page, against the page it is drawn on**: on page `i` of the
document every fixed box drawn there — collected on any page, nested at any depth — is positioned against
`areas[i]` (so by `fixedPos_spec` its offsets refer to the area of page `i`, whatever the area of the page its
source lies on), and the boxes drawn on page `i` are, in tree order, the boxes of the trees `pageTrees pages i`. -/
theorem fixed_boxes_use_their_own_page (areas : List Rect) (pages : List (List FixedTree)) (i : Nat)
    (hi : i < pages.length) (l : List (Nat × Rat × Rat))
    (h : (layoutFixedDoc areas pages)[i]? = some (.ok l)) :
    l.map (·.1) = (nodesTrees (pageTrees pages i)).map (·.1) ∧
    ∀ e ∈ l, ∃ n ∈ nodesTrees (pageTrees pages i), n.1 = e.1 ∧ fixedPos (areas.getD i default) n.2 = .ok e.2 := by
  unfold layoutFixedDoc at h
  rw [List.getElem?_map, List.getElem?_range hi] at h
  simp only [Option.map_some, Option.some.injEq] at h
  exact layoutTrees_spec _ _ _ h

/-- Equal page areas give equal positions (the only input besides the box's own style). -/
theorem fixed_tree_same (a1 a2 : Rect) (t : FixedTree) (h : a1 = a2) : layoutTree a1 t = layoutTree a2 t := by
  rw [h]

/-- Non-vacuity: an outer fixed box (`right: 10%; bottom: 6px`) declared on page 1 with a nested fixed box
(`left: 5px; top: 8px`), pages with areas (40, 25, 150, 265) and (10, 10, 150, 260): on each page both boxes are
placed against that page's area. -/
example :
    let inner : FixedTree := .mk 2 ⟨.px 5, .auto, .px 8, .auto, 20, 10, 4, 2, 1, 3⟩ false []
    let outer : FixedTree := .mk 1 ⟨.auto, .pct 10, .auto, .px 6, 60, 40, 0, 0, 0, 0⟩ false [inner]
    (layoutFixedDoc [⟨40, 25, 150, 265⟩, ⟨10, 10, 150, 260⟩] [[outer], []]).map Except.toOption =
      [some [(1, 115, 244), (2, 45, 33)], some [(1, 85, 224), (2, 15, 18)]] := by
  decide +kernel

end Wp.C11

namespace Wp.C11
open Wp Wp.Positioned Wp.Absolute

/-! ## The content of a fixed box: its own page against the pages it is repeated on (`Model/FixedPages.lean`) -/

theorem keptFrom_le (limit : Option Rat) (y : Rat) (first : Bool) (hs : List Rat) :
    keptFrom limit y first hs ≤ hs.length := by
  induction hs generalizing y first with
  | nil => simp [keptFrom]
  | cons h rest ih =>
    have := ih (y + h) false
    cases limit with
    | none => simp only [keptFrom, Bool.and_false, Bool.false_eq_true, if_false, List.length_cons]; omega
    | some l =>
      simp only [keptFrom, List.length_cons]
      by_cases hc : (!first && decide (y + h > l)) = true
      · rw [if_pos hc]; omega
      · rw [if_neg hc]; omega

/-- Without a page bottom to respect (`bottom_space = -inf`) nothing is cut. -/
theorem keptFrom_none (y : Rat) (first : Bool) (hs : List Rat) : keptFrom none y first hs = hs.length := by
  induction hs generalizing y first with
  | nil => simp [keptFrom]
  | cons h rest ih =>
    simp only [keptFrom, Bool.and_false, Bool.false_eq_true, if_false, List.length_cons, ih]; omega

/-- Content that ends above the limit is kept whole. -/
theorem keptFrom_fits (l y : Rat) (first : Bool) (hs : List Rat) (hpos : ∀ h ∈ hs, 0 ≤ h)
    (hfit : y + hs.sum ≤ l) : keptFrom (some l) y first hs = hs.length := by
  induction hs generalizing y first with
  | nil => simp [keptFrom]
  | cons h rest ih =>
    have h0 := hpos h (by simp)
    have hr : ∀ h' ∈ rest, 0 ≤ h' := fun h' hh => hpos h' (by simp [hh])
    have hsum : 0 ≤ rest.sum := by
      clear ih hfit hpos
      induction rest with
      | nil => simp
      | cons a t iht =>
        have := hr a (by simp)
        have := iht (fun h' hh => hr h' (by simp [hh]))
        simp; grind
    simp only [List.sum_cons] at hfit
    have hnot : ¬ (y + h > l) := by grind
    simp only [keptFrom, hnot, decide_false, Bool.and_false, Bool.false_eq_true, if_false, List.length_cons]
    rw [ih (y + h) false hr (by grind)]; omega

/-- **A fixed box repeated on another page holds all its content**: `layout_fixed_boxes` never cuts it. -/
theorem fixed_kept_on_other_pages (pageBottom : Rat) (vb : VBox) (cbY cbH : Rat) (hs : List Rat) :
    fixedKept none pageBottom vb cbY cbH hs = hs.length := by
  simp [fixedKept, absBottomSpace, keptFrom_none]

/-- On any page the first block is kept (`page_is_empty_with_no_children`) and nothing is invented. -/
theorem fixed_kept_bounds (base : Option Rat) (pageBottom : Rat) (vb : VBox) (cbY cbH : Rat) (hs : List Rat)
    (hne : hs ≠ []) :
    1 ≤ fixedKept base pageBottom vb cbY cbH hs ∧ fixedKept base pageBottom vb cbY cbH hs ≤ hs.length := by
  refine ⟨?_, keptFrom_le _ _ _ _⟩
  cases hs with
  | nil => exact absurd rfl hne
  | cons h rest => simp [fixedKept, keptFrom]

/-
Full statement (false of the current code, see `Witness.C11.fixed_box_fragmented_on_own_page`):
  theorem fixed_same_content : fixedKept (some 0) pb vb cbY cbH hs = fixedKept none pb vb cbY cbH hs
-/
/-- **A fixed box holds the same content on its own page as on every other page** when that content — laid out at
the box's static position — ends above `page_bottom - bottom_space`, `bottom_space` being the translation that
`absolute_block` is about to apply (`-position_y` when the box is moved by its height). -/
theorem fixed_same_content_partial (pageBottom : Rat) (vb : VBox) (cbY cbH : Rat) (hs : List Rat)
    (hpos : ∀ h ∈ hs, 0 ≤ h)
    (hfit : let r := absoluteHeight vb cbY cbH
      vb.posY + autoZero r.1.mt + vb.bt + vb.pt + hs.sum ≤
        pageBottom - (0 + (if r.2.1 then -r.1.posY else r.2.2))) :
    fixedKept (some 0) pageBottom vb cbY cbH hs = fixedKept none pageBottom vb cbY cbH hs := by
  rw [fixed_kept_on_other_pages]
  simp only [fixedKept, absBottomSpace, Option.map_some]
  exact keptFrom_fits _ _ _ _ hpos hfit

/-- Non-vacuity: `top: 100px` with two 10px blocks on a 320px page with 16px margins fits on its own page. -/
example : fixedKept (some 0) 304 ⟨some 100, none, none, some 0, some 0, 0, 0, 0, 0, 16⟩ 16 288 [10, 10] = 2 ∧
    fixedKept none 304 ⟨some 100, none, none, some 0, some 0, 0, 0, 0, 0, 16⟩ 16 288 [10, 10] = 2 := by
  decide +kernel

end Wp.C11
