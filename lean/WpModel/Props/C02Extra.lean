/-
C02 — totality of three functions outside the pagination model (Model/C02Extra.lean):
`inline_block_baseline` never raises (its guard protects both indexings, for every box tree), the size
asked of Pillow's `thumbnail()` under the `dpi` option is at least 1×1 for every image and ratio, and the
growth checker of the nesting section accepts every polynomial cost up to degree 3 and rejects a cost
that doubles with each level.
-/
import WpModel.Model.C02Extra
import Mathlib.Tactic.Ring

namespace Wp.C02x

/-! ### inline_block_baseline -/

/-- The `for` loop of the table-wrapper branch never raises: the guard
`child.children and child.children[0].children` protects `child.children[0].children[0]`. -/
theorem tableBaseline_total : ∀ kids : List IBox, ∃ r, tableBaseline kids = .ok r
  | [] => ⟨none, rfl⟩
  | child :: rest => by
    obtain ⟨r, hr⟩ := tableBaseline_total rest
    unfold tableBaseline
    by_cases hk : child.kind = .table
    · simp only [hk, ↓reduceIte]
      cases hc : child.kids with
      | nil => simp [hr]
      | cons g gs =>
        cases hg : g.kids with
        | nil => simp [hg, hr]
        | cons row rows => simp [hg, idx0, bind, Except.bind, pure, Except.pure]
    · simp [hk, hr]

/-- `inline_block_baseline` returns a number for every box (no IndexError, whatever the table contains). -/
theorem inlineBlockBaseline_total (b : IBlock) : ∃ r, inlineBlockBaseline b = .ok r := by
  unfold inlineBlockBaseline
  by_cases hw : b.wrapper = true
  · obtain ⟨r, hr⟩ := tableBaseline_total b.kids
    simp only [hw, ↓reduceIte, hr]
    cases r <;> simp
  · simp only [hw, Bool.false_eq_true, ↓reduceIte]
    by_cases ho : b.overflowVisible = true
    · simp only [ho, ↓reduceIte]
      cases findLastKid true b.kids with
      | none => simp
      | some r => by_cases h0 : r = 0 <;> simp [h0]
    · simp [ho]

/-- An inline table whose first row group has a row: the baseline is that row's (CSS 2.1 §10.8.1). -/
theorem inline_table_first_row (b : IBlock) (hw : b.wrapper = true) (t g row : IBox) (gs rows rest : List IBox)
    (y bl : Rat) (fl : Bool)
    (hk : b.kids = t :: rest) (ht : t = .mk .table fl y bl (g :: gs)) (hg : g.kids = row :: rows) :
    inlineBlockBaseline b = .ok row.baseline := by
  unfold inlineBlockBaseline
  obtain ⟨gk, gf, gy, gb, gkids⟩ := g
  simp only [IBox.kids] at hg
  subst hg
  simp only [hw, ↓reduceIte, hk]
  unfold tableBaseline
  subst ht
  simp [IBox.kind, IBox.kids, idx0, bind, Except.bind, pure, Except.pure]

/-- An inline table whose first row group is empty (and that is the wrapper's only table): the bottom
margin edge — the input on which a weaker guard raises IndexError. -/
theorem inline_table_empty_first_group (b : IBlock) (hw : b.wrapper = true) (g : IBox) (gs : List IBox)
    (y bl : Rat) (fl : Bool) (hk : b.kids = [.mk .table fl y bl (g :: gs)]) (hg : g.kids = []) :
    inlineBlockBaseline b = .ok (b.posY + b.marginHeight) := by
  unfold inlineBlockBaseline
  obtain ⟨gk, gf, gy, gb, gkids⟩ := g
  simp only [IBox.kids] at hg
  subst hg
  simp only [hw, ↓reduceIte, hk]
  simp [tableBaseline, IBox.kind, IBox.kids]

/-- Non-vacuity: `<table style="display:inline-table"><thead></thead><tbody><tr>…` — first group empty, second
group with a row whose baseline is 7: the result is the bottom margin edge 0 + 20. -/
example : inlineBlockBaseline ⟨true, true, 0, 20,
    [.mk .table true 0 0 [.mk .other true 0 0 [], .mk .other true 0 0 [.mk .other true 0 7 []]]]⟩ = .ok 20 := by
  decide +kernel

example : inlineBlockBaseline ⟨true, true, 0, 20,
    [.mk .caption true 0 0 [], .mk .table true 0 0 [.mk .other true 0 0 [.mk .other true 0 7 []]]]⟩ = .ok 7 := by
  decide +kernel

/-- `find_in_flow_baseline` never looks inside a caption and never returns the baseline of an out-of-flow
child: with every child out of flow there is no baseline. -/
theorem findLastKid_all_out_of_flow (last : Bool) : ∀ kids : List IBox,
    (∀ k ∈ kids, match k with | .mk _ fl _ _ _ => fl = false) → findLastKid last kids = none
  | [], _ => by simp [findLastKid]
  | .mk kind fl y b ks :: rest, h => by
    have hfl : fl = false := by simpa using h (.mk kind fl y b ks) (by simp)
    have hrest := findLastKid_all_out_of_flow last rest (fun k hk => h k (by simp [hk]))
    simp [findLastKid, hrest, hfl]

/-! ### thumbnail size -/

/-- Both numbers given to `Image.thumbnail` are at least 1, for every image size and every dpi ratio (Pillow
divides by them). -/
theorem thumbSize_pos (w h : Nat) (ratio : Rat) : 1 ≤ (thumbSize w h ratio).1 ∧ 1 ≤ (thumbSize w h ratio).2 := by
  unfold thumbSize
  exact ⟨Int.le_max_left _ _, Int.le_max_left _ _⟩

/-- Non-vacuity: a 400×1 image at ratio 3/8 (shown 100px wide with dpi=150): `round(0.375) = 0`, clamped to 1. -/
example : thumbSize 400 1 (3 / 8) = (150, 1) := by decide +kernel

/-- Half to even, as Python: `round(0.5) = 0`, `round(1.5) = 2`, `round(2.5) = 2`. -/
example : roundHalfEven (1 / 2) = 0 ∧ roundHalfEven (3 / 2) = 2 ∧ roundHalfEven (5 / 2) = 2 := by decide +kernel

/-! ### growth checker -/

private theorem powk (b d : Nat) :
    (b * (3 * d) ^ 3 = 27 * (b * d ^ 3) ∧ b * (2 * d) ^ 3 = 8 * (b * d ^ 3) ∧ b * (4 * d) ^ 3 = 64 * (b * d ^ 3)) ∧
    (b * (3 * d) ^ 2 = 9 * (b * d ^ 2) ∧ b * (2 * d) ^ 2 = 4 * (b * d ^ 2) ∧ b * (4 * d) ^ 2 = 16 * (b * d ^ 2)) ∧
    (b * (3 * d) = 3 * (b * d) ∧ b * (2 * d) = 2 * (b * d) ∧ b * (4 * d) = 4 * (b * d)) := by
  refine ⟨⟨?_, ?_, ?_⟩, ⟨?_, ?_, ?_⟩, ⟨?_, ?_, ?_⟩⟩ <;> ring

/-- No false alarm: a cost `a + b·depth^k` with `k ≤ 3`, measured at depths `2d`, `3d`, `4d`, is accepted. -/
theorem growthOk_polynomial (a b d k : Nat) (hk : k ≤ 3) :
    growthOk (a + b * (2 * d) ^ k) (a + b * (3 * d) ^ k) (a + b * (4 * d) ^ k) = true := by
  unfold growthOk
  obtain ⟨h3, h2, h1⟩ := powk b d
  simp only [Bool.and_eq_true, decide_eq_true_eq]
  match k, hk with
  | 0, _ => simp only [Nat.pow_zero]; omega
  | 1, _ => simp only [Nat.pow_one]; omega
  | 2, _ => omega
  | 3, _ => omega

/-- A cost that doubles with every level is rejected as soon as the doubling part outweighs the constant
part: `a + b·2^n` at depths `n`, `n + m` (m ≥ 3) with `3a < b·2^n·(2^m − 4)`. -/
theorem growthOk_doubling (a b n m c3 : Nat) (h : 3 * a < b * 2 ^ n * (2 ^ m - 4)) :
    growthOk (a + b * 2 ^ n) (a + b * 2 ^ (n + m)) c3 = false := by
  unfold growthOk
  have hm : 4 ≤ 2 ^ m := by
    rcases Nat.lt_or_ge (2 ^ m) 4 with hlt | hge
    · have : 2 ^ m - 4 = 0 := by omega
      simp [this] at h
    · exact hge
  obtain ⟨e, he⟩ : ∃ e, 2 ^ m = e + 4 := ⟨2 ^ m - 4, by omega⟩
  have hx : b * 2 ^ (n + m) = b * 2 ^ n * e + 4 * (b * 2 ^ n) := by
    rw [Nat.pow_add, he]; ring
  have he' : 2 ^ m - 4 = e := by omega
  rw [he'] at h
  simp only [Bool.and_eq_false_iff, decide_eq_false_iff_not]
  left
  omega

/-- Non-vacuity (the numbers measured on nested tables with a table cache that never hits: the count doubles
with each level) and the acceptance of a linear and a cubic cost. -/
example : growthOk 11000 59000 440000 = false ∧ growthOk 4000 5500 7000 = true ∧
    growthOk (5 + 2 * 6 ^ 3) (5 + 2 * 9 ^ 3) (5 + 2 * 12 ^ 3) = true := by decide

end Wp.C02x
