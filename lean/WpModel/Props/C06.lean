/-
C06 — The cascade, inheritance and computed values select the right value.
Property theorems only (helper lemmas are `private`).  Statements are over the models of
`Model/Cascade`, `Model/Style`, `Model/Computed`, whose tables (`Gen/Precedence`, `Gen/Units`) are
regenerated from /repo on every run: an edit of a source table re-checks every `decide` below.
Core Lean only (no Mathlib).
-/
import WpModel.Model.StyleDoc
import WpModel.Gen.Precedence

namespace Wp.C06
open Wp Wp.Cascade Wp.Computed Wp.Style Wp.Gen.Units

/-! ## 1. precedence_table -/

def resultOpt : Except CErr Nat → Option Nat
  | .ok n => some n
  | .error _ => none

/-- The hand-written mirror of `declaration_precedence` agrees with the graph obtained by calling
the real function on its whole domain (and on an unknown origin). -/
theorem precedence_graph_agrees :
    ∀ e ∈ Gen.precedenceGraph, resultOpt (declarationPrecedence e.1 e.2.1) = e.2.2 := by decide

/-- Lookup in the generated graph. -/
def graphPrec (origin : String) (importance : Bool) : Option Nat :=
  match Gen.precedenceGraph.find? (fun e => e.1 == origin && e.2.1 == importance) with
  | some e => e.2.2
  | none => none

/-- `precedence_table`: the real function (its generated graph) realises exactly the order
user agent < user < author < author !important < user !important; importance is ignored for the
user-agent origin. -/
theorem precedence_table :
    ∃ ua u a ai ui : Nat,
      graphPrec "user agent" false = some ua ∧ graphPrec "user agent" true = some ua ∧
      graphPrec "user" false = some u ∧ graphPrec "author" false = some a ∧
      graphPrec "author" true = some ai ∧ graphPrec "user" true = some ui ∧
      ua < u ∧ u < a ∧ a < ai ∧ ai < ui := by
  refine ⟨1, 2, 3, 4, 5, ?_⟩
  decide

/-- The same on the model, for every importance flag, and totality on the three known origins. -/
theorem precedence_order (i : Bool) :
    declarationPrecedence "user agent" i = .ok 1 ∧
    declarationPrecedence "user" false = .ok 2 ∧ declarationPrecedence "author" false = .ok 3 ∧
    declarationPrecedence "author" true = .ok 4 ∧ declarationPrecedence "user" true = .ok 5 := by
  cases i <;> (refine ⟨?_, ?_, ?_, ?_, ?_⟩ <;> rfl)

/-- Injective on (origin, importance) apart from the user-agent origin ignoring importance. -/
theorem precedence_injective :
    ∀ e1 ∈ Gen.precedenceGraph, ∀ e2 ∈ Gen.precedenceGraph,
      e1.2.2.isSome → e1.2.2 = e2.2.2 → (e1.1 = e2.1 ∧ (e1.2.1 = e2.2.1 ∨ e1.1 = "user agent")) := by
  decide

example : declarationPrecedence "author" true = .ok 4 := rfl

/-! ## 2. cascade_refines_spec -/

private theorem pyListLe_refl (l : List Nat) : pyListLe l l = true := by
  induction l with
  | nil => rfl
  | cons a as ih => simp [pyListLe, ih]

private theorem pyListLe_total (l m : List Nat) : pyListLe l m = true ∨ pyListLe m l = true := by
  induction l generalizing m with
  | nil => left; rfl
  | cons a as ih =>
    cases m with
    | nil => right; rfl
    | cons b bs =>
      simp only [pyListLe]
      by_cases h1 : a < b
      · simp [h1]
      · by_cases h2 : b < a
        · simp [h1, h2]
        · simp [h1, h2]; exact ih bs

private theorem pyListLe_trans (l m n : List Nat) (h1 : pyListLe l m = true)
    (h2 : pyListLe m n = true) : pyListLe l n = true := by
  induction l generalizing m n with
  | nil => rfl
  | cons a as ih =>
    cases m with
    | nil => simp [pyListLe] at h1
    | cons b bs =>
      cases n with
      | nil => simp [pyListLe] at h2
      | cons c cs =>
        simp only [pyListLe] at h1 h2 ⊢
        by_cases hab : a < b
        · by_cases hbc : b < c
          · have : a < c := by omega
            simp [this]
          · by_cases hcb : c < b
            · simp [hbc, hcb] at h2
            · have : a < c := by omega
              simp [this]
        · by_cases hba : b < a
          · simp [hab, hba] at h1
          · simp only [hab, hba, if_false] at h1
            have hab' : a = b := by omega
            subst hab'
            by_cases hbc : a < c
            · simp [hbc]
            · by_cases hcb : c < a
              · simp [hbc, hcb] at h2
              · simp only [hbc, hcb, if_false] at h2 ⊢
                exact ih bs cs h1 h2

private theorem pyListLe_antisymm (l m : List Nat) (h1 : pyListLe l m = true)
    (h2 : pyListLe m l = true) : l = m := by
  induction l generalizing m with
  | nil => cases m with
    | nil => rfl
    | cons b bs => simp [pyListLe] at h2
  | cons a as ih =>
    cases m with
    | nil => simp [pyListLe] at h1
    | cons b bs =>
      simp only [pyListLe] at h1 h2
      by_cases hab : a < b
      · have : ¬ b < a := by omega
        simp [hab, this] at h2
      · by_cases hba : b < a
        · simp [hab, hba] at h1
        · simp only [hab, hba, if_false] at h1 h2
          have : a = b := by omega
          subst this
          rw [ih bs h1 h2]

/-- `old_weight <= weight` is a total preorder (reflexive, transitive, total) on weights with
specificities of *any* lengths (Python's sequence comparison), and antisymmetric. -/
theorem weight_le_refl (w : Weight) : w.le w = true := by
  simp [Weight.le, pyListLe_refl]

theorem weight_le_total (a b : Weight) : a.le b = true ∨ b.le a = true := by
  unfold Weight.le
  by_cases h1 : a.prec < b.prec
  · simp [h1]
  · by_cases h2 : b.prec < a.prec
    · simp [h2]
    · simp only [h1, h2, if_false]; exact pyListLe_total _ _

theorem weight_le_trans (a b c : Weight) (h1 : a.le b = true) (h2 : b.le c = true) :
    a.le c = true := by
  unfold Weight.le at *
  by_cases hab : a.prec < b.prec
  · by_cases hbc : b.prec < c.prec
    · have : a.prec < c.prec := by omega
      simp [this]
    · by_cases hcb : c.prec < b.prec
      · simp [hbc, hcb] at h2
      · have : a.prec < c.prec := by omega
        simp [this]
  · by_cases hba : b.prec < a.prec
    · simp [hab, hba] at h1
    · simp only [hab, hba, if_false] at h1
      by_cases hbc : b.prec < c.prec
      · have : a.prec < c.prec := by omega
        simp [this]
      · by_cases hcb : c.prec < b.prec
        · simp [hbc, hcb] at h2
        · simp only [hbc, hcb, if_false] at h2
          have h3 : ¬ a.prec < c.prec := by omega
          have h4 : ¬ c.prec < a.prec := by omega
          simp only [h3, h4, if_false]
          exact pyListLe_trans _ _ _ h1 h2

theorem weight_le_antisymm (a b : Weight) (h1 : a.le b = true) (h2 : b.le a = true) : a = b := by
  unfold Weight.le at *
  by_cases hab : a.prec < b.prec
  · have : ¬ b.prec < a.prec := by omega
    simp [hab, this] at h2
  · by_cases hba : b.prec < a.prec
    · simp [hab, hba] at h1
    · simp only [hab, hba, if_false] at h1 h2
      have hp : a.prec = b.prec := by omega
      have hs := pyListLe_antisymm _ _ h1 h2
      cases a; cases b; simp_all

/-- Lexicographic order on the five components of a weight whose specificity has the current
four components `(style attribute, ids, classes, types)`. -/
def lex5 (p a b c d p' a' b' c' d' : Nat) : Prop :=
  p < p' ∨ (p = p' ∧ (a < a' ∨ (a = a' ∧ (b < b' ∨ (b = b' ∧ (c < c' ∨ (c = c' ∧ d ≤ d')))))))

/-- With four-component specificities the tuple comparison is the lexicographic order of the
property statement: origin/importance rank, then style attribute, then ids, classes, types. -/
theorem weight_le_lex (p a b c d p' a' b' c' d' : Nat) :
    (Weight.le ⟨p, [a, b, c, d]⟩ ⟨p', [a', b', c', d']⟩ = true) ↔ lex5 p a b c d p' a' b' c' d' := by
  unfold Weight.le lex5
  simp only [pyListLe]
  constructor
  · intro h
    by_cases h0 : p < p'
    · left; exact h0
    · right
      by_cases h0' : p' < p
      · simp [h0, h0'] at h
      · simp only [h0, h0', if_false] at h
        refine ⟨by omega, ?_⟩
        by_cases h1 : a < a'
        · left; exact h1
        · right
          by_cases h1' : a' < a
          · simp [h1, h1'] at h
          · simp only [h1, h1', if_false] at h
            refine ⟨by omega, ?_⟩
            by_cases h2 : b < b'
            · left; exact h2
            · right
              by_cases h2' : b' < b
              · simp [h2, h2'] at h
              · simp only [h2, h2', if_false] at h
                refine ⟨by omega, ?_⟩
                by_cases h3 : c < c'
                · left; exact h3
                · right
                  by_cases h3' : c' < c
                  · simp [h3, h3'] at h
                  · simp only [h3, h3', if_false] at h
                    refine ⟨by omega, ?_⟩
                    by_cases h4 : d < d'
                    · omega
                    · by_cases h4' : d' < d
                      · simp [h4, h4'] at h
                      · omega
  · intro h
    rcases h with h | ⟨rfl, h⟩
    · simp [h]
    · simp only [Nat.lt_irrefl, if_false]
      rcases h with h | ⟨rfl, h⟩
      · simp [h]
      · simp only [Nat.lt_irrefl, if_false]
        rcases h with h | ⟨rfl, h⟩
        · simp [h]
        · simp only [Nat.lt_irrefl, if_false]
          rcases h with h | ⟨rfl, h⟩
          · simp [h]
          · simp only [Nat.lt_irrefl, if_false]
            by_cases h4 : d < d'
            · simp [h4]
            · have : ¬ d' < d := by omega
              simp [h4, this]

/-- The style attribute `(1, 0, 0, 0)` outranks every selector `(0, a, b, c)` of the same
origin/importance, however many ids the selector has (design-time defect F3, repaired). -/
theorem style_attr_outranks_selectors (p a b c : Nat) :
    Weight.le ⟨p, effectiveSpec none [a, b, c]⟩ ⟨p, [1, 0, 0, 0]⟩ = true ∧
    Weight.le ⟨p, [1, 0, 0, 0]⟩ ⟨p, effectiveSpec none [a, b, c]⟩ = false := by
  simp [Weight.le, effectiveSpec, pyListLe]

variable {α : Type}

/-- Spec: the winner among weighted declarations of one property, given in application order, is
the *last* declaration that no declaration of the list outweighs (maximum under
`(origin/importance, style attribute, specificity)`, ties broken by order). -/
def winner (ds : List (α × Weight)) : Option (α × Weight) :=
  (ds.filter (fun d => ds.all (fun e => e.2.le d.2))).getLast?

private theorem snoc_induction {β : Type} {P : List β → Prop} (nil : P [])
    (snoc : ∀ l x, P l → P (l ++ [x])) : ∀ l, P l := by
  intro l
  have h : ∀ r : List β, P r.reverse := by
    intro r
    induction r with
    | nil => exact nil
    | cons x r ih => rw [List.reverse_cons]; exact snoc _ _ ih
  simpa using h l.reverse

private theorem foldOne_append (ds : List (α × Weight)) (d : α × Weight) :
    foldOne (ds ++ [d]) = foldStep (foldOne ds) d := by
  simp [foldOne, List.foldl_append]

private theorem foldOne_none (ds : List (α × Weight)) : foldOne ds = none ↔ ds = [] := by
  induction ds using snoc_induction with
  | nil => simp [foldOne]
  | snoc ds d ih =>
    rw [foldOne_append]
    cases h : foldOne ds <;> simp [foldStep] <;> split <;> simp

/-- A winner is a declaration of the list and no declaration outweighs it. -/
theorem winner_max (ds : List (α × Weight)) (m : α × Weight) (h : winner ds = some m) :
    m ∈ ds ∧ ∀ e ∈ ds, e.2.le m.2 = true := by
  unfold winner at h
  have hm := List.mem_of_getLast? h
  rw [List.mem_filter] at hm
  refine ⟨hm.1, ?_⟩
  intro e he
  have := hm.2
  rw [List.all_eq_true] at this
  exact this e he

/-- `cascade_refines_spec` (single property): the fold of `StyleFor.__init__`
(`if old_weight is None or old_weight <= weight: replace`) over *any* list of weighted declarations
returns the spec's winner. -/
theorem fold_eq_winner (ds : List (α × Weight)) : foldOne ds = winner ds := by
  induction ds using snoc_induction with
  | nil => rfl
  | snoc ds d ih =>
    rw [foldOne_append]
    cases hf : foldOne ds with
    | none =>
      have : ds = [] := (foldOne_none ds).mp hf
      subst this
      simp [foldStep, winner, weight_le_refl]
    | some m =>
      rw [hf] at ih
      obtain ⟨hm, hmax⟩ := winner_max ds m ih.symm
      simp only [foldStep]
      by_cases hmd : m.2.le d.2 = true
      · simp only [hmd, if_true]
        have hall : (ds ++ [d]).all (fun e => e.2.le d.2) = true := by
          rw [List.all_eq_true]
          intro e he
          rw [List.mem_append] at he
          rcases he with he | he
          · exact weight_le_trans _ _ _ (hmax e he) hmd
          · simp at he; subst he; exact weight_le_refl _
        unfold winner
        rw [List.filter_append]
        have hd : [d].filter (fun x => (ds ++ [d]).all (fun e => e.2.le x.2)) = [d] := by
          simp only [List.filter_cons, List.filter_nil, hall, if_true]
        rw [hd, List.getLast?_concat]
      · simp only [hmd]
        have hdm : d.2.le m.2 = true := by
          rcases weight_le_total m.2 d.2 with h | h
          · exact absurd h hmd
          · exact h
        have hfilter : (ds ++ [d]).filter (fun x => (ds ++ [d]).all (fun e => e.2.le x.2)) =
            ds.filter (fun x => ds.all (fun e => e.2.le x.2)) := by
          rw [List.filter_append]
          have hd : ([d].filter (fun x => (ds ++ [d]).all (fun e => e.2.le x.2))) = [] := by
            simp only [List.filter_cons, List.filter_nil]
            have : (ds ++ [d]).all (fun e => e.2.le d.2) = false := by
              rw [Bool.eq_false_iff]
              intro hc
              rw [List.all_eq_true] at hc
              exact hmd (hc m (List.mem_append_left _ hm))
            simp [this]
          rw [hd, List.append_nil]
          apply List.filter_congr
          intro x hx
          simp only [List.all_append, List.all_cons, List.all_nil, Bool.and_true]
          by_cases hxa : ds.all (fun e => e.2.le x.2) = true
          · have hmx : m.2.le x.2 = true := by
              rw [List.all_eq_true] at hxa; exact hxa m hm
            have : d.2.le x.2 = true := weight_le_trans _ _ _ hdm hmx
            simp [hxa, this]
          · simp [hxa]
        unfold winner at ih ⊢
        rw [hfilter, ← ih]
        simp


/-- The declarations of one property, in application order. -/
def declsFor (name : String) (ds : List (WDecl α)) : List (α × Weight) :=
  (ds.filter (fun d => d.name == name)).map (fun d => (d.value, d.weight))

private theorem get_set_same (st : CStyle α) (k : String) (v : α × Weight) : (st.set k v).get k = some v := by
  induction st with
  | nil => simp [CStyle.set, CStyle.get]
  | cons p rest ih =>
    obtain ⟨a, w⟩ := p
    simp only [CStyle.set]
    by_cases h : (a == k) = true
    · simp [h, CStyle.get]
    · simp [h, CStyle.get, ih]

private theorem get_set_other (st : CStyle α) (k k' : String) (v : α × Weight) (hne : k' ≠ k) :
    (st.set k v).get k' = st.get k' := by
  induction st with
  | nil =>
    have : (k == k') = false := by simp; exact fun h => hne h.symm
    simp [CStyle.set, CStyle.get, this]
  | cons p rest ih =>
    obtain ⟨a, w⟩ := p
    simp only [CStyle.set]
    by_cases h : (a == k) = true
    · have hak : a = k := by simpa using h
      have : (a == k') = false := by simp [hak]; exact fun h => hne h.symm
      simp [h, CStyle.get, this]
    · by_cases h2 : (a == k') = true
      · simp [h, CStyle.get, h2]
      · simp [h, CStyle.get, h2, ih]

private theorem applyDecl_get (st : CStyle α) (d : WDecl α) (name : String) :
    (applyDecl st d).get name =
      if d.name == name then foldStep (st.get name) (d.value, d.weight) else st.get name := by
  unfold applyDecl
  by_cases h : (d.name == name) = true
  · have e : d.name = name := by simpa using h
    subst e
    simp only [h, if_true]
    cases hg : st.get d.name with
    | none => simp [foldStep, get_set_same]
    | some old =>
      simp only [foldStep]
      by_cases hle : old.2.le d.weight = true
      · simp [hle, get_set_same]
      · simp [hle, hg]
  · have hne : name ≠ d.name := by
      intro e; apply h; simp [e]
    simp only [h]
    cases hg : st.get d.name with
    | none => simp [get_set_other _ _ _ _ hne]
    | some old =>
      simp only []
      by_cases hle : old.2.le d.weight = true
      · simp [hle, get_set_other _ _ _ _ hne]
      · simp [hle]

private theorem foldl_applyDecl_get (ds : List (WDecl α)) (st : CStyle α) (name : String) :
    (ds.foldl applyDecl st).get name = (declsFor name ds).foldl foldStep (st.get name) := by
  induction ds generalizing st with
  | nil => simp [declsFor]
  | cons d ds ih =>
    simp only [List.foldl_cons]
    rw [ih, applyDecl_get]
    by_cases h : (d.name == name) = true
    · simp [declsFor, h]
    · simp [declsFor, h]

/-- Properties do not interact: what `cascaded_styles[(element, pseudo)][name]` holds after the
loops is the single-property fold over the declarations of that name. -/
theorem applyAll_get (ds : List (WDecl α)) (name : String) :
    (applyAll ds).get name = foldOne (declsFor name ds) := by
  unfold applyAll foldOne
  rw [foldl_applyDecl_get]
  rfl

theorem cascade_refines_spec (ds : List (WDecl α)) (name : String) :
    (applyAll ds).get name = winner (declsFor name ds) := by
  rw [applyAll_get, fold_eq_winner]


/-- There is a winner as soon as there is a declaration. -/
theorem winner_none_iff (ds : List (α × Weight)) : winner ds = none ↔ ds = [] := by
  rw [← fold_eq_winner]; exact foldOne_none ds

/-- Element level: whatever the style attributes, hints and sheets of an element are, the cascaded
value of each property is the spec's winner among the weighted declarations in application order
(attributes and hints, then the sheets in list order, each in the matcher's order). -/
theorem element_cascade_spec (attrs : List (AttrBlock α)) (sheets : List (SheetMatches α))
    (pseudo : Option String) (ds : List (WDecl α)) (h : elementDecls attrs sheets pseudo = .ok ds)
    (name : String) :
    (elementCascade attrs sheets pseudo).map (fun st => st.get name) = .ok (winner (declsFor name ds)) := by
  unfold elementCascade
  rw [h]
  simp [Except.map, cascade_refines_spec]

/-- "then specificity, with the style attribute above any selector": if a style-attribute
declaration `(p, (1,0,0,0))` competes with declarations of precedence at most `p` that are style
attributes or selectors `(0,a,b,c)`, a style-attribute declaration of precedence `p` wins. -/
theorem style_attr_wins (ds : List (α × Weight)) (p : Nat) (d : α × Weight) (hd : d ∈ ds)
    (hw : d.2 = ⟨p, [1, 0, 0, 0]⟩)
    (hall : ∀ e ∈ ds, e.2.prec ≤ p ∧ (e.2.spec = [1, 0, 0, 0] ∨ ∃ a b c, e.2.spec = [0, a, b, c])) :
    ∃ m, winner ds = some m ∧ m.2 = ⟨p, [1, 0, 0, 0]⟩ := by
  cases hwin : winner ds with
  | none =>
    have : ds = [] := (winner_none_iff ds).mp hwin
    subst this; cases hd
  | some m =>
    refine ⟨m, rfl, ?_⟩
    obtain ⟨hm, hmax⟩ := winner_max ds m hwin
    have hdm := hmax d hd
    obtain ⟨hp, hs⟩ := hall m hm
    rw [hw] at hdm
    unfold Weight.le at hdm
    simp only at hdm
    by_cases h1 : p < m.2.prec
    · omega
    · by_cases h2 : m.2.prec < p
      · simp [h1, h2] at hdm
      · simp only [h1, h2, if_false] at hdm
        have hpe : m.2.prec = p := by omega
        rcases hs with hs | ⟨a, b, c, hs⟩
        · cases hm2 : m.2 with
          | mk pr sp => rw [hm2] at hpe hs; simp at hpe hs; rw [hpe, hs]
        · rw [hs] at hdm; simp [pyListLe] at hdm

/-! ### the cascade order is a strict total order, and the fold returns its maximum -/

/-- `i` comes strictly before `j` in the cascade's sort order: lighter weight, or equal weight and
earlier in application (source) order. -/
def cascadeBefore (ws : List Weight) (i j : Nat) : Prop :=
  ∃ a b, ws[i]? = some a ∧ ws[j]? = some b ∧
    ((a.le b = true ∧ b.le a = false) ∨ (a = b ∧ i < j))

/-- The cascade order — (origin and importance, style attribute, specificity), then source
index — is a strict total order on the declarations of one property: any two different
declarations are comparable, never both ways. -/
theorem cascade_order_total (ws : List Weight) (i j : Nat) (hi : i < ws.length) (hj : j < ws.length)
    (hne : i ≠ j) : (cascadeBefore ws i j ∨ cascadeBefore ws j i) ∧
      ¬ (cascadeBefore ws i j ∧ cascadeBefore ws j i) := by
  have ha : ws[i]? = some ws[i] := List.getElem?_eq_getElem hi
  have hb : ws[j]? = some ws[j] := List.getElem?_eq_getElem hj
  constructor
  · cases hab : (ws[i]).le ws[j] <;> cases hba : (ws[j]).le ws[i]
    · rcases weight_le_total ws[i] ws[j] with h | h <;> simp_all
    · right; exact ⟨_, _, hb, ha, Or.inl ⟨hba, hab⟩⟩
    · left; exact ⟨_, _, ha, hb, Or.inl ⟨hab, hba⟩⟩
    · have he := weight_le_antisymm _ _ hab hba
      rcases Nat.lt_or_gt_of_ne hne with h | h
      · left; exact ⟨_, _, ha, hb, Or.inr ⟨he, h⟩⟩
      · right; exact ⟨_, _, hb, ha, Or.inr ⟨he.symm, h⟩⟩
  · rintro ⟨⟨a, b, h1, h2, h3⟩, ⟨b', a', h4, h5, h6⟩⟩
    rw [h1] at h5; rw [h2] at h4
    cases h5; cases h4
    rcases h3 with ⟨x1, x2⟩ | ⟨e1, l1⟩ <;> rcases h6 with ⟨y1, y2⟩ | ⟨e2, l2⟩
    · rw [x1] at y2; cases y2
    · subst e2; rw [x1] at x2; cases x2
    · subst e1; rw [y1] at y2; cases y2
    · omega

theorem cascade_order_trans (ws : List Weight) (i j k : Nat) (h1 : cascadeBefore ws i j)
    (h2 : cascadeBefore ws j k) : cascadeBefore ws i k := by
  obtain ⟨a, b, ha, hb, hab⟩ := h1
  obtain ⟨b', c, hb', hc, hbc⟩ := h2
  rw [hb] at hb'; cases hb'
  refine ⟨a, c, ha, hc, ?_⟩
  rcases hab with ⟨x1, x2⟩ | ⟨e1, l1⟩ <;> rcases hbc with ⟨y1, y2⟩ | ⟨e2, l2⟩
  · left
    refine ⟨weight_le_trans _ _ _ x1 y1, ?_⟩
    cases hca : c.le a with
    | false => rfl
    | true => have := weight_le_trans _ _ _ hca x1; rw [this] at y2; cases y2
  · subst e2; left; exact ⟨x1, x2⟩
  · subst e1; left; exact ⟨y1, y2⟩
  · subst e1; subst e2; right; exact ⟨rfl, by omega⟩


/-- Index form of the fold's result: it sits at some position `i`, nothing outweighs it, and
everything after `i` is strictly lighter. -/
theorem fold_index_spec (ds : List (α × Weight)) (m : α × Weight) (h : foldOne ds = some m) :
    ∃ i : Nat, ds[i]? = some m ∧ (∀ (j : Nat) (e : α × Weight), ds[j]? = some e → e.2.le m.2 = true) ∧
      (∀ (j : Nat) (e : α × Weight), i < j → ds[j]? = some e → m.2.le e.2 = false) := by
  induction ds using snoc_induction generalizing m with
  | nil => simp [foldOne] at h
  | snoc ds d ih =>
    rw [foldOne_append] at h
    cases hf : foldOne ds with
    | none =>
      have hnil : ds = [] := (winner_none_iff ds).mp (by rw [← fold_eq_winner]; exact hf)
      subst hnil
      rw [hf] at h
      simp only [foldStep, Option.some.injEq] at h
      subst h
      refine ⟨0, by simp, ?_, ?_⟩
      · intro j e he
        cases j with
        | zero => simp at he; subst he; exact weight_le_refl _
        | succ n => simp at he
      · intro j e hj he
        cases j with
        | zero => omega
        | succ n => simp at he
    | some m0 =>
      rw [hf] at h
      obtain ⟨i, hi, hmax, hlater⟩ := ih m0 hf
      have hilt : i < ds.length := by
        have := List.getElem?_eq_some_iff.mp hi; exact this.1
      simp only [foldStep] at h
      by_cases hle : m0.2.le d.2 = true
      · simp only [hle, if_true, Option.some.injEq] at h
        subst h
        refine ⟨ds.length, by simp, ?_, ?_⟩
        · intro j e he
          by_cases hj : j < ds.length
          · rw [List.getElem?_append_left hj] at he
            exact weight_le_trans _ _ _ (hmax j e he) hle
          · have : j = ds.length ∨ ds.length < j := by omega
            rcases this with rfl | hgt
            · simp at he; subst he; exact weight_le_refl _
            · rw [List.getElem?_eq_none (by simp; omega)] at he; cases he
        · intro j e hj he
          rw [List.getElem?_eq_none (by simp; omega)] at he; cases he
      · have hle' : m0.2.le d.2 = false := by simpa using hle
        simp only [hle', Bool.false_eq_true, if_false, Option.some.injEq] at h
        subst h
        refine ⟨i, by rw [List.getElem?_append_left hilt]; exact hi, ?_, ?_⟩
        · intro j e he
          by_cases hj : j < ds.length
          · rw [List.getElem?_append_left hj] at he
            exact hmax j e he
          · have : j = ds.length ∨ ds.length < j := by omega
            rcases this with rfl | hgt
            · simp at he; rw [← he]
              rcases weight_le_total m0.2 d.2 with h' | h'
              · rw [hle'] at h'; cases h'
              · exact h'
            · rw [List.getElem?_eq_none (by simp; omega)] at he; cases he
        · intro j e hij he
          by_cases hj : j < ds.length
          · rw [List.getElem?_append_left hj] at he
            exact hlater j e hij he
          · have : j = ds.length ∨ ds.length < j := by omega
            rcases this with rfl | hgt
            · simp at he; rw [← he]; exact hle'
            · rw [List.getElem?_eq_none (by simp; omega)] at he; cases he

/-- The cascaded value is the *maximum* of the strict total order `cascadeBefore`: every other
declaration of the property comes before the winner (lighter, or equally heavy and earlier). -/
theorem winner_is_maximum (ds : List (α × Weight)) (m : α × Weight) (h : winner ds = some m) :
    ∃ i : Nat, ds[i]? = some m ∧
      ∀ j : Nat, j ≠ i → j < ds.length → cascadeBefore (ds.map (fun d => d.2)) j i := by
  rw [← fold_eq_winner] at h
  obtain ⟨i, hi, hmax, hlater⟩ := fold_index_spec ds m h
  refine ⟨i, hi, ?_⟩
  intro j hne hj
  have hje : ds[j]? = some ds[j] := List.getElem?_eq_getElem hj
  have h1 := hmax j _ hje
  refine ⟨(ds[j]).2, m.2, by simp [hje], by simp [hi], ?_⟩
  rcases Nat.lt_or_gt_of_ne hne with hlt | hgt
  · cases hm : m.2.le (ds[j]).2 with
    | false => left; exact ⟨h1, rfl⟩
    | true => right; exact ⟨weight_le_antisymm _ _ h1 hm, hlt⟩
  · left; exact ⟨h1, hlater j _ hgt hje⟩


/-! ### the matcher's sort -/

private theorem pyListLt_eq_not_le (a b : List Nat) : pyListLt a b = !pyListLe b a := by
  induction a generalizing b with
  | nil => cases b <;> simp [pyListLt, pyListLe]
  | cons x xs ih =>
    cases b with
    | nil => simp [pyListLt, pyListLe]
    | cons y ys =>
      simp only [pyListLt, pyListLe]
      by_cases h1 : x < y
      · have : ¬ y < x := by omega
        simp [h1, this]
      · by_cases h2 : y < x
        · simp [h1, h2]
        · simp [h1, h2, ih]

/-- `a` is not after `b` in the matcher's sort. -/
def mle (a b : Matched α) : Prop := matchedLt b a = false

private theorem mle_iff (a b : Matched α) :
    mle a b ↔ pyListLe a.spec b.spec = true ∧ (pyListLe b.spec a.spec = false ∨ a.order ≤ b.order) := by
  unfold mle matchedLt
  rw [pyListLt_eq_not_le, pyListLt_eq_not_le]
  cases h1 : pyListLe a.spec b.spec <;> cases h2 : pyListLe b.spec a.spec <;> simp

private theorem mle_total (a b : Matched α) : mle a b ∨ mle b a := by
  rw [mle_iff, mle_iff]
  cases h1 : pyListLe a.spec b.spec <;> cases h2 : pyListLe b.spec a.spec <;> simp
  · rcases pyListLe_total a.spec b.spec with h | h <;> simp_all
  · omega

private theorem mle_trans (a b c : Matched α) (h1 : mle a b) (h2 : mle b c) : mle a c := by
  rw [mle_iff] at *
  obtain ⟨hab, hab'⟩ := h1
  obtain ⟨hbc, hbc'⟩ := h2
  refine ⟨pyListLe_trans _ _ _ hab hbc, ?_⟩
  cases hca : pyListLe c.spec a.spec with
  | false => left; rfl
  | true =>
    right
    have hcb : pyListLe c.spec b.spec = true := pyListLe_trans _ _ _ hca hab
    have hba : pyListLe b.spec a.spec = true := pyListLe_trans _ _ _ hbc hca
    simp [hcb] at hbc'
    simp [hba] at hab'
    omega

private theorem mem_insertMatched (x z : Matched α) (l : List (Matched α)) :
    z ∈ insertMatched x l ↔ z = x ∨ z ∈ l := by
  induction l with
  | nil => simp [insertMatched]
  | cons y rest ih =>
    simp only [insertMatched]
    split
    · simp
    · simp [ih]; constructor <;> (intro h; rcases h with h | h | h <;> simp [h])

private theorem insertMatched_sorted (x : Matched α) (l : List (Matched α))
    (h : l.Pairwise mle) : (insertMatched x l).Pairwise mle := by
  induction l with
  | nil => simp [insertMatched]
  | cons y rest ih =>
    rw [List.pairwise_cons] at h
    simp only [insertMatched]
    by_cases hlt : matchedLt x y = true
    · simp only [hlt, if_true]
      have hxy : mle x y := by
        rcases mle_total x y with h' | h'
        · exact h'
        · unfold mle at h'; rw [hlt] at h'; cases h'
      rw [List.pairwise_cons]
      refine ⟨?_, List.pairwise_cons.mpr h⟩
      intro z hz
      rcases List.mem_cons.mp hz with e | hz
      · subst e; exact hxy
      · exact mle_trans _ _ _ hxy (h.1 z hz)
    · have hlt' : matchedLt x y = false := by simpa using hlt
      simp only [hlt', Bool.false_eq_true, if_false]
      have hyx : mle y x := hlt'
      rw [List.pairwise_cons]
      refine ⟨?_, ih h.2⟩
      intro z hz
      rcases (mem_insertMatched x z rest).mp hz with e | hz
      · subst e; exact hyx
      · exact h.1 z hz

private theorem insertMatched_perm (x : Matched α) (l : List (Matched α)) :
    (insertMatched x l).Perm (x :: l) := by
  induction l with
  | nil => simp [insertMatched]
  | cons y rest ih =>
    simp only [insertMatched]
    split
    · exact List.Perm.refl _
    · exact (List.Perm.cons y ih).trans (List.Perm.swap x y rest)

/-- `Matcher.match`'s sort: the result is a permutation of the matching selectors, ordered by
(specificity, order of addition) — so, inside one sheet, declarations are applied from the least
specific selector to the most specific one and, among equal specificities, in source order. -/
theorem sortMatched_perm (l : List (Matched α)) : (sortMatched l).Perm l := by
  induction l with
  | nil => exact List.Perm.refl _
  | cons x rest ih =>
    simp only [sortMatched, List.foldr_cons]
    exact (insertMatched_perm x _).trans (List.Perm.cons x ih)

theorem sortMatched_sorted (l : List (Matched α)) : (sortMatched l).Pairwise mle := by
  induction l with
  | nil => simp [sortMatched]
  | cons x rest ih =>
    simp only [sortMatched, List.foldr_cons]
    exact insertMatched_sorted x _ ih


/-! ## 3. inherit_initial (the skeleton of `ComputedStyle.__missing__`) -/


@[simp] theorem isKw_kw (s t : String) : (Val.kw s).isKw t = (s == t) := rfl

def plainKey (key : String) : Prop := isTextDecoration key = false ∧ key ≠ "page"

theorem inherited_plain :
    ∀ k ∈ inherited, isTextDecoration k = false ∧ k ≠ "page" ∧ isCustom k = false := by decide

/-- (a) no cascaded declaration, inherited (or custom) property, not the root: the parent's
computed value, taken as it is (no computing function is applied again). -/
theorem not_cascaded_inherits (e : Elem) (get : String → Except CErr Val) (key : String)
    (hc : lookup key e.cascaded = none) (hi : isInherited key = true ∨ isCustom key = true)
    (hp : plainKey key) :
    specified e (some get) key = (get key).map (fun v => (v, true)) := by
  obtain ⟨htd, hpage⟩ := hp
  have hinh : (isInherited key || isCustom key) = true := by
    rcases hi with h | h <;> simp [h]
  unfold specified specified123 specified4
  simp [hc, hinh, Val.isKw, parentValue, htd, hpage]
  cases get key <;> rfl

/-- What "the initial value" is for `__missing__`: `INITIAL_VALUES[key]`, stored as the computed
value unless the key is in `INITIAL_NOT_COMPUTED`; `[]` for a custom property. -/
def initialResult (key : String) : Except CErr (Val × Bool) :=
  if isCustom key then .ok (.strs [], !(initialNotComputed.contains key))
  else (initialValue key).map (fun v => (v, !(initialNotComputed.contains key)))

/-- (b) no cascaded declaration, property neither inherited nor custom: the initial value,
with or without a parent. -/
theorem not_cascaded_initial (e : Elem) (parent : ParentGet) (key : String)
    (hc : lookup key e.cascaded = none) (hi : isInherited key = false) (hcu : isCustom key = false)
    (htd : isTextDecoration key = false ∨ parent = none) (hpage : key ≠ "page") :
    specified e parent key = initialResult key := by
  unfold specified specified123 specified4 initialResult
  have htd' : (isTextDecoration key && parent.isSome) = false := by
    rcases htd with h | h <;> simp [h]
  simp [hc, hi, hcu, Val.isKw, htd', hpage]
  cases initialValue key <;> cases h : initialNotComputed.contains key <;> simp_all <;> rfl


/-- (c) `inherit` on the root element is the initial value. -/
theorem inherit_on_root (e : Elem) (key : String)
    (hc : lookup key e.cascaded = some (.val (.kw "inherit"))) (hpage : key ≠ "page") :
    specified e none key = initialResult key := by
  unfold specified specified123 specified4 initialResult
  simp [hc, Val.isKw, hpage]
  by_cases hcu : isCustom key = true
  · simp [hcu]
    cases h : initialNotComputed.contains key <;> simp_all <;> rfl
  · simp [hcu]
    cases initialValue key <;> cases h : initialNotComputed.contains key <;> simp_all <;> rfl

/-- (d) `initial` is always the initial value, whatever the parent and whether or not the
property is inherited. -/
theorem initial_honoured (e : Elem) (parent : ParentGet) (key : String)
    (hc : lookup key e.cascaded = some (.val (.kw "initial")))
    (htd : isTextDecoration key = false ∨ parent = none) (hpage : key ≠ "page") :
    specified e parent key = initialResult key := by
  unfold specified specified123 specified4 initialResult
  have htd' : (isTextDecoration key && parent.isSome) = false := by
    rcases htd with h | h <;> simp [h]
  simp [hc, Val.isKw, hpage, htd']
  by_cases hcu : isCustom key = true
  · simp [hcu]
    cases h : initialNotComputed.contains key <;> simp_all <;> rfl
  · simp [hcu]
    cases initialValue key <;> cases h : initialNotComputed.contains key <;> simp_all <;> rfl

/-- (e) `inherit` below the root is the parent's computed value, inherited property or not. -/
theorem inherit_honoured (e : Elem) (get : String → Except CErr Val) (key : String)
    (hc : lookup key e.cascaded = some (.val (.kw "inherit"))) (hp : plainKey key) :
    specified e (some get) key = (get key).map (fun v => (v, true)) := by
  obtain ⟨htd, hpage⟩ := hp
  unfold specified specified123 specified4
  simp [hc, Val.isKw, parentValue, htd, hpage]
  cases get key <;> rfl

/-- (f) any other cascaded value is used (and then computed). -/
theorem cascaded_value_used (e : Elem) (parent : ParentGet) (key : String) (v : Val)
    (hc : lookup key e.cascaded = some (.val v))
    (h1 : v.isKw "inherit" = false) (h2 : v.isKw "initial" = false)
    (htd : isTextDecoration key = false ∨ parent = none) (hpage : key ≠ "page") :
    specified e parent key = .ok (v, false) := by
  unfold specified specified123 specified4
  have htd' : (isTextDecoration key && parent.isSome) = false := by
    rcases htd with h | h <;> simp [h]
  simp [hc, h1, h2, hpage, htd']
  rfl

private theorem lookup_mem {β : Type} (k : String) (l : List (String × β)) (v : β) (h : lookup k l = some v) :
    (k, v) ∈ l := by
  induction l with
  | nil => simp [lookup] at h
  | cons p rest ih =>
    obtain ⟨a, b⟩ := p
    simp only [lookup] at h
    by_cases hak : (a == k) = true
    · simp [hak] at h
      have : a = k := by simpa using hak
      subst this; subst h; simp
    · simp [hak] at h
      exact List.mem_cons_of_mem _ (ih h)

/-- No initial value is the keyword `inherit` or `initial` (generated `INITIAL_VALUES`). -/
theorem initial_values_not_keywords :
    ∀ p ∈ initialValues, p.2.isKw "inherit" = false ∧ p.2.isKw "initial" = false := by decide +kernel

private theorem initialValue_not_keyword (key : String) (v : Val) (h : initialValue key = .ok v) :
    v.isKw "inherit" = false ∧ v.isKw "initial" = false := by
  unfold initialValue at h
  cases hl : lookup key initialValues with
  | none => simp [hl] at h; split at h <;> simp at h
  | some w =>
    simp [hl] at h
    subst h
    exact initial_values_not_keywords _ (lookup_mem _ _ _ hl)

/-- (g) a pending `var()` value that fails validation falls back to the inherited value for an
inherited property below the root (`hv`: computed values are never the keywords themselves) … -/
theorem pending_invalid_inherits (e : Elem) (get : String → Except CErr Val) (key : String)
    (hc : lookup key e.cascaded = some (.pending none)) (hi : isInherited key = true)
    (hv : ∀ v, get key = .ok v → v.isKw "inherit" = false ∧ v.isKw "initial" = false) :
    specified e (some get) key = (get key).map (fun v => (v, true)) := by
  have hp := inherited_plain key (by simpa [isInherited] using hi)
  unfold specified specified123 specified4
  simp [hc, hi, parentValue, hp.1, hp.2.1]
  cases hg : get key with
  | error err => rfl
  | ok v =>
    have := hv v hg
    simp [bind, Except.bind, this, pure, Except.pure, Except.map]

/-- … and to the initial value otherwise (not inherited, or on the root). -/
theorem pending_invalid_initial (e : Elem) (parent : ParentGet) (key : String)
    (hc : lookup key e.cascaded = some (.pending none))
    (hi : isInherited key = false ∨ parent = none)
    (htd : isTextDecoration key = false ∨ parent = none) (hpage : key ≠ "page") :
    specified e parent key = (initialValue key).map (fun v => (v, !(initialNotComputed.contains key))) := by
  have hi' : (isInherited key && parent.isSome) = false := by
    rcases hi with h | h <;> simp [h]
  have htd' : (isTextDecoration key && parent.isSome) = false := by
    rcases htd with h | h <;> simp [h]
  unfold specified specified123 specified4
  simp [hc, hi', htd', hpage]
  cases hiv : initialValue key with
  | error err => rfl
  | ok v =>
    have := initialValue_not_keyword key v hiv
    simp [bind, Except.bind, this, pure, Except.pure, Except.map]
    cases h : initialNotComputed.contains key <;> simp_all

/-- (h) a pending value that validates is used exactly like a directly cascaded value, for every
solved value `v` and with or without a parent — including the keyword `inherit` on the root element,
which is the initial value (full strength since commit 582f36b moved the root test after the
substitution; before, `Witness.C06.var_inherit_on_root` refuted it and the theorem was
`pending_valid_partial` with the hypothesis "`v` is not `inherit`, or not the root"). -/
theorem pending_valid (e e' : Elem) (parent : ParentGet) (key : String) (v : Val)
    (hc : lookup key e.cascaded = some (.pending (some v)))
    (hc' : lookup key e'.cascaded = some (.val v)) :
    specified e parent key = specified e' parent key := by
  unfold specified specified123 specified4
  simp [hc, hc']

/-- … in particular `var()` solved to `inherit` on the root element is the initial value (the input
of the repaired finding `var-inherit-on-root`, for every property). -/
theorem pending_inherit_on_root (e : Elem) (key : String)
    (hc : lookup key e.cascaded = some (.pending (some (.kw "inherit")))) (hpage : key ≠ "page") :
    specified e none key = initialResult key := by
  have h := pending_valid e ⟨[(key, .val (.kw "inherit"))], none, [], none⟩ none key (.kw "inherit") hc
    (by simp [lookup])
  rw [h]
  exact inherit_on_root _ key (by simp [lookup]) hpage

example : (specified ⟨[("width", .pending (some (.kw "inherit")))], none, [], none⟩ none "width").toOption
    = some (.kw "auto", true) := by decide

/-- An element without any cascaded declaration (`AnonymousStyle`): inherited and custom
properties take the parent's value, every other plain property its initial value. -/
theorem anonymous_inherits (get : String → Except CErr Val) (key : String)
    (hi : isInherited key = true ∨ isCustom key = true)
    (hb : ["border_top_width", "border_bottom_width", "border_left_width", "border_right_width",
           "outline_width"].contains key = false) :
    anonymousKey get key = get key := by
  unfold anonymousKey
  simp only [hb, Bool.false_eq_true, if_false]
  rcases hi with h | h <;> simp [h]

theorem anonymous_initial (get : String → Except CErr Val) (key : String)
    (hi : isInherited key = false) (hc : isCustom key = false) (hp : plainKey key)
    (hb : ["border_top_width", "border_bottom_width", "border_left_width", "border_right_width",
           "outline_width"].contains key = false) :
    anonymousKey get key = initialValue key := by
  unfold anonymousKey
  simp only [hb, Bool.false_eq_true, if_false]
  simp [hi, hc, hp.1, hp.2]

/-- On the root element `rem` (and `em` / `%` on `font-size`) refer to the initial font size:
`root_style = {'font_size': INITIAL_VALUES['font_size']}`, `parent_style is None`. -/
theorem root_style_is_initial (rf : Unit → Except CErr Rat) (ex ch : Rat) (e : Elem) :
    styleAtWith rf ex ch [e] = styleKey e none (fun _ => .ok initialFontSize) ex ch := rfl

/-- Below the root, `root_style` is the root element's computed style and `parent_style` the
parent's (for a pseudo-element: its element's). -/
theorem child_style_uses_parent_and_root (rf : Unit → Except CErr Rat) (ex ch : Rat) (e p : Elem)
    (rest : List Elem) :
    styleAtWith rf ex ch (e :: p :: rest) =
      styleKey e (some (styleAtWith rf ex ch (p :: rest))) rf ex ch := rfl


/-! ### every property of the generated tables -/

/-- The generated `INITIAL_VALUES` table has an entry for every key (the two generated lists are
the same dict). -/
theorem initial_table_complete : initialKeys = initialValues.map (fun p => p.1) := by rfl

private theorem lookup_of_mem_keys {β : Type} (l : List (String × β)) (k : String)
    (h : k ∈ l.map (fun p => p.1)) : ∃ v, lookup k l = some v := by
  induction l with
  | nil => simp at h
  | cons p rest ih =>
    obtain ⟨a, b⟩ := p
    simp only [lookup]
    by_cases hak : (a == k) = true
    · exact ⟨b, by simp [hak]⟩
    · simp only [hak, Bool.false_eq_true, if_false]
      apply ih
      simp only [List.map_cons, List.mem_cons] at h
      rcases h with h | h
      · exfalso; apply hak; simp [h]
      · exact h

/-- Every property has an initial value: `INITIAL_VALUES[key]` never raises for a real property. -/
theorem initial_value_total (key : String) (h : key ∈ initialKeys) : ∃ v, initialValue key = .ok v := by
  rw [initial_table_complete] at h
  obtain ⟨v, hv⟩ := lookup_of_mem_keys initialValues key h
  exact ⟨v, by unfold initialValue; rw [hv]⟩

/-- `inherit`/`initial`/absence for *every* property of the generated table, on the root and
below it: the result is never a failure of the cascade machinery itself. -/
theorem every_property_resolves_on_root (e : Elem) (key : String) (h : key ∈ initialKeys)
    (hc : lookup key e.cascaded = none ∨ lookup key e.cascaded = some (.val (.kw "inherit")) ∨
          lookup key e.cascaded = some (.val (.kw "initial")))
    (hcu : isCustom key = false) (hpage : key ≠ "page") :
    ∃ v st, specified e none key = .ok (v, st) ∧ initialValue key = .ok v := by
  obtain ⟨v, hv⟩ := initial_value_total key h
  refine ⟨v, !(initialNotComputed.contains key), ?_, hv⟩
  have hres : initialResult key = .ok (v, !(initialNotComputed.contains key)) := by
    unfold initialResult; simp [hcu, hv, Except.map]
  rcases hc with hc | hc | hc
  · by_cases hi : isInherited key = true
    · -- inherited: 'inherit' on the root becomes 'initial'
      have : specified e none key = initialResult key := by
        unfold specified specified123 specified4 initialResult
        simp [hc, hi, hcu, hpage]
        cases initialValue key <;> cases hh : initialNotComputed.contains key <;> simp_all <;> rfl
      rw [this, hres]
    · have hi' : isInherited key = false := by simpa using hi
      rw [not_cascaded_initial e none key hc hi' hcu (Or.inr rfl) hpage, hres]
  · rw [inherit_on_root e key hc hpage, hres]
  · rw [initial_honoured e none key hc (Or.inr rfl) hpage, hres]

/-- Every property of the generated `INHERITED` set, when no declaration applies below the root,
takes the parent's computed value as it is. -/
theorem every_inherited_property_inherits (e : Elem) (get : String → Except CErr Val) (key : String)
    (h : key ∈ inherited) (hc : lookup key e.cascaded = none) :
    specified e (some get) key = (get key).map (fun v => (v, true)) := by
  have hp := inherited_plain key h
  exact not_cascaded_inherits e get key hc (Or.inl (by simpa [isInherited] using h)) ⟨hp.1, hp.2.1⟩

/-! ## 4. relative_values -/

/-- `Dimension(result, 'px')` or the bare number, as `length` returns it. -/
def px (pixelsOnly : Bool) (r : Rat) : Val := if pixelsOnly then .num r else .dim r "px"

/-- `em`, `ex`, `ch`, `rem`, `%` are not absolute units (generated `LENGTHS_TO_PIXELS`). -/
theorem relative_units_not_absolute :
    lookup "em" lengthsToPixels = none ∧ lookup "ex" lengthsToPixels = none ∧
    lookup "ch" lengthsToPixels = none ∧ lookup "rem" lengthsToPixels = none ∧
    lookup "%" lengthsToPixels = none := by decide

/-- `em` computes against the element's own font size … -/
theorem length_em_own (env : Env) (q : Rat) (hq : q ≠ 0) (po : Bool) :
    length env (.dim q "em") none po = (env.fontSize ()).map (fun f => px po (q * f)) := by
  have h := relative_units_not_absolute.1
  unfold length
  simp [hq, h, px]
  cases env.fontSize () <;> simp [bind, Except.bind, Except.map] <;> rfl

/-- … or against the `font_size` argument (`font_size()` passes the parent's). -/
theorem length_em_given (env : Env) (q : Rat) (hq : q ≠ 0) (f : Rat) (po : Bool) :
    length env (.dim q "em") (some f) po = .ok (px po (q * f)) := by
  have h := relative_units_not_absolute.1
  unfold length
  simp [hq, h, px]

/-- `rem` computes against the root element's font size (`root_style['font_size']`, which
`set_computed_styles` makes the initial value on the root itself: `Style.styleAtWith`). -/
theorem length_rem (env : Env) (q : Rat) (hq : q ≠ 0) (f : Rat) (po : Bool)
    (hfs : env.fontSize () = .ok f) :
    length env (.dim q "rem") none po = (env.rootFontSize ()).map (fun r => px po (q * r)) := by
  have h := relative_units_not_absolute.2.2.2.1
  unfold length
  simp [hq, h, px, hfs]
  cases env.rootFontSize () <;> simp [bind, Except.bind, Except.map] <;> rfl

/-- Absolute units: multiplication by the generated factor. -/
theorem length_absolute (env : Env) (q : Rat) (hq : q ≠ 0) (unit : String) (factor : Rat)
    (hu : unit ≠ "px") (hf : lookup unit lengthsToPixels = some factor) (fs : Option Rat) (po : Bool) :
    length env (.dim q unit) fs po = .ok (px po (q * factor)) := by
  unfold length
  simp [hq, hu, hf, px]

/-- Zero of any unit is `ZERO_PIXELS`; percentages are kept. -/
theorem length_zero (env : Env) (unit : String) (fs : Option Rat) :
    length env (.dim 0 unit) fs false = .ok (.dim 0 "px") := by
  simp [length]

theorem length_percent (env : Env) (q : Rat) (hq : q ≠ 0) (fs : Option Rat) (po : Bool) :
    length env (.dim q "%") fs po = .ok (.dim q "%") := by
  have h := relative_units_not_absolute.2.2.2.2
  unfold length
  simp [hq, h]

/-- The generated unit table is consistent with `1in = 96px = 72pt = 6pc = 2.54cm = 25.4mm = 101.6q`. -/
theorem units_consistent :
    lookup "in" lengthsToPixels = some 96 ∧
    (lookup "pt" lengthsToPixels).map (· * 72) = some 96 ∧
    (lookup "pc" lengthsToPixels).map (· * 6) = some 96 ∧
    (lookup "cm" lengthsToPixels).map (· * (254 / 100 : Rat)) = some 96 ∧
    (lookup "mm" lengthsToPixels).map (· * (254 / 10 : Rat)) = some 96 ∧
    (lookup "q" lengthsToPixels).map (· * (1016 / 10 : Rat)) = some 96 := by
  decide +kernel


/-! font-size -/

/-- A keyword of the generated table computes to its table entry, independently of the parent. -/
theorem font_size_keyword (env : Env) (s : String) (q : Rat) (h : lookup s fontSizeKeywords = some q) :
    fontSize env (.kw s) = .ok (.num q) := by
  unfold fontSize
  simp [h]
  rfl

/-- The font size of the parent, as `font_size()` reads it (initial value on the root). -/
def parentSize (env : Env) : Except CErr Rat :=
  match env.parentFontSize with
  | none => .ok initialFontSize
  | some f => f ()

/-- `%` and `em` on `font-size` refer to the *parent's* font size (the initial value on the root). -/
theorem font_size_percent (env : Env) (q : Rat) :
    fontSize env (.dim q "%") = (parentSize env).map (fun p => .num (q * p / 100)) := by
  unfold fontSize parentSize
  cases env.parentFontSize with
  | none => simp [bind, Except.bind, Except.map, pure, Except.pure]
  | some f => cases f () <;> simp [bind, Except.bind, Except.map, pure, Except.pure]

theorem font_size_em (env : Env) (q : Rat) (hq : q ≠ 0) :
    fontSize env (.dim q "em") = (parentSize env).map (fun p => .num (q * p)) := by
  unfold fontSize parentSize
  cases env.parentFontSize with
  | none => simp [bind, Except.bind, Except.map, pure, Except.pure, length_em_given, hq, px]
  | some f => cases f () <;> simp [bind, Except.bind, Except.map, length_em_given, hq, px]

private theorem firstAbove_spec (p : Rat) (ks : List Rat) (k : Rat) (h : firstAbove p ks = some k) :
    k ∈ ks ∧ p < k := by
  induction ks with
  | nil => simp [firstAbove] at h
  | cons x xs ih =>
    simp only [firstAbove] at h
    by_cases hx : x > p
    · simp [hx] at h; subst h; exact ⟨by simp, hx⟩
    · simp [hx] at h
      have := ih h
      exact ⟨List.mem_cons_of_mem _ this.1, this.2⟩

private theorem firstAbove_none (p : Rat) (ks : List Rat) (h : firstAbove p ks = none) :
    ∀ k ∈ ks, ¬ p < k := by
  induction ks with
  | nil => simp
  | cons x xs ih =>
    simp only [firstAbove] at h
    by_cases hx : x > p
    · simp [hx] at h
    · simp [hx] at h
      intro k hk
      rcases List.mem_cons.mp hk with e | hk
      · subst e; exact hx
      · exact ih h k hk

private theorem firstAbove_least (p : Rat) (ks : List Rat) (k : Rat) (hs : ks.Pairwise (· < ·))
    (h : firstAbove p ks = some k) : ∀ k' ∈ ks, p < k' → k ≤ k' := by
  induction ks with
  | nil => simp [firstAbove] at h
  | cons x xs ih =>
    simp only [firstAbove] at h
    rw [List.pairwise_cons] at hs
    by_cases hx : x > p
    · simp [hx] at h; subst h
      intro k' hk' _
      rcases List.mem_cons.mp hk' with e | hk'
      · subst e; exact Rat.le_refl
      · exact Rat.le_of_lt (hs.1 k' hk')
    · simp [hx] at h
      intro k' hk' hpk
      rcases List.mem_cons.mp hk' with e | hk'
      · subst e; exact absurd hpk hx
      · exact ih hs.2 h k' hk' hpk

/-- The keyword sizes are strictly increasing (generated table). -/
theorem keyword_sizes_increasing : keywordSizes.Pairwise (· < ·) := by decide +kernel

theorem relative_keywords_not_in_table :
    lookup "larger" fontSizeKeywords = none ∧ lookup "smaller" fontSizeKeywords = none := by decide

/-- `larger`: the next keyword size above the parent's font size if there is one, else × 6/5. -/
theorem font_size_larger (env : Env) (p : Rat) (hp : parentSize env = .ok p) :
    fontSize env (.kw "larger") =
      .ok (.num (match firstAbove p keywordSizes with | some k => k | none => p * (6 / 5 : Rat))) := by
  have h := relative_keywords_not_in_table.1
  unfold fontSize
  unfold parentSize at hp
  cases hpf : env.parentFontSize with
  | none =>
    simp [hpf] at hp; subst hp
    simp [h, bind, Except.bind, pure, Except.pure]
    cases firstAbove initialFontSize keywordSizes <;> rfl
  | some f =>
    simp [hpf] at hp
    simp [h, hp, bind, Except.bind, pure, Except.pure]
    cases firstAbove p keywordSizes <;> rfl

/-- `larger` always increases a positive font size, and when it lands on a keyword it is the
*least* keyword size above the parent's. -/
theorem larger_grows (p : Rat) (h0 : 0 < p) :
    p < (match firstAbove p keywordSizes with | some k => k | none => p * (6 / 5 : Rat)) := by
  cases h : firstAbove p keywordSizes with
  | some k => exact (firstAbove_spec p _ k h).2
  | none => simp; grind

theorem larger_next_keyword (p k : Rat) (h : firstAbove p keywordSizes = some k) :
    k ∈ keywordSizes ∧ p < k ∧ ∀ k' ∈ keywordSizes, p < k' → k ≤ k' :=
  ⟨(firstAbove_spec p _ k h).1, (firstAbove_spec p _ k h).2,
   firstAbove_least p _ k keyword_sizes_increasing h⟩

private theorem goBelow_spec (p : Rat) (l : List Rat) (k : Rat) (h : firstBelowRev.go p l = some k) :
    k ∈ l ∧ k < p := by
  induction l with
  | nil => simp [firstBelowRev.go] at h
  | cons x xs ih =>
    simp only [firstBelowRev.go] at h
    by_cases hx : x < p
    · simp [hx] at h; subst h; exact ⟨by simp, hx⟩
    · simp [hx] at h
      have := ih h
      exact ⟨List.mem_cons_of_mem _ this.1, this.2⟩

private theorem goBelow_greatest (p : Rat) (l : List Rat) (k : Rat) (hs : l.Pairwise (· > ·))
    (h : firstBelowRev.go p l = some k) : ∀ k' ∈ l, k' < p → k' ≤ k := by
  induction l with
  | nil => simp [firstBelowRev.go] at h
  | cons x xs ih =>
    simp only [firstBelowRev.go] at h
    rw [List.pairwise_cons] at hs
    by_cases hx : x < p
    · simp [hx] at h; subst h
      intro k' hk' _
      rcases List.mem_cons.mp hk' with e | hk'
      · subst e; exact Rat.le_refl
      · exact Rat.le_of_lt (hs.1 k' hk')
    · simp [hx] at h
      intro k' hk' hpk
      rcases List.mem_cons.mp hk' with e | hk'
      · subst e; exact absurd hpk hx
      · exact ih hs.2 h k' hk' hpk

/-- `smaller`: the next keyword size below the parent's font size if there is one, else × 4/5. -/
theorem font_size_smaller (env : Env) (p : Rat) (hp : parentSize env = .ok p) :
    fontSize env (.kw "smaller") =
      .ok (.num (match firstBelowRev p keywordSizes with | some k => k | none => p * (4 / 5 : Rat))) := by
  have h := relative_keywords_not_in_table.2
  unfold fontSize
  unfold parentSize at hp
  cases hpf : env.parentFontSize with
  | none =>
    simp [hpf] at hp; subst hp
    simp [h, bind, Except.bind, pure, Except.pure]
    cases firstBelowRev initialFontSize keywordSizes <;> rfl
  | some f =>
    simp [hpf] at hp
    simp [h, hp, bind, Except.bind, pure, Except.pure]
    cases firstBelowRev p keywordSizes <;> rfl

theorem smaller_shrinks (p : Rat) (h0 : 0 < p) :
    (match firstBelowRev p keywordSizes with | some k => k | none => p * (4 / 5 : Rat)) < p := by
  cases h : firstBelowRev p keywordSizes with
  | some k => exact (goBelow_spec p _ k h).2
  | none => simp; grind

theorem smaller_previous_keyword (p k : Rat) (h : firstBelowRev p keywordSizes = some k) :
    k ∈ keywordSizes ∧ k < p ∧ ∀ k' ∈ keywordSizes, k' < p → k' ≤ k := by
  have hs : keywordSizes.reverse.Pairwise (· > ·) := by
    rw [List.pairwise_reverse]; exact keyword_sizes_increasing
  have h1 := goBelow_spec p _ k h
  refine ⟨by simpa using h1.1, h1.2, ?_⟩
  intro k' hk' hlt
  exact goBelow_greatest p _ k hs h k' (by simpa using hk') hlt

/-! font-weight -/

/-- `bolder` never decreases and `lighter` never increases the weight; both are monotone; they
are idempotent at the ends of the scale; every multiple of 100 from 100 to 900 has an entry. -/
theorem font_weight_tables :
    (∀ p ∈ fontWeightBolder, p.1 ≤ p.2) ∧ (∀ p ∈ fontWeightLighter, p.2 ≤ p.1) ∧
    (∀ p ∈ fontWeightBolder, ∀ q ∈ fontWeightBolder, p.1 ≤ q.1 → p.2 ≤ q.2) ∧
    (∀ p ∈ fontWeightLighter, ∀ q ∈ fontWeightLighter, p.1 ≤ q.1 → p.2 ≤ q.2) ∧
    lookupNat 900 fontWeightBolder = some 900 ∧ lookupNat 100 fontWeightLighter = some 100 ∧
    (∀ w ∈ [100, 200, 300, 400, 500, 600, 700, 800, 900],
      (lookupNat w fontWeightBolder).isSome ∧ (lookupNat w fontWeightLighter).isSome) ∧
    (∀ p ∈ fontWeightBolder, lookupNat p.2 fontWeightBolder = some p.2 ∨ p.2 < 900) := by
  decide

/-- The generated tables are the ones of CSS: css-fonts-3 §3.2 for `bolder` / `lighter`, §3.5 for the
absolute size keywords (scaling factors 3/5, 3/4, 8/9, 1, 6/5, 3/2, 2 of the 16px medium), and
`thin ≤ medium ≤ thick` for border widths (CSS 2.1 §8.5.1). -/
theorem tables_are_css :
    fontWeightBolder = [(100, 400), (200, 400), (300, 400), (400, 700), (500, 700), (600, 900),
                        (700, 900), (800, 900), (900, 900)] ∧
    fontWeightLighter = [(100, 100), (200, 100), (300, 100), (400, 100), (500, 100), (600, 400),
                         (700, 400), (800, 700), (900, 700)] ∧
    fontSizeKeywords = [("xx-small", 16 * (3 / 5 : Rat)), ("x-small", 16 * (3 / 4 : Rat)),
                        ("small", 16 * (8 / 9 : Rat)), ("medium", 16), ("large", 16 * (6 / 5 : Rat)),
                        ("x-large", 16 * (3 / 2 : Rat)), ("xx-large", 32)] ∧
    initialFontSize = 16 ∧ initialFontWeight = 400 ∧
    (∃ t m k, lookup "thin" borderWidthKeywords = some t ∧ lookup "medium" borderWidthKeywords = some m ∧
      lookup "thick" borderWidthKeywords = some k ∧ 0 < t ∧ t ≤ m ∧ m ≤ k) := by
  refine ⟨by decide, by decide, by decide +kernel, by decide +kernel, by decide, ?_⟩
  exact ⟨1, 3, 5, by decide +kernel⟩

/-- The parent's weight as `font_weight()` reads it (the initial weight on the root). -/
def parentWeight (env : Env) : Except CErr Val :=
  match env.parentFontWeight with
  | none => .ok (.num (initialFontWeight : Nat))
  | some f => f ()

private theorem natOfRat_nat (w : Nat) : natOfRat ((w : Nat) : Rat) = some w := by
  simp [natOfRat]

theorem font_weight_bolder (env : Env) (w r : Nat) (hp : parentWeight env = .ok (.num (w : Nat)))
    (hr : lookupNat w fontWeightBolder = some r) :
    fontWeight env (.kw "bolder") = .ok (.num (r : Nat)) := by
  unfold fontWeight
  unfold parentWeight at hp
  cases hpf : env.parentFontWeight with
  | none =>
    rw [hpf] at hp
    have hw : initialFontWeight = w := by
      have h1 : ((initialFontWeight : Nat) : Rat) = ((w : Nat) : Rat) := by
        injection hp with h2; injection h2
      exact_mod_cast h1
    subst hw
    simp [bind, Except.bind, pure, Except.pure, natOfRat_nat, hr]
  | some f =>
    simp [hpf] at hp
    simp [bind, Except.bind, pure, Except.pure, hp, natOfRat_nat, hr]


/-! ### `em` outside `font-size`: the element's own font size -/

private theorem length_given_congr (env env' : Env) (v : Val) (f : Rat) (po : Bool)
    (h2 : env.rootFontSize = env'.rootFontSize) (h3 : env.exRatio = env'.exRatio)
    (h4 : env.chRatio = env'.chRatio) :
    length env v (some f) po = length env' v (some f) po := by
  unfold length
  simp only [h2, h3, h4]

private theorem fontSize_congr (env env' : Env) (v : Val)
    (h1 : env.parentFontSize = env'.parentFontSize)
    (h2 : env.rootFontSize = env'.rootFontSize) (h3 : env.exRatio = env'.exRatio)
    (h4 : env.chRatio = env'.chRatio) :
    fontSize env v = fontSize env' v := by
  unfold fontSize
  have hl : ∀ v f, length env v (some f) true = length env' v (some f) true :=
    fun v f => length_given_congr env env' v f true h2 h3 h4
  simp only [h1, hl]

theorem computer_of_width_and_font_size :
    lookup "width" computerFunctions = some "length" ∧
    lookup "font_size" computerFunctions = some "font_size" := by decide

/-- `style['font_size']` as the computing functions read it is the computed value of the
element's own `font-size` property. -/
theorem own_font_size_is_computed (e : Elem) (parent : ParentGet) (root : Unit → Except CErr Rat)
    (ex ch : Rat) :
    ownFontSize e parent root ex ch () = (computedKey e parent root ex ch "font_size").bind numOf := by
  have hk : computedKey e parent root ex ch "font_size" = computedKeyCore e parent root ex ch "font_size" := by
    unfold computedKey; simp
  rw [hk]
  unfold ownFontSize computedKeyCore
  cases hfs : specified e parent "font_size" with
  | error err => rfl
  | ok r =>
    obtain ⟨v, st⟩ := r
    cases st with
    | true => simp [bind, Except.bind, pure, Except.pure]
    | false =>
      simp only [bind, Except.bind, Bool.false_eq_true, if_false, compute,
        computer_of_width_and_font_size.2, applyComputer]
      rw [fontSize_congr (fullEnv e parent root ex ch) (fontEnv e parent root ex ch) v rfl rfl rfl rfl]

/-- `em` on a property other than `font-size` computes against the element's *own* computed font
size (which itself is computed against the parent's: `font_size_em`, `font_size_percent`). -/
theorem width_em_uses_own_font_size (e : Elem) (parent : ParentGet) (root : Unit → Except CErr Rat)
    (ex ch : Rat) (q : Rat) (hq : q ≠ 0)
    (hc : lookup "width" e.cascaded = some (.val (.dim q "em"))) :
    computedKey e parent root ex ch "width" =
      (ownFontSize e parent root ex ch ()).map (fun f => .dim (q * f) "px") := by
  have hsp : specified e parent "width" = .ok (.dim q "em", false) :=
    cascaded_value_used e parent "width" _ hc rfl rfl (Or.inl (by decide)) (by decide)
  have hk : computedKey e parent root ex ch "width" = computedKeyCore e parent root ex ch "width" := by
    unfold computedKey; simp
  rw [hk]
  unfold computedKeyCore
  simp only [hsp, bind, Except.bind, pure, Except.pure, Bool.false_eq_true, if_false, compute,
    computer_of_width_and_font_size.1, applyComputer]
  rw [length_em_own _ q hq false]
  rfl


/-! ## 5. page_match -/

private theorem sq_pos (a : Int) (ha : a ≠ 0) : 0 < a * a := by
  rcases Int.lt_or_gt_of_ne ha with h | h
  · exact Int.mul_pos_of_neg_of_neg h h
  · exact Int.mul_pos h h

private theorem nth_arith (a offset : Int) (ha : a ≠ 0) :
    (0 ≤ offset * a ∧ Int.fmod offset a = 0) ↔ ∃ n : Nat, offset = a * (n : Int) := by
  constructor
  · rintro ⟨hs, hm⟩
    obtain ⟨k, hk⟩ := Int.dvd_of_fmod_eq_zero hm
    have hk0 : 0 ≤ k := by
      apply Int.le_of_not_gt
      intro hneg
      have h1 : a * a * k < 0 := Int.mul_neg_of_pos_of_neg (sq_pos a ha) hneg
      have h2 : offset * a = a * a * k := by
        rw [hk, Int.mul_assoc, Int.mul_assoc, Int.mul_comm k a]
      omega
    refine ⟨k.toNat, ?_⟩
    rw [Int.toNat_of_nonneg hk0]; exact hk
  · rintro ⟨n, rfl⟩
    constructor
    · have h2 : a * (n : Int) * a = a * a * n := by
        rw [Int.mul_assoc, Int.mul_assoc, Int.mul_comm (n : Int) a]
      rw [h2]
      exact Int.mul_nonneg (Int.le_of_lt (sq_pos a ha)) (Int.natCast_nonneg n)
    · exact Int.fmod_eq_zero_of_dvd ⟨n, rfl⟩

/-- `:nth(an+b)` — `page_match`, arithmetic core, full strength (no bound on the integers since
the sign test is on the product, commit b05dd13):
`offset == 0 if a == 0 else (offset * a >= 0 and not offset % a)` holds exactly when
`offset = a·n` for some natural `n` (floored `%`; `a = 0` and negative `a` included). -/
theorem nth_test_iff (a offset : Int) :
    nthTest a offset = true ↔ ∃ n : Nat, offset = a * (n : Int) := by
  unfold nthTest
  by_cases ha : a = 0
  · subst ha
    simp
  · have hbeq : (a == 0) = false := by simpa using ha
    simp only [hbeq, Bool.false_eq_true, if_false]
    rw [← nth_arith a offset ha]
    simp

/-- `index + 1 = a·n + b` for some natural `n`: the page (1-based) is selected by `:nth(an+b)`. -/
def nthSelects (a b index : Int) : Prop := ∃ n : Nat, index + 1 = a * (n : Int) + b

private theorem nth_offset (a b index : Int) :
    nthTest a (index + 1 - b) = true ↔ nthSelects a b index := by
  rw [nth_test_iff]
  unfold nthSelects
  constructor
  · rintro ⟨n, hn⟩; exact ⟨n, by omega⟩
  · rintro ⟨n, hn⟩; exact ⟨n, by omega⟩

theorem groups_test_iff (a b : Int) (name : String) (groups : List (String × Int)) :
    groupsTest a b name groups = true ↔
      ∃ g ∈ groups, g.1 = name ∧ nthSelects a b g.2 := by
  induction groups with
  | nil => simp [groupsTest]
  | cons g rest ih =>
    obtain ⟨gn, gi⟩ := g
    simp only [groupsTest]
    by_cases hne : (name != gn) = true
    · have hne' : gn ≠ name := by
        intro e; subst e; simp at hne
      simp only [hne, if_true]
      rw [ih]
      constructor
      · rintro ⟨g, hg, h⟩; exact ⟨g, List.mem_cons_of_mem _ hg, h⟩
      · rintro ⟨g, hg, h⟩
        rcases List.mem_cons.mp hg with e | hg
        · subst e; exact absurd h.1 hne'
        · exact ⟨g, hg, h⟩
    · have heq : gn = name := by
        simp at hne; exact hne.symm
      simp only [hne]
      have hiff := nth_offset a b gi
      cases ht : nthTest a (gi + 1 - b) with
      | true =>
        simp only [if_true]
        constructor
        · intro _; exact ⟨(gn, gi), by simp, heq, hiff.mp ht⟩
        · intro _; rfl
      | false =>
        simp only [Bool.false_eq_true, if_false]
        rw [ih]
        constructor
        · rintro ⟨g, hg, h⟩; exact ⟨g, List.mem_cons_of_mem _ hg, h⟩
        · rintro ⟨g, hg, h⟩
          rcases List.mem_cons.mp hg with e | hg
          · subst e
            have := hiff.mpr h.2
            rw [ht] at this; cases this
          · exact ⟨g, hg, h⟩

/-- What a page selector component demands. -/
def compOk {β : Type} (sel : Option β) (actual : β) : Prop := sel = none ∨ sel = some actual

private theorem mismatch_iff {β : Type} [BEq β] [LawfulBEq β] (sel : Option β) (actual : β) :
    mismatch sel actual = false ↔ compOk sel actual := by
  unfold mismatch compOk
  cases sel with
  | none => simp
  | some s =>
    simp only [Bool.not_eq_false', beq_iff_eq, reduceCtorEq, false_or, Option.some.injEq]

/-- The `:nth()` part of a page selector. -/
def indexOk (index : Option (Int × Int × Option String)) (page : PageType) : Prop :=
  match index with
  | none => True
  | some (a, b, none) => nthSelects a b page.index
  | some (a, b, some name) =>
    name = page.name ∧ ∃ g ∈ page.groups, g.1 = name ∧ nthSelects a b g.2

/-- `page_match`, full strength: `_page_type_match` holds exactly when every conjunct of the
selector holds: side, blank, first (`index == 0`), name, and `:nth(an+b [of name])` ⇔
`∃ n ≥ 0, index + 1 = a·n + b` (on some page group of that name for the `of` form), for all
integers `a`, `b` and page indices. -/
theorem page_type_match_iff (sel : PageSelector) (page : PageType) :
    pageTypeMatch sel page = true ↔
      compOk sel.side page.side ∧ compOk sel.blank page.blank ∧
      compOk sel.first (page.index == 0) ∧ compOk sel.name page.name ∧ indexOk sel.index page := by
  unfold pageTypeMatch
  rw [← mismatch_iff, ← mismatch_iff, ← mismatch_iff, ← mismatch_iff]
  cases h1 : mismatch sel.side page.side <;> simp
  cases h2 : mismatch sel.blank page.blank <;> simp
  cases h3 : mismatch sel.first (page.index == 0) <;> simp
  cases h4 : mismatch sel.name page.name <;> simp
  cases hidx : sel.index with
  | none => simp [indexOk]
  | some t =>
    obtain ⟨a, b, nm⟩ := t
    cases nm with
    | none =>
      simp only [indexOk]
      exact nth_offset a b page.index
    | some name =>
      simp only [indexOk]
      by_cases hn : (name != page.name) = true
      · have : name ≠ page.name := by simpa using hn
        simp [this]
      · have hname : name = page.name := by simpa using hn
        simp only [hname, decide_true, Bool.true_and, true_and]
        rw [← hname]
        exact groups_test_iff a b name page.groups

private theorem natOfRat_nat' (w : Nat) : natOfRat ((w : Nat) : Rat) = some w := by
  simp [natOfRat]

theorem font_weight_lighter (env : Env) (w r : Nat) (hp : parentWeight env = .ok (.num (w : Nat)))
    (hr : lookupNat w fontWeightLighter = some r) :
    fontWeight env (.kw "lighter") = .ok (.num (r : Nat)) := by
  unfold fontWeight
  unfold parentWeight at hp
  cases hpf : env.parentFontWeight with
  | none =>
    rw [hpf] at hp
    have hw : initialFontWeight = w := by
      have h1 : ((initialFontWeight : Nat) : Rat) = ((w : Nat) : Rat) := by
        injection hp with h2; injection h2
      exact_mod_cast h1
    subst hw
    simp [bind, Except.bind, pure, Except.pure, natOfRat_nat', hr]
  | some f =>
    simp [hpf] at hp
    simp [bind, Except.bind, pure, Except.pure, hp, natOfRat_nat', hr]

/-- `normal` is 400, `bold` is 700, a number is itself. -/
theorem font_weight_absolute (env : Env) (q : Rat) :
    fontWeight env (.kw "normal") = .ok (.num 400) ∧ fontWeight env (.kw "bold") = .ok (.num 700) ∧
    fontWeight env (.num q) = .ok (.num q) := by
  refine ⟨rfl, rfl, rfl⟩

/-- `always ↦ page`; every other break value is kept. -/
theorem break_always_page (v : Val) :
    breakBeforeAfter (.kw "always") = .kw "page" ∧
    (v.isKw "always" = false → breakBeforeAfter v = v) := by
  constructor
  · rfl
  · intro h; simp [breakBeforeAfter, h]

/-- `border-*-width` is 0 when the border style is `none` or `hidden`, whatever the width. -/
theorem border_width_zero_without_style (env : Env) (name : String) (value : Val) (s : Val)
    (hs : env.get (pyReplace name "width" "style") = .ok s)
    (h : s.isKw "none" = true ∨ s.isKw "hidden" = true) :
    borderWidth env name value = .ok (.num 0) := by
  unfold borderWidth
  rcases h with h | h <;> simp [hs, h, bind, Except.bind, pure, Except.pure]

/-! ### border widths and display on the element (`ComputedStyle.__missing__` + computing function) -/

theorem border_keys :
    lookup "border_top_width" computerFunctions = some "border_width" ∧
    lookup "border_top_style" computerFunctions = none ∧
    pyReplace "border_top_width" "width" "style" = "border_top_style" := by decide

/-- Full statement (false of the code, `Witness.C06.inherit_skips_computing`): "the computed
`border-top-width` is 0 whenever the element's own `border-top-style` is `none` or `hidden`".
Proved with the hypothesis that the width is not taken over from the parent as an already computed
value (`inherit`, or a failed `var()` falling back to inheritance): then `__missing__` calls the
computing function. -/
theorem computed_border_width_zero_partial (e : Elem) (parent : ParentGet)
    (root : Unit → Except CErr Rat) (ex ch : Rat) (v s : Val) (st : Bool)
    (hw : specified e parent "border_top_width" = .ok (v, false))
    (hs : specified e parent "border_top_style" = .ok (s, st))
    (hnone : s.isKw "none" = true ∨ s.isKw "hidden" = true) :
    computedKey e parent root ex ch "border_top_width" = .ok (.num 0) := by
  have hk : computedKey e parent root ex ch "border_top_width" =
      computedKeyCore e parent root ex ch "border_top_width" := by
    unfold computedKey; simp
  rw [hk]
  unfold computedKeyCore
  simp only [hw, bind, Except.bind, Bool.false_eq_true, if_false, compute, border_keys.1, applyComputer]
  apply border_width_zero_without_style _ _ _ s _ hnone
  rw [border_keys.2.2]
  simp [fullEnv, border_keys.2.1, hs, bind, Except.bind, pure, Except.pure]


/-- CSS 2.1 §9.7 as the code has it: on a floated, absolutely positioned or root element an
`inline …` display computes to `block flow` (keeping `list-item`), a lone `table-*` to `block flow`;
otherwise, and for every block-level display, the value is kept. -/
theorem display_blockifies_inline (env : Env) (f p : Val) (rest : List String)
    (hf : env.specified "float" = .ok f) (hp : env.specified "position" = .ok p)
    (hcond : p.isKw "absolute" = true ∨ p.isKw "fixed" = true ∨ f.isKw "none" = false ∨ env.isRoot = true) :
    display env (.strs ("inline" :: rest)) =
      .ok (.strs (if ("inline" :: rest).contains "list-item" then ["block", "flow", "list-item"]
                  else ["block", "flow"])) := by
  have hc : (p.isKw "absolute" || p.isKw "fixed" || !(f.isKw "none") || env.isRoot) = true := by
    rcases hcond with h | h | h | h <;> simp [h]
  unfold display
  simp only [hf, hp, bind, Except.bind, hc, if_true]
  have h1 : ("inline" :: rest == ["inline-table"]) = false := by
    cases rest <;> simp <;> decide
  have h2 : (rest.isEmpty && "inline".startsWith "table-") = false := by
    cases rest <;> simp <;> decide
  simp only [h1, h2, Bool.false_eq_true, if_false]
  split <;> simp_all [pure, Except.pure] <;> split <;> rfl

theorem display_kept_in_flow (env : Env) (f p v : Val)
    (hf : env.specified "float" = .ok f) (hp : env.specified "position" = .ok p)
    (h1 : p.isKw "absolute" = false) (h2 : p.isKw "fixed" = false) (h3 : f.isKw "none" = true)
    (h4 : env.isRoot = false) :
    display env v = .ok v := by
  unfold display
  simp [hf, hp, bind, Except.bind, h1, h2, h3, h4, pure, Except.pure]


/-! ## 6. media -/

/-- `media`: a sheet / `@media` / `@import` condition holds iff `all` or the device media type is
in the query list. -/
theorem media_applies_iff (q : List String) (device : String) :
    evaluateMediaQuery q device = true ↔ "all" ∈ q ∨ device ∈ q := by
  simp [evaluateMediaQuery]

/-- An empty media query list means `all`. -/
theorem parse_media_empty : parseMediaQuery [] = some ["all"] := rfl

/-- `@media` whose query does not select the device contributes no rule (but still closes the
`@import` prologue). -/
theorem preprocess_media_not_selected (device : String) (ig : Bool) (m : List String)
    (body rest : List SRule) (h : evaluateMediaQuery m device = false) :
    preprocess device ig (.mediaRule (some m) body :: rest) = preprocess device true rest := by
  rw [preprocess.eq_def]; simp [h]

theorem preprocess_media_selected (device : String) (ig : Bool) (m : List String)
    (body rest : List SRule) (h : evaluateMediaQuery m device = true) :
    preprocess device ig (.mediaRule (some m) body :: rest) =
      preprocess device true body ++ preprocess device true rest := by
  rw [preprocess.eq_def]; simp [h]

/-- `@import` in the prologue: the imported sheet's rules come first, in order, iff its media
query selects the device; after any style rule an `@import` is ignored. -/
theorem preprocess_import_selected (device : String) (m : List String) (sheet rest : List SRule)
    (h : evaluateMediaQuery m device = true) :
    preprocess device false (.importRule (some m) (some sheet) :: rest) =
      preprocess device false sheet ++ preprocess device false rest := by
  rw [preprocess.eq_def]; simp [h]

theorem preprocess_import_not_selected (device : String) (m : List String) (sheet rest : List SRule)
    (h : evaluateMediaQuery m device = false) :
    preprocess device false (.importRule (some m) (some sheet) :: rest) = preprocess device false rest := by
  rw [preprocess.eq_def]; simp [h]

theorem preprocess_import_late (device : String) (m : Option (List String))
    (sheet : Option (List SRule)) (rest : List SRule) :
    preprocess device true (.importRule m sheet :: rest) = preprocess device true rest := by
  rw [preprocess.eq_def]; simp

theorem preprocess_style (device : String) (ig : Bool) (id n : Nat) (rest : List SRule) :
    preprocess device ig (.style id n :: rest) =
      (List.range n).map (fun i => (id, i)) ++ preprocess device true rest := by
  rw [preprocess.eq_def]

/-- Every `add_selector` call the sheet could ever make, in document order: all style rules of the
sheet, of every `@media` block and of every imported sheet, whatever the media type. -/
def allAdded : List SRule → List Added
  | [] => []
  | r :: rest =>
    match r with
    | .style id n => (List.range n).map (fun i => (id, i)) ++ allAdded rest
    | .importRule _ (some sheet) => allAdded sheet ++ allAdded rest
    | .mediaRule _ body => allAdded body ++ allAdded rest
    | _ => allAdded rest

/-- "then source order across all sheets including @import": what reaches the matcher is a
subsequence of the document-order traversal — rules are dropped (media, late or failed imports,
invalid rules) but never reordered or duplicated, at any nesting depth. -/
theorem preprocess_preserves_source_order (device : String) (ig : Bool) (rules : List SRule) :
    (preprocess device ig rules).Sublist (allAdded rules) := by
  fun_induction preprocess device ig rules
  case case5 rest m sheet ih =>
    cases sheet with
    | none => simpa only [allAdded] using ih
    | some sh => simp only [allAdded]; exact ih.trans (List.sublist_append_right _ _)
  case case6 ig rest _ sheet ih =>
    cases sheet with
    | none => simpa only [allAdded] using ih
    | some sh => simp only [allAdded]; exact ih.trans (List.sublist_append_right _ _)
  all_goals (try simp only [allAdded])
  all_goals first
    | assumption
    | exact List.Sublist.refl _
    | exact List.Sublist.append (List.Sublist.refl _) (by assumption)
    | exact List.Sublist.append (by assumption) (by assumption)
    | exact List.Sublist.trans (by assumption) (List.sublist_append_right _ _)

example : allAdded [.importRule none (some [.style 1 2]), .mediaRule (some ["screen"]) [.style 4 1], .style 2 1]
    = [(1, 0), (1, 1), (4, 0), (2, 0)] := by
  simp [allAdded]; decide

/-! ## non-vacuity -/

example : pyReplace "border_top_width" "width" "style" = "border_top_style" ∧
    pyReplace "outline_width" "width" "style" = "outline_style" ∧
    pyReplace "widthwidth_x" "width" "style" = "stylestyle_x" := by decide

-- F3 regression: `<style>#x{color:red}</style><p id=x style="color:blue">` is blue
example : (applyAll [⟨"color", "blue", ⟨3, [1, 0, 0, 0]⟩⟩, ⟨"color", "red", ⟨3, [0, 1, 0, 0]⟩⟩]).get "color"
    = some ("blue", ⟨3, [1, 0, 0, 0]⟩) := by decide
-- later of two equal weights wins; `!important` of a weaker selector beats both
example : (applyAll [⟨"color", "a", ⟨3, [0, 0, 1, 0]⟩⟩, ⟨"color", "b", ⟨3, [0, 0, 1, 0]⟩⟩]).get "color"
    = some ("b", ⟨3, [0, 0, 1, 0]⟩) := by decide
example : winner [("a", (⟨3, [0, 1, 0, 0]⟩ : Weight)), ("b", ⟨4, [0, 0, 0, 1]⟩), ("c", ⟨3, [0, 1, 0, 0]⟩)]
    = some ("b", ⟨4, [0, 0, 0, 1]⟩) := by decide
example : nthSelects 2 1 4 := ⟨2, by decide⟩          -- page 5 is selected by :nth(2n+1)
example : nthTest (-1) (3 + 1 - 6) = true := by decide   -- :nth(-n+6) selects page 4
-- regression for the repaired finding page-nth-overflow (commit b05dd13): `@page :nth(n + 10^400)` is
-- decided with integer arithmetic (it used to raise OverflowError on `offset / a`): no match on page 1,
-- and the page numbered 10^400 + 5 is selected
example : pageTypeMatch ⟨none, none, none, some (1, (10 : Int) ^ 400, none), none⟩
    ⟨"right", false, 0, "", []⟩ = false := by decide +kernel
example : pageTypeMatch ⟨none, none, none, some (1, (10 : Int) ^ 400, none), none⟩
    ⟨"right", false, (10 : Int) ^ 400 + 4, "", []⟩ = true := by decide +kernel
example : lookup "small" fontSizeKeywords = some (128 / 9 : Rat) := by decide +kernel
example : firstAbove 16 keywordSizes = some (96 / 5 : Rat) := by decide +kernel
example : lookupNat 400 fontWeightBolder = some 700 := by decide
example : isInherited "color" = true ∧ plainKey "color" := ⟨by decide, by decide, by decide⟩
example : isInherited "width" = false ∧ isCustom "width" = false ∧ isTextDecoration "width" = false := by decide
example : evaluateMediaQuery ["screen", "print"] "print" = true := by decide
example : preprocess "print" false
    [.importRule (some ["all"]) (some [.style 1 2]), .style 2 1, .importRule (some ["all"]) (some [.style 3 1]),
     .mediaRule (some ["screen"]) [.style 4 1], .mediaRule (some ["print"]) [.style 5 1]]
    = [(1, 0), (1, 1), (2, 0), (5, 0)] := by
  simp [preprocess, evaluateMediaQuery]; decide

end Wp.C06
