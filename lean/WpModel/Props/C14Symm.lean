/-
C14 — `compute_variable_dimension` with a generated centre box is symmetric in its two outer boxes
(`Model/PageBoxes.variableStep` / `computeVariable`): the clause `clause_variable_symmetric` of the harness (round 7,
seeded change C14-10) for all inputs of the model.  Built on `resolve_b_symmetric` (Props/C14Variable).
-/
import WpModel.Props.C14Variable
import WpModel.Props.C14

namespace Wp.C14
open Wp Wp.PageBoxes

private theorem step_sym_aux (a c b' : VBox) (avail : Rat) :
    (match (match b'.inner with
            | none => (Except.error (.assertFailed "compute_variable_dimension:auto") : Except PyErr (VBox × VBox × VBox))
            | some bi =>
              .ok ((match a.inner with | none => a.setOuter ((avail - (b'.sugar + bi)) / 2) | some _ => a), b',
                   (match c.inner with | none => c.setOuter ((avail - (b'.sugar + bi)) / 2) | some _ => c))),
           (match b'.inner with
            | none => (Except.error (.assertFailed "compute_variable_dimension:auto") : Except PyErr (VBox × VBox × VBox))
            | some bi =>
              .ok ((match c.inner with | none => c.setOuter ((avail - (b'.sugar + bi)) / 2) | some _ => c), b',
                   (match a.inner with | none => a.setOuter ((avail - (b'.sugar + bi)) / 2) | some _ => a))) with
     | .ok (x, y, z), .ok (z', y', x') => x = x' ∧ y = y' ∧ z = z'
     | .error _, .error _ => True
     | _, _ => False) := by
  cases b'.inner <;> simp

/-- **`compute_variable_dimension` with a generated centre box is symmetric**: exchanging the two outer boxes exchanges
their resolved boxes and leaves the centre box's — for all boxes and every available size (the clause
`clause_variable_symmetric` of the harness, for all inputs of the model). -/
theorem variable_step_symmetric (a b c : VBox) (avail : Rat) :
    (match variableStep a b c true avail, variableStep c b a true avail with
     | .ok (x, y, z), .ok (z', y', x') => x = x' ∧ y = y' ∧ z = z'
     | .error _, .error _ => True
     | _, _ => False) := by
  unfold variableStep
  simp only [Bool.not_true, Bool.false_eq_true, ↓reduceIte]
  rw [resolve_b_symmetric c b a avail]
  cases hbi : b.inner with
  | none => simp only []; exact step_sym_aux a c (varResolveB a b c avail) avail
  | some v => simp only []; exact step_sym_aux a c b avail

/-- The same for the whole function, final assertion included: the three resolved `(inner, margins)` triples. -/
theorem variable_dimension_symmetric (a b c : VBox) (avail : Rat) :
    (match computeVariable a b c true avail, computeVariable c b a true avail with
     | .ok (ra, rb, rc), .ok (rc', rb', ra') => ra = ra' ∧ rb = rb' ∧ rc = rc'
     | .error _, .error _ => True
     | _, _ => False) := by
  have h := variable_step_symmetric a b c avail
  unfold computeVariable
  cases h1 : variableStep a b c true avail with
  | error e1 =>
    cases h2 : variableStep c b a true avail with
    | error e2 => simp
    | ok r2 => simp [h1, h2] at h
  | ok r1 =>
    cases h2 : variableStep c b a true avail with
    | error e2 => simp [h1, h2] at h
    | ok r2 =>
      obtain ⟨x, y, z⟩ := r1
      obtain ⟨z', y', x'⟩ := r2
      simp only [h1, h2] at h
      obtain ⟨rfl, rfl, rfl⟩ := h
      cases hx : x.inner <;> cases hy : y.inner <;> cases hz : z.inner <;> simp [hx, hy, hz]

/-- Non-vacuity: both orders of the fixed family's case (A narrow, C wide and wrappable, avail 150) resolve (the `ok`
branch of the statement), by `variable_dimension_total`; B's value there is `resolve_b_symmetric`'s example. -/
example : (∃ r, computeVariable ⟨none, 0, 0, 0, 10, 20⟩ ⟨none, 0, 0, 0, 10, 40⟩ ⟨none, 0, 0, 0, 10, 100⟩ true 150 = .ok r) ∧
    (∃ r, computeVariable ⟨none, 0, 0, 0, 10, 100⟩ ⟨none, 0, 0, 0, 10, 40⟩ ⟨none, 0, 0, 0, 10, 20⟩ true 150 = .ok r) :=
  ⟨variable_dimension_total _ _ _ _ _ (by simp), variable_dimension_total _ _ _ _ _ (by simp)⟩

end Wp.C14
