/-
C14 — named strings over the whole page history.
`get_string_or_element_for` (model: `PageState.getStringFor`, a lookup in the per-page store that
`layout_document` fills) refines the css-gcpm specification stated over the *history* of a document:
the list, page by page, of the assignments made to one named string (or running element).
-/
import WpModel.Model.PageState

namespace Wp.C14
open Wp Wp.PageState

/-- The assignments to one name on pages 1, 2, 3, … (in document order inside a page). -/
abbrev Hist := List (List String)

/-- The store `layout_document` builds from a history: `context.string_set[name][i + 1].append(text)`
creates a key only for a page that has an assignment. -/
def storeFrom : Hist → Nat → NameStore
  | [], _ => []
  | vs :: rest, p => (if vs.isEmpty then [] else [(p, vs)]) ++ storeFrom rest (p + 1)

def storeOfHist (h : Hist) : NameStore := storeFrom h 1

/-- css-gcpm: the *exit value* of the first `n` pages — the last assignment made on them. -/
def exitValue (h : Hist) (n : Nat) : Option String := (h.take n).flatten.getLast?

/-- css-gcpm `string()` / `element()`: value on page `cur` (1-based).
`first`: first assignment on the page, else the entry value (= exit value of the previous pages);
`last`: last assignment on the page, else the entry value; `first-except`: nothing on a page with an
assignment, else the entry value; `start`: the first assignment if the page *starts* with it, else
the entry value.  (`other`: any unknown keyword falls back to the entry value, as the code does.) -/
def specString (h : Hist) (cur : Nat) (kw : Keyword) (startsPage : Bool) : Option String :=
  let entry := exitValue h (cur - 1)
  match h[cur - 1]? with
  | some (v :: vs) =>
    match kw with
    | .first => some v
    | .last => (v :: vs).getLast?
    | .firstExcept => none
    | .start => if startsPage then some v else entry
    | .other => entry
  | _ => entry

private theorem storeGet_append (a b : NameStore) (p : Nat) :
    storeGet (a ++ b) p = match storeGet a p with | some v => some v | none => storeGet b p := by
  induction a with
  | nil => simp [storeGet]
  | cons x xs ih =>
    obtain ⟨q, v⟩ := x
    simp only [List.cons_append, storeGet]
    split
    · rfl
    · exact ih

/-- The store holds exactly the non-empty pages of the history. -/
theorem storeGet_storeFrom (h : Hist) (start p : Nat) :
    storeGet (storeFrom h start) p =
      if start ≤ p then
        match h[p - start]? with
        | some (v :: vs) => some (v :: vs)
        | _ => none
      else none := by
  induction h generalizing start with
  | nil => simp [storeFrom, storeGet]
  | cons vs rest ih =>
    simp only [storeFrom]
    rw [storeGet_append, ih]
    by_cases hp : start ≤ p
    · simp only [hp, ↓reduceIte]
      by_cases he : p = start
      · subst he
        simp only [Nat.sub_self, List.getElem?_cons_zero]
        cases vs with
        | nil => simp [storeGet]; intro hh; omega
        | cons v vs' => simp [storeGet]
      · have h1 : start + 1 ≤ p := by omega
        have h2 : p - start = (p - (start + 1)) + 1 := by omega
        simp only [h1, ↓reduceIte, h2, List.getElem?_cons_succ]
        cases vs with
        | nil => simp [storeGet]
        | cons v vs' =>
          have : (start == p) = false := by simpa using fun e => he e.symm
          simp [storeGet, this]
    · have h1 : ¬ start + 1 ≤ p := by omega
      simp only [hp, h1, ↓reduceIte]
      cases vs with
      | nil => simp [storeGet]
      | cons v vs' =>
        have : (start == p) = false := by simpa using fun e => hp (by omega)
        simp [storeGet, this]

theorem storeGet_storeOfHist (h : Hist) (p : Nat) (hp : 1 ≤ p) :
    storeGet (storeOfHist h) p = match h[p - 1]? with
      | some (v :: vs) => some (v :: vs)
      | _ => none := by
  unfold storeOfHist
  rw [storeGet_storeFrom]
  simp [hp]

private theorem exitValue_succ (h : Hist) (n : Nat) :
    exitValue h (n + 1) = match h[n]? with
      | some (v :: vs) => (v :: vs).getLast?
      | _ => exitValue h n := by
  unfold exitValue
  cases hn : h[n]? with
  | none =>
    have : h.length ≤ n := by simpa using hn
    simp [List.take_of_length_le this, List.take_of_length_le (Nat.le_succ_of_le this)]
  | some vs =>
    have hlt : n < h.length := by
      rcases Nat.lt_or_ge n h.length with h1 | h1
      · exact h1
      · have : h[n]? = none := by simpa using h1
        rw [this] at hn; cases hn
    have hget : h[n] = vs := by
      have := List.getElem?_eq_getElem hlt
      rw [this] at hn; exact Option.some.inj hn
    rw [List.take_succ_eq_append_getElem hlt, List.flatten_append, hget]
    cases vs with
    | nil => simp
    | cons v vs' =>
      simp only [List.flatten_cons, List.flatten_nil, List.append_nil]
      simp only [List.getLast?_append]
      cases hl : (v :: vs').getLast? with
      | none => simp at hl
      | some l => rfl

/-- The backward search of the code computes the exit value of the pages searched. -/
theorem searchBack_is_exit_value (h : Hist) (n : Nat) :
    searchBack (storeOfHist h) n = .ok (exitValue h n) := by
  induction n with
  | zero => simp [searchBack, exitValue]
  | succ n ih =>
    simp only [searchBack]
    rw [storeGet_storeOfHist h (n + 1) (by omega), exitValue_succ]
    simp only [Nat.add_sub_cancel]
    cases hn : h[n]? with
    | none => simpa using ih
    | some vs =>
      cases vs with
      | nil => simpa using ih
      | cons v vs' =>
        simp only
        cases hl : (v :: vs').getLast? with
        | none => simp at hl
        | some l => rfl

/-- **strings (refinement).**  For every history of assignments, every page, keyword and page start,
the lookup of `get_string_or_element_for` in the store built by `layout_document` returns exactly
the css-gcpm value — and never fails. -/
theorem strings_refine_spec (h : Hist) (cur : Nat) (hcur : 1 ≤ cur) (kw : Keyword) (chain : List Bool) :
    getStringFor (storeOfHist h) cur kw chain = .ok (specString h cur kw (chain.any id)) := by
  unfold getStringFor specString
  simp only
  rw [storeGet_storeOfHist h cur hcur, searchBack_is_exit_value]
  cases hc : h[cur - 1]? with
  | none => rfl
  | some vs =>
    cases vs with
    | nil => rfl
    | cons v vs' =>
      simp only [List.head?_cons]
      cases hl : (v :: vs').getLast? with
      | none => simp at hl
      | some l =>
        cases kw <;> simp
        split <;> rfl

example : specString [["a", "b"], [], ["c"]] 2 .first false = some "b" := by decide
example : specString [["a", "b"], [], ["c"]] 3 .firstExcept true = none := by decide
example : specString [["a", "b"], [], ["c"]] 1 .start false = none := by decide

/-- Consequence: the value shown on a page depends only on the history up to that page (later
assignments never change an earlier page). -/
theorem strings_depend_on_past_only (h h' : Hist) (cur : Nat) (hcur : 1 ≤ cur) (kw : Keyword) (s : Bool)
    (hpre : h.take cur = h'.take cur) : specString h cur kw s = specString h' cur kw s := by
  unfold specString exitValue
  have h1 : h.take (cur - 1) = h'.take (cur - 1) := by
    have := congrArg (List.take (cur - 1)) hpre
    simpa [List.take_take, Nat.min_eq_left (Nat.sub_le cur 1)] using this
  have h2 : h[cur - 1]? = h'[cur - 1]? := by
    cases cur with
    | zero => omega
    | succ n =>
      have e1 : h[n]? = (h.take (n + 1))[n]? := by rw [List.getElem?_take]; simp
      have e2 : h'[n]? = (h'.take (n + 1))[n]? := by rw [List.getElem?_take]; simp
      simp only [Nat.add_sub_cancel]
      rw [e1, e2, hpre]
  rw [h1, h2]

end Wp.C14
