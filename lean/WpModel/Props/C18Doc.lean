/-
C18 at document level — the links-and-anchors part of `generate_pdf` (`Model/C18DocLinks.lean`: `resolve_links`, then
`add_links` / `add_annotations` per page, then `sorted(pdf_names, key=key_bytes)`), i.e. the function the
sections `doc-pdf-links` and `doc-page-subset` compare with the `/Annots` and `/Names /Dests` of written PDFs,
tied to the function-level theorems of `Props/C18.lean`:

  * `doc_no_dangling`       every `/Link` annotation with a `/Dest` names a key of the `/Dests` array of the same file;
                            every key is there once;
  * `docDests_perm`         the `/Dests` array is a rearrangement of `pdf_names` (`allDests_names`: whose names are the
                            destinations of `resolve_links`, in its order);
  * `doc_dests_sorted`      … strictly increasing in the byte order of its keys;
  * `doc_dest_on_own_page`  every entry points into a page carrying an anchor of that name, at the image of that
                            anchor's point under the matrix of that page;
  * `doc_annot_rect_partial` every annotation is that of a link of its own page (type, target) and its `/Rect` is the
                            link's rectangle under the matrix of that page (pages with at most 100 000 links).
-/
import WpModel.Model.C18DocLinks
import WpModel.Props.C18

namespace Wp.C18
open Wp Wp.Anchors Wp.Outline Wp.DocLinks

theorem number_length {α} (l : List α) : ∀ n, (number n l).length = l.length := by
  induction l with
  | nil => intro n; rfl
  | cons x xs ih => intro n; simp [number, ih]

theorem number_flatMap {α β} (f : α → List β) (l : List α) :
    ∀ n, (number n l).flatMap (fun x => f x.2) = l.flatMap f := by
  induction l with
  | nil => intro n; rfl
  | cons x xs ih => intro n; simp [number, ih]

theorem number_mem_snd {α} (l : List α) : ∀ n x, x ∈ number n l → x.2 ∈ l := by
  induction l with
  | nil => intro n x h; simp [number] at h
  | cons y ys ih =>
    intro n x h
    simp only [number, List.mem_cons] at h
    rcases h with rfl | h
    · simp
    · exact List.mem_cons_of_mem _ (ih _ _ h)

theorem lpagesOf_length (pages : List DPage) : (lpagesOf pages).length = pages.length := by
  simp [lpagesOf, number_length]

theorem zip_resolved_snd (pages : List DPage) :
    (pages.zip (resolveLinks (lpagesOf pages))).map (·.2) = resolveLinks (lpagesOf pages) :=
  List.map_snd_zip (by rw [resolve_length, lpagesOf_length]; exact Nat.le_refl _)

/-- The entries of `pdf_names` carry exactly the destination names of `resolve_links`, in its order. -/
theorem allDests_names (scale : Rat) (pages : List DPage) :
    (allDests scale pages).map (·.name) = destNames (lpagesOf pages) := by
  unfold allDests destNames
  rw [List.map_flatMap]
  have h1 : ∀ (x : Nat × DPage × (List Outline.Link × List Anchor)),
      (pageDests scale x.1 x.2.1 x.2.2.2).map (·.name) = x.2.2.2.map (·.name) := by
    intro x; simp [pageDests]
  simp only [h1]
  rw [number_flatMap (fun (z : DPage × (List Outline.Link × List Anchor)) => z.2.2.map (·.name))]
  rw [List.map_flatMap]
  conv => rhs; rw [← zip_resolved_snd pages]
  rw [List.flatMap_map]

/-- Looking the numbered entries up again gives the entries back. -/
theorem number_lookup {α β} (k : α → β) (l : List α) : ∀ (pre : List α),
    ((number pre.length l).map (fun x => (k x.2, x.1))).filterMap
      (fun (x : β × Nat) => ((pre ++ l)[x.2]?).map fun d => (x.1, d)) = l.map (fun d => (k d, d)) := by
  induction l with
  | nil => intro pre; rfl
  | cons y ys ih =>
    intro pre
    simp only [number, List.map_cons, List.filterMap_cons]
    have h0 : (pre ++ y :: ys)[pre.length]? = some y := by simp
    rw [h0]
    simp only [Option.map_some]
    have := ih (pre ++ [y])
    simp only [List.length_append, List.length_cons, List.length_nil, List.append_assoc, List.cons_append,
      List.nil_append] at this
    rw [this]

theorem keyed_lookup (pages : List DPage) (dests : List Dest) :
    (keyed pages dests).filterMap (fun (x : List Nat × Nat) => (dests[x.2]?).map fun d => (x.1, d)) =
      dests.map (fun d => (cpsOf pages d.name, d)) := by
  have := number_lookup (fun (d : Dest) => cpsOf pages d.name) dests []
  simpa [keyed] using this

/-- The `/Dests` array is a rearrangement of `pdf_names`: nothing lost, nothing twice, each entry with
the code points of its own name. -/
theorem docDests_perm (scale : Rat) (pages : List DPage) :
    (docDests scale pages).Perm ((allDests scale pages).map fun d => (cpsOf pages d.name, d)) := by
  unfold docDests
  simp only []
  rw [← keyed_lookup]
  exact (sortNames_perm _).filterMap _

theorem docDests_names_perm (scale : Rat) (pages : List DPage) :
    ((docDests scale pages).map (·.2.name)).Perm (destNames (lpagesOf pages)) := by
  rw [← allDests_names scale pages]
  have := (docDests_perm scale pages).map (fun x => x.2.name)
  simpa [List.map_map, Function.comp_def] using this

/-- **No dangling link in the PDF.**  Every `/Link` annotation with a `/Dest` names a key of the
`/Names /Dests` array written in the same file; every key is there once. -/
theorem doc_no_dangling (scale : Rat) (pages : List DPage) :
    (∀ as ∈ docAnnots scale pages, ∀ a ∈ as, a.kind = "internal" →
      a.target ∈ (docDests scale pages).map (·.2.name)) ∧
    ((docDests scale pages).map (·.2.name)).Nodup := by
  constructor
  · intro as has a ha hk
    unfold docAnnots at has
    obtain ⟨z, hz, rfl⟩ := List.mem_map.mp has
    have hres : z.2 ∈ resolveLinks (lpagesOf pages) := by
      rw [← zip_resolved_snd pages]; exact List.mem_map_of_mem hz
    unfold pageAnnots at ha
    simp only [List.mem_append, List.mem_filterMap] at ha
    rcases ha with ⟨l, hl, hla⟩ | ⟨l, hl, hla⟩
    · unfold linkAnnotOf at hla
      split at hla
      · simp only [Option.some.injEq] at hla
        subst hla
        simp only at hk ⊢
        have := links_no_dangling (lpagesOf pages) z.2 hres l hl hk
        exact (docDests_names_perm scale pages).mem_iff.mpr this
      · cases hla
    · unfold fileAnnotOf at hla
      split at hla
      · simp only [Option.some.injEq] at hla
        subst hla
        simp at hk
      · cases hla
  · exact (docDests_names_perm scale pages).nodup_iff.mpr (anchors_once _)

theorem StrictSorted_fst (l l' : List (List Nat × Nat)) (h : l.map (·.1) = l'.map (·.1)) (hs : StrictSorted l) :
    StrictSorted l' := by
  induction l generalizing l' with
  | nil => cases l' with
    | nil => trivial
    | cons _ _ => simp at h
  | cons x xs ih =>
    cases l' with
    | nil => simp at h
    | cons x' xs' =>
      simp only [List.map_cons, List.cons.injEq] at h
      cases xs with
      | nil =>
        cases xs' with
        | nil => trivial
        | cons _ _ => simp at h
      | cons y ys =>
        cases xs' with
        | nil => simp at h
        | cons y' ys' =>
          simp only [List.map_cons, List.cons.injEq] at h
          refine ⟨?_, ih (y' :: ys') (by simp [h.2.1, h.2.2]) hs.2⟩
          have := hs.1
          rw [h.1, h.2.1] at this
          exact this

theorem filterMap_lookup_keys {δ} (dests : List δ) (l : List (List Nat × Nat)) (h : ∀ x ∈ l, x.2 < dests.length) :
    (l.filterMap fun (x : List Nat × Nat) => (dests[x.2]?).map fun d => (x.1, d)).map (·.1) = l.map (·.1) := by
  induction l with
  | nil => rfl
  | cons x xs ih =>
    have hx := h x (by simp)
    simp only [List.filterMap_cons, List.getElem?_eq_getElem hx, Option.map_some, List.map_cons]
    rw [ih (fun y hy => h y (List.mem_cons_of_mem _ hy))]

theorem number_index_lt {α} (l : List α) : ∀ n x, x ∈ number n l → x.1 < n + l.length := by
  induction l with
  | nil => intro n x h; simp [number] at h
  | cons y ys ih =>
    intro n x h
    simp only [number, List.mem_cons] at h
    rcases h with rfl | h
    · simp
    · have := ih _ _ h; simp only [List.length_cons]; omega

theorem nodup_map_on {α β} (f : α → β) (l : List α) (hnd : l.Nodup) (hinj : ∀ a ∈ l, ∀ b ∈ l, f a = f b → a = b) :
    (l.map f).Nodup := by
  induction l with
  | nil => simp
  | cons x xs ih =>
    simp only [List.nodup_cons, List.map_cons] at hnd ⊢
    refine ⟨?_, ih hnd.2 (fun a ha b hb => hinj a (List.mem_cons_of_mem _ ha) b (List.mem_cons_of_mem _ hb))⟩
    intro hm
    obtain ⟨y, hy, e⟩ := List.mem_map.mp hm
    have := hinj y (List.mem_cons_of_mem _ hy) x (by simp) e
    exact hnd.1 (this ▸ hy)

/-- The `/Names /Dests` array of the document is strictly increasing in the byte order of its keys as a
PDF reader compares them (ISO 32000-1 7.9.6), whatever the pages, anchors and links are — provided the
harness's code points are those of the names (distinct names have distinct code points, all scalar
values). -/
theorem doc_dests_sorted (scale : Rat) (pages : List DPage)
    (hinj : ∀ a ∈ destNames (lpagesOf pages), ∀ b ∈ destNames (lpagesOf pages),
      cpsOf pages a = cpsOf pages b → a = b)
    (hscalar : ∀ a ∈ destNames (lpagesOf pages), ∀ c ∈ cpsOf pages a, Scalar c) :
    StrictSorted (((docDests scale pages).map fun x => (x.1, x.2.page)).map withKey) := by
  have hlt : ∀ x ∈ sortNames (keyed pages (allDests scale pages)), x.2 < (allDests scale pages).length := by
    intro x hx
    have hx' := (sortNames_perm _).mem_iff.mp hx
    unfold keyed at hx'
    obtain ⟨y, hy, rfl⟩ := List.mem_map.mp hx'
    simpa using number_index_lt _ 0 y hy
  have hkeys : ((docDests scale pages).map fun x => (x.1, x.2.page)).map (·.1) =
      (sortNames (keyed pages (allDests scale pages))).map (·.1) := by
    rw [List.map_map]
    have := filterMap_lookup_keys (allDests scale pages) _ hlt
    simpa [docDests, Function.comp_def] using this
  have hnd : ((keyed pages (allDests scale pages)).map (fun e => keyBytes e.1)).Nodup := by
    have hk : (keyed pages (allDests scale pages)).map (·.1) =
        (destNames (lpagesOf pages)).map (cpsOf pages) := by
      rw [← allDests_names scale pages]
      unfold keyed
      generalize allDests scale pages = ds
      have : ∀ n, ((number n ds).map fun (x : Nat × Dest) => (cpsOf pages x.2.name, x.1)).map (·.1) =
          (ds.map (·.name)).map (cpsOf pages) := by
        induction ds with
        | nil => intro n; rfl
        | cons d ds ih => intro n; simp only [number, List.map_cons, ih]
      exact this 0
    have h2 : (keyed pages (allDests scale pages)).map (fun e => keyBytes e.1) =
        (destNames (lpagesOf pages)).map (fun n => keyBytes (cpsOf pages n)) := by
      have := congrArg (List.map keyBytes) hk
      simpa [List.map_map, Function.comp_def] using this
    rw [h2]
    apply nodup_map_on _ _ (anchors_once _)
    intro a ha b hb e
    exact hinj a ha b hb (keyBytes_injective _ _ (hscalar a ha) (hscalar b hb) e)
  have hs := sortNames_sorted _ hnd
  refine StrictSorted_fst _ _ ?_ hs
  rw [List.map_map, List.map_map]
  have := congrArg (List.map keyBytes) hkeys
  simpa [List.map_map, Function.comp_def, withKey] using this.symm

theorem number_getElem {α} (l : List α) : ∀ n x, x ∈ number n l → n ≤ x.1 ∧ l[x.1 - n]? = some x.2 := by
  induction l with
  | nil => intro n x h; simp [number] at h
  | cons y ys ih =>
    intro n x h
    simp only [number, List.mem_cons] at h
    rcases h with rfl | h
    · simp
    · obtain ⟨h1, h2⟩ := ih _ _ h
      refine ⟨by omega, ?_⟩
      have : x.1 - n = (x.1 - (n + 1)) + 1 := by omega
      rw [this, List.getElem?_cons_succ]; exact h2

theorem lpagesOf_anchors (pages : List DPage) (i : Nat) (p : DPage) (h : pages[i]? = some p) :
    ∃ lp, (lpagesOf pages)[i]? = some lp ∧ lp.anchors = p.anchors.map (·.1) := by
  unfold lpagesOf
  have : ∀ (l : List DPage) (n i : Nat) (p : DPage), l[i]? = some p →
      ∃ x : Nat × DPage, (number n l)[i]? = some x ∧ x.2 = p := by
    intro l
    induction l with
    | nil => intro n i p h; simp at h
    | cons y ys ih =>
      intro n i p h
      cases i with
      | zero => simp only [List.getElem?_cons_zero, Option.some.injEq] at h; exact ⟨(n, y), by simp [number], h⟩
      | succ j => simp only [List.getElem?_cons_succ] at h; simpa [number] using ih (n + 1) j p h
  obtain ⟨x, hx, hxp⟩ := this pages 0 i p h
  refine ⟨_, by rw [List.getElem?_map, hx]; rfl, by simp [hxp]⟩

/-- Every entry of `pdf_names` points into a page that carries an anchor of that name, at the image of
that anchor's point under the matrix of **that** page (`/XYZ` in PDF units from the bottom of the page). -/
theorem doc_dest_on_own_page (scale : Rat) (pages : List DPage) :
    ∀ d ∈ allDests scale pages, ∃ p, pages[d.page]? = some p ∧ ∃ a ∈ p.anchors, a.1.name = d.name ∧
      (d.x, d.y) = (pageMatrix scale p.height).transformPoint a.1.x a.1.y := by
  intro d hd
  unfold allDests at hd
  obtain ⟨x, hx, hdx⟩ := List.mem_flatMap.mp hd
  obtain ⟨_, hget⟩ := number_getElem _ 0 x hx
  simp only [Nat.sub_zero] at hget
  obtain ⟨hp, hr⟩ := List.getElem?_zip_eq_some.mp hget
  unfold pageDests at hdx
  obtain ⟨a, ha, rfl⟩ := List.mem_map.mp hdx
  refine ⟨x.2.1, hp, ?_⟩
  obtain ⟨lp, hlp, hanch⟩ := lpagesOf_anchors pages x.1 x.2.1 hp
  have hi : x.1 < (lpagesOf pages).length := by
    have := List.getElem?_eq_some_iff.mp hlp; exact this.1
  have hsub := anchors_on_own_page (lpagesOf pages) x.1 hi
  have e1 : (resolveLinks (lpagesOf pages))[x.1]'(by rw [resolve_length]; exact hi) = x.2.2 := by
    have := List.getElem?_eq_some_iff.mp hr; exact this.2
  have e2 : (lpagesOf pages)[x.1] = lp := (List.getElem?_eq_some_iff.mp hlp).2
  rw [e1, e2, hanch] at hsub
  obtain ⟨b, hb, hba⟩ := List.mem_map.mp (hsub.subset ha)
  exact ⟨b, hb, by rw [hba], by rw [hba]⟩


/-! ## a concrete document -/

/-- Two pages: `z` on the first; `aé` and a second `z` on the second; the first page links to `aé`, to a
missing `nope` and has an attachment link. -/
def exampleDoc : List DPage :=
  [⟨100, [(⟨"z", 0, 0⟩, [122])],
    [⟨"internal", "aé", ⟨0, 0, 10, 10⟩⟩, ⟨"internal", "nope", ⟨0, 20, 10, 30⟩⟩, ⟨"attachment", "u", ⟨0, 40, 10, 50⟩⟩]⟩,
   ⟨200, [(⟨"aé", 0, 20⟩, [97, 233]), (⟨"z", 5, 5⟩, [122])], []⟩]

/-- The link to `nope` is dropped, `z` (first page) sorts before `aé` (`<FEFF…>`), and `aé` lies 20 px below
the top of a 200 px page: (200 − 20)·¾ = 135 pt. -/
example :
    (docAnnots (3 / 4) exampleDoc).map (·.map fun a => (a.kind, a.target)) =
      [[("internal", "aé"), ("attachment", "u")], []] ∧
    (docDests (3 / 4) exampleDoc).map (·.2) = [⟨"z", 0, 0, 75⟩, ⟨"aé", 1, 0, 135⟩] := by decide +kernel

/-- The hypotheses of `doc_dests_sorted` hold for it. -/
example :
    (∀ a ∈ destNames (lpagesOf exampleDoc), ∀ b ∈ destNames (lpagesOf exampleDoc),
      cpsOf exampleDoc a = cpsOf exampleDoc b → a = b) ∧
    (∀ a ∈ destNames (lpagesOf exampleDoc), ∀ c ∈ cpsOf exampleDoc a, Scalar c) :=
  ⟨by decide, fun a ha c hc =>
    (by decide : ∀ a ∈ destNames (lpagesOf exampleDoc), ∀ c ∈ cpsOf exampleDoc a,
      c < 1114112 ∧ ¬ (55296 ≤ c ∧ c < 57344)) a ha c hc⟩

end Wp.C18

/-! ## each annotation covers its link -/

namespace Wp.C18
open Wp Wp.Anchors Wp.Outline Wp.DocLinks

theorem number_get {α} (l : List α) : ∀ (n i : Nat) (p : α), l[i]? = some p → (number n l)[i]? = some (n + i, p) := by
  induction l with
  | nil => intro n i p h; simp at h
  | cons y ys ih =>
    intro n i p h
    cases i with
    | zero => simp only [List.getElem?_cons_zero, Option.some.injEq] at h; simp [number, h]
    | succ j =>
      simp only [List.getElem?_cons_succ] at h
      have := ih (n + 1) j p h
      simp only [number, List.getElem?_cons_succ, this]
      congr 2; omega

theorem lpagesOf_get (pages : List DPage) (i : Nat) (p : DPage) (h : pages[i]? = some p) :
    (lpagesOf pages)[i]? = some ⟨p.anchors.map (·.1),
      (number 0 p.links).map fun (y : Nat × DLink) => ⟨y.2.type, y.2.target, i * 100000 + y.1⟩⟩ := by
  unfold lpagesOf
  rw [List.getElem?_map, number_get pages 0 i p h]
  simp

/-- What `resolve_links` leaves of a page's links is a selection of that page's links. -/
theorem resolved_links_subset (L : List LPage) (i : Nat) (lp : LPage) (res : List Outline.Link × List Anchor)
    (hl : L[i]? = some lp) (hr : (resolveLinks L)[i]? = some res) : ∀ l ∈ res.1, l ∈ lp.links := by
  have h := congrArg (fun x => x[i]?) (links_kept L)
  simp only [List.getElem?_map, hr, hl, Option.map_some] at h
  intro l hlm
  have : res.1 = lp.links.filter _ := Option.some.inj h
  rw [this] at hlm
  exact (List.mem_filter.mp hlm).1

/-- **Each annotation covers its link.**  On every page, every `/Link` and `/FileAttachment` annotation is
that of a link of *this* page — same type, same target — and its `/Rect` is the link's rectangle under
the matrix of this page.  `_partial`: for pages with at most 100 000 links (the link ids of the model are
`page index · 100000 + index in the page`). -/
theorem doc_annot_rect_partial (scale : Rat) (pages : List DPage)
    (hsmall : ∀ p ∈ pages, p.links.length ≤ 100000) :
    ∀ z ∈ pages.zip (resolveLinks (lpagesOf pages)), ∀ a ∈ pageAnnots scale pages z.1 z.2.1,
      ∃ d ∈ z.1.links, d.type = a.kind ∧ d.target = a.target ∧
        a.rect = some (annotRect (pageMatrix scale z.1.height) d.rect) := by
  intro z hz a ha
  obtain ⟨i, hi⟩ := List.mem_iff_getElem?.mp hz
  obtain ⟨hp, hr⟩ := List.getElem?_zip_eq_some.mp hi
  have hL := lpagesOf_get pages i z.1 hp
  have key : ∀ l ∈ z.2.1, ∃ d ∈ z.1.links, d.type = l.type ∧ d.target = l.target ∧
      rectOfLink pages l = some d.rect := by
    intro l hl
    have hl' := resolved_links_subset _ i _ z.2 hL hr l hl
    obtain ⟨y, hy, rfl⟩ := List.mem_map.mp hl'
    obtain ⟨_, hget⟩ := number_getElem _ 0 y hy
    simp only [Nat.sub_zero] at hget
    have hj : y.1 < z.1.links.length := (List.getElem?_eq_some_iff.mp hget).1
    have hlen := hsmall z.1 (List.mem_of_getElem? hp)
    refine ⟨y.2, List.mem_of_getElem? hget, rfl, rfl, ?_⟩
    unfold rectOfLink
    have e1 : (i * 100000 + y.1) / 100000 = i := by omega
    have e2 : (i * 100000 + y.1) % 100000 = y.1 := by omega
    simp only [e1, e2, hp, Option.bind_some, hget, Option.map_some]
  unfold pageAnnots at ha
  simp only [List.mem_append, List.mem_filterMap] at ha
  rcases ha with ⟨l, hl, hla⟩ | ⟨l, hl, hla⟩
  · obtain ⟨d, hd, h1, h2, h3⟩ := key l hl
    unfold linkAnnotOf at hla
    split at hla
    · simp only [Option.some.injEq] at hla
      subst hla
      exact ⟨d, hd, h1, h2, by simp [h3]⟩
    · cases hla
  · obtain ⟨d, hd, h1, h2, h3⟩ := key l hl
    unfold fileAnnotOf at hla
    split at hla
    · rename_i ht
      simp only [Option.some.injEq] at hla
      subst hla
      exact ⟨d, hd, by rw [h1]; simpa using ht, h2, by simp [h3]⟩
    · cases hla

example : (∀ p ∈ exampleDoc, p.links.length ≤ 100000) ∧
    (docAnnots (3 / 4) exampleDoc).map (·.map (·.rect)) =
      [[some ⟨0, 75, 15 / 2, 135 / 2⟩, some ⟨0, 45, 15 / 2, 75 / 2⟩], []] := by
  refine ⟨by decide, by decide +kernel⟩

end Wp.C18
