/-
C16 / C17 — the caches of `Stream` are sound also around the raw setters that bypass them, under the discipline of the
drawing code (Lemmas/PdfCacheScoped).
-/
import WpModel.Lemmas.PdfCacheScoped

namespace Wp.C16
open Wp Wp.Pdf

/-- **cache_sound_scoped**: `cache_sound` without its `cacheSafe` hypothesis.  For *every* call sequence — the raw
setters `set_color_space`, `set_color_special` and a bare `set_state` with `ca` / `CA` included — that follows the
discipline `scopedOK` (after a raw setter, no `set_color` / `set_alpha` on that stream before the next `pop_state`:
what `draw_background_image`, the SVG paint servers and gradients do, inside `with stacked(stream)` — checked on every
recorded `write_pdf` of the correspondence runs, `cs=ok`), with consistently converted colours: if the real emission
succeeds, the cache-free reference emission succeeds with the same resource dictionary and the reference graphics-state
interpreter sees the same painting operators under the same fill colour, stroke colour, fill alpha, stroke alpha and
font in both streams. -/
theorem cache_sound_scoped (mark : Bool) (r : Res) (calls : List Call)
    (hok : scopedOK false calls = true) (hcons : Consistent (callColours calls))
    (sc' : SState) (r' : Res) (hrun : runS r { mark := mark } calls = .ok (sc', r')) :
    ∃ sn', runNaive r { mark := mark } calls = .ok (sn', r') ∧ paints sc'.rops = paints sn'.rops ∧
      G sc'.rops = G sn'.rops := by
  obtain ⟨sn', hn, hsim⟩ := run_sim_scoped (callColours calls) hcons calls false hok
    (fun col st h => mem_callColours calls col st h)
    (show SimD (callColours calls) r false _ _ from Sim.init _ r mark) sc' r' hrun
  exact ⟨sn', hn, hsim.p, hsim.g⟩

/-- Every `cacheSafe` sequence follows the discipline: `cache_sound` is an instance. -/
theorem scopedOK_of_cacheSafe (calls : List Call) (h : ∀ c ∈ calls, c.cacheSafe = true) :
    scopedOK false calls = true := by
  induction calls with
  | nil => rfl
  | cons c cs ih =>
    have hc : c.dirtying = false := by simp [Call.dirtying, h c List.mem_cons_self]
    simp only [scopedOK, hc, Bool.false_eq_true, if_false]
    exact ih (fun x hx => h x (List.mem_cons_of_mem _ hx))

private def red : Colour := ⟨"srgb", .flt 1, .flt 0, .flt 0, .flt 1, .flt 1, .flt 0, .flt 0⟩

/-- Non-vacuity: what `draw_background_image` does between two texts of the same colour — `stacked`: pattern colour
space, pattern, rectangle, fill — follows the discipline (and is not `cacheSafe`) … -/
example : scopedOK false [.setColor red false, .raw .fill [] false "-", .push, .setColorSpace "Pattern" false,
    .setColorSpecial (some 0) false [], .raw .rectangle [.int 0, .int 0, .int 9, .int 9] false "-", .raw .fill [] false "-",
    .pop, .setColor red false, .raw .fill [] false "-"] = true := by decide

/-- Fill colour under which every painting operator of a run is executed (empty on a Python exception). -/
def fillsOf (x : Except PyErr (SState × Res)) : List (List Op) :=
  match x with
  | .ok p => (paints p.1.rops).map (·.2.fill)
  | .error _ => []

/-- … and the discipline is needed: the same calls without the `stacked` are rejected by it, and indeed the last fill is
then painted with the pattern instead of the requested red (the cached `set_color` is skipped). -/
example : scopedOK false [.setColor red false, .setColorSpace "Pattern" false, .setColorSpecial (some 0) false [],
      .setColor red false, .raw .fill [] false "-"] = false ∧
    fillsOf (runS {} {} [.setColor red false, .setColorSpace "Pattern" false, .setColorSpecial (some 0) false [],
        .setColor red false, .raw .fill [] false "-"]) ≠
    fillsOf (runNaive {} {} [.setColor red false, .setColorSpace "Pattern" false, .setColorSpecial (some 0) false [],
        .setColor red false, .raw .fill [] false "-"]) := by
  constructor
  · decide
  · decide +kernel

end Wp.C16
