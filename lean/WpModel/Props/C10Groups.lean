/-
C10 — header and footer groups: only the first `table-header-group` / `table-footer-group` is the
header / footer, every other group is a body group, and every group (hence every row) is in
`table.children` exactly once (`Model/TableGroupOrder.lean` ↔ `wrap_table` of
`weasyprint/formatting_structure/build.py`).  Correspondence: section `doc-group-order` of
`py/props/c10.py` (rendered tables with several thead / tbody / tfoot in any order).
-/
import WpModel.Model.TableGroupOrder
import Mathlib.Tactic.Linarith

namespace Wp.C10Groups
open Wp Wp.TableGroups

private def optList (o : Option Nat) : List Nat := match o with | some x => [x] | none => []

private theorem layoutOrder_eq (s : Split) : layoutOrder s = optList s.header ++ s.bodies ++ optList s.footer := by
  unfold layoutOrder optList
  rfl

private theorem splitFrom_perm (i : Nat) (ks : List GKind) (h f : Option Nat) (acc : List Nat) :
    (layoutOrder (splitFrom i ks h f acc)).Perm
      (optList h ++ optList f ++ acc ++ List.range' i ks.length) := by
  induction ks generalizing i h f acc with
  | nil =>
    simp only [splitFrom, layoutOrder_eq, List.length_nil, List.range'_zero, List.append_nil]
    have h1 : (optList h ++ acc.reverse ++ optList f).Perm (optList h ++ (acc.reverse ++ optList f)) := by
      rw [List.append_assoc]
    refine h1.trans ?_
    rw [List.append_assoc]
    refine List.Perm.append_left _ ?_
    exact (List.perm_append_comm).trans (List.Perm.append_left _ (List.reverse_perm acc))
  | cons k ks ih =>
    unfold splitFrom
    simp only [List.length_cons, List.range'_succ]
    split
    · rename_i hc
      refine (ih (i + 1) (some i) f acc).trans ?_
      rw [hc.2]
      simp only [optList, List.nil_append, List.cons_append]
      -- i :: (f ++ acc ++ rest)  ~  f ++ acc ++ i :: rest
      have : (i :: (optList f ++ acc ++ List.range' (i + 1) ks.length)).Perm
          (optList f ++ acc ++ i :: List.range' (i + 1) ks.length) :=
        (List.perm_middle (a := i) (l₁ := optList f ++ acc) (l₂ := List.range' (i + 1) ks.length)).symm
      simpa [optList, List.append_assoc] using this
    · split
      · rename_i _ hc
        refine (ih (i + 1) h (some i) acc).trans ?_
        rw [hc.2]
        simp only [optList, List.append_nil]
        have : (optList h ++ [i] ++ acc ++ List.range' (i + 1) ks.length).Perm
            (optList h ++ acc ++ i :: List.range' (i + 1) ks.length) := by
          rw [List.append_assoc, List.append_assoc, List.append_assoc]
          refine List.Perm.append_left _ ?_
          simp only [List.singleton_append]
          exact (List.perm_middle (a := i) (l₁ := acc) (l₂ := List.range' (i + 1) ks.length)).symm
        simpa [optList] using this
      · refine (ih (i + 1) h f (i :: acc)).trans ?_
        have : (optList h ++ optList f ++ i :: acc ++ List.range' (i + 1) ks.length).Perm
            (optList h ++ optList f ++ acc ++ i :: List.range' (i + 1) ks.length) := by
          rw [List.append_assoc, List.append_assoc (optList h ++ optList f) acc]
          refine List.Perm.append_left _ ?_
          simp only [List.cons_append]
          exact (List.perm_middle (a := i) (l₁ := acc) (l₂ := List.range' (i + 1) ks.length)).symm
        exact this

/-- **groups_once.**  After the extraction every row group of the table — first header, first footer,
and all the others, further `thead`s and `tfoot`s included — is in `table.children` exactly once: no
group, hence no row, is lost or duplicated. -/
theorem groups_once (kinds : List GKind) :
    (layoutOrder (split kinds)).Perm (List.range kinds.length) := by
  have := splitFrom_perm 0 kinds none none []
  simpa [split, optList, List.range_eq_range'] using this

private theorem splitFrom_header (i : Nat) (ks : List GKind) (f : Option Nat) (acc : List Nat) :
    (splitFrom i ks none f acc).header = (ks.idxOf? GKind.header).map (i + ·) ∧
    ∀ h0, ∀ f' acc', (splitFrom i ks (some h0) f' acc').header = some h0 := by
  induction ks generalizing i f acc with
  | nil => exact ⟨by simp [splitFrom], fun h0 f' acc' => by simp [splitFrom]⟩
  | cons k ks ih =>
    constructor
    · unfold splitFrom
      by_cases hk : k = .header
      · subst hk
        rw [if_pos ⟨rfl, rfl⟩, (ih (i + 1) f acc).2 i f acc]
        try simp [List.idxOf?_cons]
      · have hne : ¬ (k = GKind.header ∧ (none : Option Nat) = none) := fun h => hk h.1
        rw [if_neg hne]
        have hidx : (k :: ks).idxOf? GKind.header = (ks.idxOf? GKind.header).map (· + 1) := by
          simp [List.idxOf?_cons, hk]
        rw [hidx]
        by_cases hf : k = GKind.footer ∧ f = none
        · rw [if_pos hf, (ih (i + 1) (some i) acc).1]
          cases ks.idxOf? GKind.header <;> simp; omega
        · rw [if_neg hf, (ih (i + 1) f (i :: acc)).1]
          cases ks.idxOf? GKind.header <;> simp; omega
    · intro h0 f' acc'
      unfold splitFrom
      have hne : ¬ (k = GKind.header ∧ (some h0 : Option Nat) = none) := fun h => by cases h.2
      simp only [hne, if_false]
      split
      · exact (ih (i + 1) f' acc').2 h0 _ _
      · exact (ih (i + 1) f' acc').2 h0 _ _

/-- **header_is_first.**  The header is the first group with `display: table-header-group` (there is
none iff the table has no such group). -/
theorem header_is_first (kinds : List GKind) : (split kinds).header = kinds.idxOf? GKind.header := by
  have := (splitFrom_header 0 kinds none []).1
  simpa [split] using this

private theorem splitFrom_footer (i : Nat) (ks : List GKind) (h : Option Nat) (acc : List Nat) :
    (splitFrom i ks h none acc).footer = (ks.idxOf? GKind.footer).map (i + ·) ∧
    ∀ f0, ∀ h' acc', (splitFrom i ks h' (some f0) acc').footer = some f0 := by
  induction ks generalizing i h acc with
  | nil => exact ⟨by simp [splitFrom], fun f0 h' acc' => by simp [splitFrom]⟩
  | cons k ks ih =>
    constructor
    · unfold splitFrom
      by_cases hh : k = GKind.header ∧ h = none
      · rw [if_pos hh]
        have hk : ¬ k = GKind.footer := by rw [hh.1]; decide
        have hidx : (k :: ks).idxOf? GKind.footer = (ks.idxOf? GKind.footer).map (· + 1) := by
          simp [List.idxOf?_cons, hk]
        rw [hidx, (ih (i + 1) (some i) acc).1]
        cases ks.idxOf? GKind.footer <;> simp; omega
      · rw [if_neg hh]
        by_cases hk : k = GKind.footer
        · subst hk
          rw [if_pos ⟨rfl, rfl⟩, (ih (i + 1) h acc).2 i h acc]
          try simp [List.idxOf?_cons]
        · have hne : ¬ (k = GKind.footer ∧ (none : Option Nat) = none) := fun hc => hk hc.1
          rw [if_neg hne]
          have hidx : (k :: ks).idxOf? GKind.footer = (ks.idxOf? GKind.footer).map (· + 1) := by
            simp [List.idxOf?_cons, hk]
          rw [hidx, (ih (i + 1) h (i :: acc)).1]
          cases ks.idxOf? GKind.footer <;> simp; omega
    · intro f0 h' acc'
      unfold splitFrom
      have hne : ¬ (k = GKind.footer ∧ (some f0 : Option Nat) = none) := fun hc => by cases hc.2
      by_cases hh : k = GKind.header ∧ h' = none
      · rw [if_pos hh]; exact (ih (i + 1) h' acc').2 f0 _ _
      · rw [if_neg hh, if_neg hne]; exact (ih (i + 1) h' acc').2 f0 _ _

/-- **footer_is_first.**  The footer is the first group with `display: table-footer-group`; a second
`tfoot` is never the footer (what the seeded change C10-8 broke). -/
theorem footer_is_first (kinds : List GKind) : (split kinds).footer = kinds.idxOf? GKind.footer := by
  have := (splitFrom_footer 0 kinds none []).1
  simpa [split] using this

private theorem splitFrom_bodies_sorted (i : Nat) (ks : List GKind) (h f : Option Nat) (acc : List Nat)
    (hacc : acc.reverse.Pairwise (· < ·)) (hlt : ∀ a ∈ acc, a < i) :
    (splitFrom i ks h f acc).bodies.Pairwise (· < ·) := by
  induction ks generalizing i h f acc with
  | nil => simpa [splitFrom] using hacc
  | cons k ks ih =>
    unfold splitFrom
    split
    · exact ih (i + 1) _ _ acc hacc (fun a ha => Nat.lt_succ_of_lt (hlt a ha))
    · split
      · exact ih (i + 1) _ _ acc hacc (fun a ha => Nat.lt_succ_of_lt (hlt a ha))
      · apply ih (i + 1) _ _ (i :: acc)
        · rw [List.reverse_cons, List.pairwise_append]
          refine ⟨hacc, List.pairwise_singleton _ _, ?_⟩
          intro a ha b hb
          simp only [List.mem_singleton] at hb
          subst hb
          exact hlt a (List.mem_reverse.mp ha)
        · intro a ha
          rcases List.mem_cons.mp ha with rfl | ha
          · exact Nat.lt_succ_self _
          · exact Nat.lt_succ_of_lt (hlt a ha)

/-- **bodies_in_source_order.**  The groups that are not the header or the footer — further `thead`s and
`tfoot`s among them — are laid out in source order. -/
theorem bodies_in_source_order (kinds : List GKind) : (split kinds).bodies.Pairwise (· < ·) :=
  splitFrom_bodies_sorted 0 kinds none none [] (by simp) (by simp)

/-- Non-vacuity, and the input of the seeded change C10-8: `thead, tbody, tfoot, tfoot` — the first
`tfoot` is the footer, the second one is a body group laid out (once) after the `tbody`. -/
example : split [.header, .body, .footer, .footer] = ⟨some 0, some 2, [1, 3]⟩ ∧
    layoutOrder (split [.header, .body, .footer, .footer]) = [0, 1, 3, 2] ∧
    split [.footer, .header, .header, .body] = ⟨some 1, some 0, [2, 3]⟩ := by
  refine ⟨by decide, by decide, by decide⟩

end Wp.C10Groups
