/-
C06 — relative units `ex` / `ch`: the per-document cache of `character_ratio` is transparent.
Whatever lengths were computed before in the same document, `character_ratio(style, c)` is the
ratio of the style's own font for the character `c` (`ex` against the x-height, `ch` against the
advance of `0`): "relative values compute against the correct reference".
-/
import WpModel.Model.RatioCache
import WpModel.Model.CssWide
import WpModel.Props.C06

namespace Wp.C06
open Wp Wp.RatioCache Wp.Cascade Wp.Computed Wp.Style Wp.StyleDoc Wp.Gen.Units

/-- What `_font_style_cache_key` promises: two styles with the same key have the same font, so
Pango measures the same ratios for them. -/
def KeyDetermines (m : Measure) (reqs : List Req) : Prop :=
  ∀ r ∈ reqs, ∀ r' ∈ reqs, r.key = r'.key → ∀ b, m r.style b = m r'.style b

/-- Invariant of the shared cache: an entry of a table is the measurement, for that table's
character, of every style of the document with that key. -/
def CacheOk (m : Measure) (reqs : List Req) (c : Cache) : Prop :=
  (∀ k v, find k c.ex = some v → ∀ r ∈ reqs, r.key = k → m r.style true = v) ∧
  (∀ k v, find k c.ch = some v → ∀ r ∈ reqs, r.key = k → m r.style false = v)

private theorem find_cons (k a : String) (b : Rat) (t : List (String × Rat)) (v : Rat)
    (h : find k ((a, b) :: t) = some v) : (a = k ∧ b = v) ∨ (a ≠ k ∧ find k t = some v) := by
  simp only [find] at h
  by_cases hak : (a == k) = true
  · simp only [hak, if_true, Option.some.injEq] at h
    exact Or.inl ⟨by simpa using hak, h⟩
  · simp only [hak, Bool.false_eq_true, if_false] at h
    exact Or.inr ⟨by simpa using hak, h⟩

private theorem step_spec (m : Measure) (all : List Req) (hk : KeyDetermines m all) (c : Cache)
    (hc : CacheOk m all c) (r : Req) (hr : r ∈ all) :
    (characterRatio m c r).1 = fresh m r ∧ CacheOk m all (characterRatio m c r).2 := by
  unfold characterRatio fresh
  by_cases hbad : (r.character != "x" && r.character != "0") = true
  · simp only [hbad, if_true]
    exact ⟨trivial, hc⟩
  · simp only [hbad, Bool.false_eq_true, if_false]
    by_cases hx : (r.character == "x") = true
    · -- the `ex` table
      simp only [hx, if_true]
      cases hf : find r.key c.ex with
      | some v =>
        simp only
        exact ⟨by rw [hc.1 r.key v hf r hr rfl], hc⟩
      | none =>
        simp only
        refine ⟨trivial, ?_, hc.2⟩
        intro k v hfind r' hr' hkey
        rcases find_cons k r.key _ c.ex v hfind with ⟨h1, h2⟩ | ⟨_, h2⟩
        · rw [← h2]
          exact hk r' hr' r hr (by rw [hkey, h1]) true
        · exact hc.1 k v h2 r' hr' hkey
    · -- the `ch` table
      simp only [hx, Bool.false_eq_true, if_false]
      cases hf : find r.key c.ch with
      | some v =>
        simp only
        exact ⟨by rw [hc.2 r.key v hf r hr rfl], hc⟩
      | none =>
        simp only
        refine ⟨trivial, hc.1, ?_⟩
        intro k v hfind r' hr' hkey
        rcases find_cons k r.key _ c.ch v hfind with ⟨h1, h2⟩ | ⟨_, h2⟩
        · rw [← h2]
          exact hk r' hr' r hr (by rw [hkey, h1]) false
        · exact hc.2 k v h2 r' hr' hkey

private theorem runSeq_spec (m : Measure) (all : List Req) (hk : KeyDetermines m all) :
    ∀ (rs : List Req) (c : Cache), (∀ r ∈ rs, r ∈ all) → CacheOk m all c →
      runSeq m c rs = rs.map (fresh m) := by
  intro rs
  induction rs with
  | nil => intro c _ _; rfl
  | cons r rest ih =>
    intro c hsub hc
    have hstep := step_spec m all hk c hc r (hsub r (by simp))
    simp only [runSeq, List.map_cons]
    rw [hstep.1, ih _ (fun x hx => hsub x (by simp [hx])) hstep.2]

/-- **The cache is transparent.**  For every sequence of `character_ratio` calls made on the styles
of one document (any order, any interleaving of `ex` and `ch`, any number of styles and fonts),
starting from the empty cache of a new document, every call returns the ratio of its own style for
its own character — provided the cache key determines the font (`KeyDetermines`). -/
theorem ratio_cache_transparent (m : Measure) (reqs : List Req) (hk : KeyDetermines m reqs) :
    runSeq m {} reqs = reqs.map (fresh m) :=
  runSeq_spec m reqs hk reqs {} (fun _ h => h)
    ⟨fun k v h => by simp [find] at h, fun k v h => by simp [find] at h⟩

/-- … and from any cache left by earlier calls of the same document. -/
theorem ratio_cache_transparent_from (m : Measure) (before after : List Req)
    (hk : KeyDetermines m (before ++ after)) :
    (runSeq m {} (before ++ after)).drop before.length = after.map (fresh m) := by
  rw [ratio_cache_transparent m (before ++ after) hk]
  simp

/-- Consequence for the two units: after any history, `1ex` and `1ch` of the same style are its
x-height ratio and its `0`-advance ratio — never each other's. -/
theorem ex_and_ch_keep_their_references (m : Measure) (history : List Req) (s : Nat) (key : String)
    (hk : KeyDetermines m (history ++ [⟨s, key, "0"⟩, ⟨s, key, "x"⟩])) :
    (runSeq m {} (history ++ [⟨s, key, "0"⟩, ⟨s, key, "x"⟩])).drop history.length
      = [.ok (m s false), .ok (m s true)] := by
  rw [ratio_cache_transparent_from m history _ hk]
  rfl

/-- Non-vacuity, and why the character must be part of the key: with DejaVu Sans' ratios
(x-height 0.54688, advance of `0` 0.63623) the real two-table cache answers `ch` then `ex` of one
style correctly, while a single table keyed by the font properties alone hands the `0`-advance
ratio to the `ex` request. -/
def dejaVu : Measure := fun _ isEx => if isEx then 54688 / 100000 else 63623 / 100000

example : KeyDetermines dejaVu [⟨0, "sans", "0"⟩, ⟨1, "sans", "x"⟩] := by
  intro r _ r' _ _ b; rfl

theorem merged_cache_not_transparent :
    (runSeq dejaVu {} [⟨0, "sans", "0"⟩, ⟨1, "sans", "x"⟩]).map Except.toOption
      = [some (63623 / 100000), some (54688 / 100000)] ∧
    (runSeqMerged dejaVu [] [⟨0, "sans", "0"⟩, ⟨1, "sans", "x"⟩]).map Except.toOption
      = [some (63623 / 100000), some (63623 / 100000)] := by
  decide +kernel

/-- A character other than `x` / `0` fails the assertion and leaves the cache as it is. -/
theorem ratio_bad_character (m : Measure) (c : Cache) (s : Nat) (key ch : String)
    (h1 : ch ≠ "x") (h2 : ch ≠ "0") :
    ∃ site, characterRatio m c ⟨s, key, ch⟩ = (.error (.assertion site), c) := by
  unfold characterRatio
  simp [h1, h2]

/-! ## `ex` and `ch` in `length`, and on the element -/

/-- `ex` computes against the element's own font size times the x-height ratio of its font … -/
theorem length_ex_own (env : Env) (q : Rat) (hq : q ≠ 0) (po : Bool) :
    length env (.dim q "ex") none po = (env.fontSize ()).map (fun f => px po (q * f * env.exRatio)) := by
  have h := relative_units_not_absolute.2.1
  unfold length
  simp [hq, h, px]
  cases env.fontSize () <;> simp [bind, Except.bind, Except.map] <;> rfl

/-- … `ch` against the advance of `0` … -/
theorem length_ch_own (env : Env) (q : Rat) (hq : q ≠ 0) (po : Bool) :
    length env (.dim q "ch") none po = (env.fontSize ()).map (fun f => px po (q * f * env.chRatio)) := by
  have h := relative_units_not_absolute.2.2.1
  unfold length
  simp [hq, h, px]
  cases env.fontSize () <;> simp [bind, Except.bind, Except.map] <;> rfl

/-- … and on `font-size` itself against the *parent's* font size (the `font_size` argument), with
the ratios of the element's own font. -/
theorem length_ex_ch_given (env : Env) (q : Rat) (hq : q ≠ 0) (f : Rat) (po : Bool) :
    length env (.dim q "ex") (some f) po = .ok (px po (q * f * env.exRatio)) ∧
    length env (.dim q "ch") (some f) po = .ok (px po (q * f * env.chRatio)) := by
  have h1 := relative_units_not_absolute.2.1
  have h2 := relative_units_not_absolute.2.2.1
  constructor <;> unfold length <;> simp [hq, h1, h2, px]

/-- The two ratios of an element are the ones of its own style (`Elem.ratios`, what
`character_ratio` measures for its font), not those of any other element of the chain. -/
theorem env_ratios_are_own (e : Elem) (parent : ParentGet) (root : Unit → Except CErr Rat)
    (ex ch rx rc : Rat) (hr : e.ratios = some (rx, rc)) :
    (fullEnv e parent root ex ch).exRatio = rx ∧ (fullEnv e parent root ex ch).chRatio = rc := by
  simp [fullEnv, fontEnv, hr]

/-- `width: q ex` on an element: `q × own font size × own x-height ratio` px — and the same with
`ch`.  With `ratio_cache_transparent` (the ratio `length` receives from the per-document cache is
the style's own, whatever was computed before) this is the document-level statement for the two
font-relative units. -/
theorem width_ex_ch_use_own_font (e : Elem) (parent : ParentGet) (root : Unit → Except CErr Rat)
    (ex ch rx rc : Rat) (q : Rat) (hq : q ≠ 0) (hr : e.ratios = some (rx, rc)) :
    (lookup "width" e.cascaded = some (.val (.dim q "ex")) →
      computedKey e parent root ex ch "width" =
        (ownFontSize e parent root ex ch ()).map (fun f => .dim (q * f * rx) "px")) ∧
    (lookup "width" e.cascaded = some (.val (.dim q "ch")) →
      computedKey e parent root ex ch "width" =
        (ownFontSize e parent root ex ch ()).map (fun f => .dim (q * f * rc) "px")) := by
  have hk : computedKey e parent root ex ch "width" = computedKeyCore e parent root ex ch "width" := by
    unfold computedKey; simp
  have hrat := env_ratios_are_own e parent root ex ch rx rc hr
  constructor
  · intro hc
    have hsp : specified e parent "width" = .ok (.dim q "ex", false) :=
      cascaded_value_used e parent "width" _ hc rfl rfl (Or.inl (by decide)) (by decide)
    rw [hk]
    unfold computedKeyCore
    simp only [hsp, bind, Except.bind, pure, Except.pure, Bool.false_eq_true, if_false, compute,
      computer_of_width_and_font_size.1, applyComputer]
    rw [length_ex_own _ q hq false, hrat.1]
    rfl
  · intro hc
    have hsp : specified e parent "width" = .ok (.dim q "ch", false) :=
      cascaded_value_used e parent "width" _ hc rfl rfl (Or.inl (by decide)) (by decide)
    rw [hk]
    unfold computedKeyCore
    simp only [hsp, bind, Except.bind, pure, Except.pure, Bool.false_eq_true, if_false, compute,
      computer_of_width_and_font_size.1, applyComputer]
    rw [length_ch_own _ q hq false, hrat.2]
    rfl

-- non-vacuity: 2ex / 2ch at 10px with DejaVu Sans' ratios
example :
    let e : Elem := ⟨[("font_size", .val (.dim 10 "px")), ("width", .val (.dim 2 "ex")),
                      ("text_indent", .val (.dim 2 "ch"))], none, [], some (54688 / 100000, 63623 / 100000)⟩
    (styleAt (1 / 2) (1 / 2) [e] "width").toOption = some (.dim (2 * 10 * (54688 / 100000)) "px") ∧
    (styleAt (1 / 2) (1 / 2) [e] "text_indent").toOption = some (.dim (2 * 10 * (63623 / 100000)) "px") := by
  decide +kernel

/-! ## `border-image-width` / `mask-border-width` (repaired finding border-image-width-not-computed) -/

/-- Every `<length>` item of `border-image-width` goes through `length` — full strength, for every
unit and every position (before commit 26138d1 it was returned as specified:
`Witness.C06.border_image_width_computed` is the regression on the finding's input); numbers and
`auto` are kept. -/
theorem border_image_width_items (env : Env) (q : Rat) (u : String) (rest : List Val) :
    widthItems env (.dim q u :: rest) = (do
      let h ← if u == "none" then pure (Val.num q) else length env (.dim q u)
      let t ← widthItems env rest
      pure (h :: t)) ∧
    widthItems env (.kw "auto" :: rest) = (widthItems env rest).map (Val.kw "auto" :: ·) := by
  constructor
  · simp only [widthItems, Val.isKw, numberUnit]
    by_cases hu : (u == "none") = true
    · simp [hu, bind, Except.bind, pure, Except.pure]
    · simp [hu, bind, Except.bind, pure, Except.pure]
  · simp only [widthItems, Val.isKw]
    simp [bind, Except.bind, pure, Except.pure, Except.map]

/-- A font-relative item: `q em` ↦ `q × font-size` px, on the four sides when it is the only item. -/
theorem border_image_width_em (env : Env) (q : Rat) (hq : q ≠ 0) (f : Rat) (hf : env.fontSize () = .ok f) :
    borderImageWidth env (.tup [.dim q "em"]) =
      .ok (.tup [.dim (q * f) "px", .dim (q * f) "px", .dim (q * f) "px", .dim (q * f) "px"]) := by
  have hl := length_em_own env q hq false
  rw [hf] at hl
  have hne : ("em" == "none") = false := by decide
  have hitems : widthItems env [.dim q "em"] = .ok [.dim (q * f) "px"] := by
    rw [(border_image_width_items env q "em" []).1]
    simp [hl, hne, widthItems, Except.map, px, bind, Except.bind, pure, Except.pure]
  unfold borderImageWidth
  simp only [elems, bind, Except.bind, hitems, pure, Except.pure]
  rfl

/-! ## the `media` attribute of `<style>` / `<link>` (repaired finding media-attr-case-sensitive) -/

/-- An absent, empty or blank attribute means `all`. -/
theorem attr_media_default : attrMedia "" = ["all"] ∧ attrMedia "  " = ["all"] ∧ attrMedia "\t\n" = ["all"] := by
  decide

private theorem toLower_idem (c : Char) : c.toLower.toLower = c.toLower := by
  unfold Char.toLower
  split
  · rename_i h
    split
    · rename_i h2
      exfalso
      simp only [ge_iff_le, UInt32.le_iff_toNat_le, UInt32.toNat_add] at h h2
      have h65 : 'A'.val.toNat = 65 := by decide
      have h90 : 'Z'.val.toNat = 90 := by decide
      have h32 : ('a'.val - 'A'.val).toNat = 32 := by decide
      rw [h65, h90] at h
      rw [h65, h90, h32] at h2
      omega
    · rfl
  · rfl

/-- Every media type the model derives from the attribute is lower case: comparing it with the
(lower-case) device media type is an ASCII case-insensitive comparison of what the author wrote. -/
theorem attr_media_is_lower (text : String) :
    ∀ m ∈ attrMedia text, String.ofList (m.toList.map Char.toLower) = m := by
  intro m hm
  unfold attrMedia at hm
  simp only [List.mem_map] at hm
  obtain ⟨part, _, rfl⟩ := hm
  simp [pyLower, List.map_map, Function.comp_def, toLower_idem]

private theorem toUpper_toNat (c : Char) :
    c.toUpper.toNat = if 97 ≤ c.toNat ∧ c.toNat ≤ 122 then c.toNat - 32 else c.toNat := by
  unfold Char.toUpper
  have ha : 'a'.val.toNat = 97 := by decide
  have hz : 'z'.val.toNat = 122 := by decide
  have hd : ('A'.val - 'a'.val).toNat = 2 ^ 32 - 32 := by decide
  split
  · rename_i h
    simp only [UInt32.le_iff_toNat_le, ha, hz] at h
    have h' : 97 ≤ c.toNat ∧ c.toNat ≤ 122 := h
    simp only [h', and_self, if_true]
    show (c.val + ('A'.val - 'a'.val)).toNat = c.val.toNat - 32
    rw [UInt32.toNat_add, hd]
    have : c.val.toNat = c.toNat := rfl
    omega
  · rename_i h
    simp only [UInt32.le_iff_toNat_le, ha, hz] at h
    have h' : ¬ (97 ≤ c.toNat ∧ c.toNat ≤ 122) := h
    simp only [h', if_false]

private def isSpaceNat (n : Nat) : Bool :=
  n == 32 || n == 9 || n == 10 || n == 13 || n == 11 || n == 12 || (28 ≤ n && n ≤ 31)

private theorem beq_char_nat (c d : Char) : (c == d) = (c.toNat == d.toNat) := by
  apply Bool.eq_iff_iff.mpr
  simp [Char.toNat_inj]

private theorem pyIsSpace_nat (c : Char) : pyIsSpace c = isSpaceNat c.toNat := by
  unfold pyIsSpace isSpaceNat
  rw [beq_char_nat c ' ', beq_char_nat c '\t', beq_char_nat c '\n', beq_char_nat c '\r']
  have h1 : ' '.toNat = 32 := by decide
  have h2 : '\t'.toNat = 9 := by decide
  have h3 : '\n'.toNat = 10 := by decide
  have h4 : '\r'.toNat = 13 := by decide
  rw [h1, h2, h3, h4]

private theorem isSpace_toUpper (c : Char) : pyIsSpace c.toUpper = pyIsSpace c := by
  rw [pyIsSpace_nat, pyIsSpace_nat, toUpper_toNat]
  split
  · rename_i h
    have a : isSpaceNat (c.toNat - 32) = false := by
      unfold isSpaceNat; simp; omega
    have b : isSpaceNat c.toNat = false := by
      unfold isSpaceNat; simp; omega
    rw [a, b]
  · rfl

private theorem comma_toUpper (c : Char) : (c.toUpper == ',') = (c == ',') := by
  rw [beq_char_nat, beq_char_nat c, toUpper_toNat]
  have h : ','.toNat = 44 := by decide
  rw [h]
  split
  · rename_i hr
    have a : (c.toNat - 32 == 44) = false := by simp; omega
    have b : (c.toNat == 44) = false := by simp; omega
    rw [a, b]
  · rfl

private theorem toLower_toNat (c : Char) :
    c.toLower.toNat = if 65 ≤ c.toNat ∧ c.toNat ≤ 90 then c.toNat + 32 else c.toNat := by
  unfold Char.toLower
  have ha : 'A'.val.toNat = 65 := by decide
  have hz : 'Z'.val.toNat = 90 := by decide
  have hd : ('a'.val - 'A'.val).toNat = 32 := by decide
  split
  · rename_i h
    simp only [ge_iff_le, UInt32.le_iff_toNat_le, ha, hz] at h
    have h' : 65 ≤ c.toNat ∧ c.toNat ≤ 90 := h
    simp only [h', and_self, if_true]
    show (c.val + ('a'.val - 'A'.val)).toNat = c.val.toNat + 32
    rw [UInt32.toNat_add, hd]
    have : c.val.toNat = c.toNat := rfl
    omega
  · rename_i h
    simp only [ge_iff_le, UInt32.le_iff_toNat_le, ha, hz] at h
    have h' : ¬ (65 ≤ c.toNat ∧ c.toNat ≤ 90) := h
    simp only [h', if_false]

private theorem toLower_toUpper (c : Char) : c.toUpper.toLower = c.toLower := by
  apply Char.toNat_inj.mp
  rw [toLower_toNat, toLower_toNat, toUpper_toNat]
  split <;> (try split) <;> (try split) <;> omega


/-- ASCII upper-casing of a text (`str.upper()` on ASCII). -/
def up (l : List Char) : List Char := l.map Char.toUpper

private theorem dropWhile_up (l : List Char) : (up l).dropWhile pyIsSpace = up (l.dropWhile pyIsSpace) := by
  induction l with
  | nil => rfl
  | cons c rest ih =>
    simp only [up, List.map_cons, List.dropWhile_cons, isSpace_toUpper]
    split
    · exact ih
    · rfl

private theorem strip_up (l : List Char) : pyStrip (up l) = up (pyStrip l) := by
  unfold pyStrip
  rw [dropWhile_up]
  simp only [up, ← List.map_reverse]
  rw [show List.map Char.toUpper (List.dropWhile pyIsSpace l).reverse = up (List.dropWhile pyIsSpace l).reverse from rfl,
    dropWhile_up]
  simp only [up, List.map_reverse]

private theorem split_up (l : List Char) : pySplitOn ',' (up l) = (pySplitOn ',' l).map up := by
  induction l with
  | nil => rfl
  | cons c rest ih =>
    simp only [up, List.map_cons, pySplitOn, comma_toUpper]
    split
    · simp only [List.map_cons]; rw [← ih]; rfl
    · rw [show List.map Char.toUpper rest = up rest from rfl, ih]
      cases h : pySplitOn ',' rest with
      | nil => rfl
      | cons p ps => rfl

private theorem lower_up (l : List Char) : pyLower (up l) = pyLower l := by
  simp [pyLower, up, List.map_map, Function.comp_def, toLower_toUpper]

/-- **The media attribute is ASCII case-insensitive — for every attribute text.**  Upper-casing
the whole text (any mix of cases therefore) does not change the media list `find_stylesheets`
derives from it: stripping, the `or 'all'` default, the split on commas and the per-item strip
commute with the case change, and `.lower()` (commit b7ca8f6) erases it.  Before that commit the
statement was false (`media="PRINT"`, finding media-attr-case-sensitive). -/
theorem attr_media_case_insensitive (text : String) :
    attrMedia (String.ofList (up text.toList)) = attrMedia text := by
  unfold attrMedia
  simp only [String.toList_ofList, strip_up]
  by_cases he : (pyStrip text.toList).isEmpty = true
  · have : (up (pyStrip text.toList)).isEmpty = true := by
      simpa [up] using he
    simp only [he, this, if_true]
  · have : (up (pyStrip text.toList)).isEmpty = false := by
      simpa [up] using he
    have he' : (pyStrip text.toList).isEmpty = false := by simpa using he
    simp only [he', this, Bool.false_eq_true, if_false, split_up, List.map_map]
    apply List.map_congr_left
    intro part _
    simp only [Function.comp, strip_up, lower_up]

/-- Two attribute texts that differ only in ASCII case select the same sheets, for every device. -/
theorem media_attr_same_up_to_case (a b : String) (h : up a.toList = up b.toList) (device : String) :
    evaluateMediaQuery (attrMedia a) device = evaluateMediaQuery (attrMedia b) device := by
  rw [← attr_media_case_insensitive a, ← attr_media_case_insensitive b, h]

example : up "Screen, Print".toList = up "SCREEN, print".toList := by decide

/-! ## CSS-wide keywords are ASCII case-insensitive -/

/-- **`INHERIT`, `Inherit`, `inherit` are the same declaration — for every ident text.**
Upper-casing the text (any mix of cases therefore) does not change whether it is recognised as a
CSS-wide keyword, nor which one. -/
theorem css_wide_case_insensitive (text : String) :
    CssWide.cssWide (String.ofList (up text.toList)) = CssWide.cssWide text := by
  unfold CssWide.cssWide
  simp only [String.toList_ofList, lower_up]

/-- … so a shorthand or longhand declaration whose whole value is that ident expands to the same
longhand / keyword pairs whatever its case. -/
theorem css_wide_expansion_case_insensitive (longhands : List String) (text : String) :
    CssWide.expansion longhands (String.ofList (up text.toList)) = CssWide.expansion longhands text := by
  unfold CssWide.expansion
  rw [css_wide_case_insensitive]

/-- Exactly the spellings of the two keywords are recognised, each as its lower-case form. -/
theorem css_wide_examples :
    CssWide.cssWide "INHERIT" = some "inherit" ∧ CssWide.cssWide "Initial" = some "initial" ∧
    CssWide.cssWide "inherit" = some "inherit" ∧ CssWide.cssWide "inherits" = none ∧
    CssWide.cssWide "unset" = none ∧
    CssWide.expansion ["border_top_width", "border_top_color", "border_top_style"] "InHeRiT" =
      some [("border_top_width", "inherit"), ("border_top_color", "inherit"), ("border_top_style", "inherit")] := by
  decide

/-- `media="PRINT"`, `media=" Screen , Print "` select the print device like their lower-case
spellings (the inputs of the repaired finding), and a list without the device does not. -/
theorem attr_media_case_insensitive_examples :
    attrMedia "PRINT" = attrMedia "print" ∧ attrMedia " Screen , Print " = ["screen", "print"] ∧
    evaluateMediaQuery (attrMedia "PRINT") "print" = true ∧
    evaluateMediaQuery (attrMedia "Screen,TV") "print" = false ∧
    evaluateMediaQuery (attrMedia "tv, ALL") "print" = true := by
  decide

end Wp.C06
