/-
C18 — Navigation and metadata.  Property theorems only; helper lemmas live in `WpModel/Lemmas/C18*.lean`.
The models are `Model/Outline.lean` (bookmark tree, outlines, link resolution, name order),
`Model/Anchors.lean` (matrices, `rectangle_aabb`, `gather_anchors`), `Model/Dates.lean`
(`_w3c_date_to_pdf`, matcher of `W3C_DATE_RE`), `Model/Metadata.lean`.
-/
import WpModel.Lemmas.C18Bookmarks
import WpModel.Lemmas.C18Outlines
import WpModel.Lemmas.C18Links
import WpModel.Lemmas.C18Dates
import WpModel.Model.Metadata

namespace Wp.C18
open Wp Wp.Outline Wp.Anchors Wp.Dates

/-! ## bookmark_total -/

/-- `make_bookmark_tree` over any pages whose bookmark levels are ≥ 1 (CSS `bookmark-level: <integer>`
is ≥ 1), split over pages anyhow, for any scale and both matrix conventions: both `assert`s hold,
`skipped_levels.pop()` is never called on an empty list, `last_by_depth[depth - 1]` exists. -/
theorem bookmark_total (pages : List BPage) (scale : Rat) (tp : Bool)
    (h : ∀ p ∈ pages, ∀ b ∈ p.bookmarks, 1 ≤ b.level) :
    ∃ t, makeBookmarkTree pages scale tp = .ok t := by
  have hl : ∀ e ∈ docEntries scale tp 0 pages, 1 ≤ e.level := by
    intro e he
    have : e.level ∈ (docEntries scale tp 0 pages).map (·.level) := List.mem_map_of_mem he
    rw [docEntries_levels] at this
    obtain ⟨b, hb, hbe⟩ := List.mem_map.mp this
    obtain ⟨p, hp, hbp⟩ := List.mem_flatMap.mp hb
    rw [← hbe]; exact h p hp b hbp
  obtain ⟨st, hrun, _, _⟩ := runEntries_spec _ BState.init Inv.init hl
  refine ⟨rootOf st.frames, ?_⟩
  unfold makeBookmarkTree
  rw [runPages_eq, hrun]

example : ∃ t, makeBookmarkTree
    [⟨100, [⟨1, "a", 0, 0, "open"⟩, ⟨6, "b", 0, 20, "open"⟩]⟩, ⟨100, [⟨3, "c", 0, 0, "closed"⟩, ⟨1, "d", 0, 9, "open"⟩]⟩]
    (3 / 4) true = .ok t :=
  bookmark_total _ _ _ (by decide)

/-- The same for one call of `make_page_bookmark_tree` from any state satisfying the invariant
`previous_level = len(skipped) + sum(skipped)`, `len(last_by_depth) = len(skipped) + 1`, skips ≥ 0
(which every state reached from the initial one satisfies): the call succeeds and re-establishes it. -/
theorem bookmark_page_total (bms : List Bookmark) (st : BState) (n : Int) (m : Matrix) (hinv : Inv st)
    (h : ∀ b ∈ bms, 1 ≤ b.level) :
    ∃ st', makePageBookmarkTree bms st n m = .ok st' ∧ Inv st' := by
  have hl : ∀ e ∈ bms.map (toEntry n m), 1 ≤ e.level := by
    intro e he
    obtain ⟨b, hb, hbe⟩ := List.mem_map.mp he
    rw [← hbe]; exact h b hb
  obtain ⟨st', hrun, hinv', _⟩ := runEntries_spec _ st hinv hl
  exact ⟨st', hrun, hinv'⟩

/-! ## bookmark_tree -/

/-- Depth of a bookmark of level `l` whose predecessors (most recent first) have levels `h`:
one more than the depth of the nearest preceding bookmark of strictly smaller level, 1 if there is none. -/
def nsDepth : List Int → Int → Nat
  | [], _ => 1
  | x :: h, l => if x < l then nsDepth h x + 1 else nsDepth h l

def depthsFrom : List Int → List Int → List Nat
  | _, [] => []
  | h, l :: ls => nsDepth h l :: depthsFrom (l :: h) ls

private def stackOf : List Int → List Int
  | [] => []
  | x :: h => x :: popGE x (stackOf h)

private theorem popGE_popGE (l x : Int) (hlx : l ≤ x) (s : List Int) : popGE l (popGE x s) = popGE l s := by
  induction s with
  | nil => rfl
  | cons a s ih =>
    simp only [popGE]
    by_cases h : x ≤ a
    · rw [if_pos h, if_pos (by omega)]; exact ih
    · rw [if_neg h]; simp only [popGE]

private theorem popGE_stackOf (h : List Int) (l : Int) : (popGE l (stackOf h)).length + 1 = nsDepth h l := by
  induction h generalizing l with
  | nil => rfl
  | cons x h ih =>
    simp only [stackOf, popGE, nsDepth]
    by_cases hx : x < l
    · rw [if_neg (by omega), if_pos hx]; simp only [List.length_cons]; rw [ih]
    · rw [if_pos (by omega), if_neg hx, popGE_popGE l x (by omega)]; exact ih l

private theorem specDepths_stackOf (ls : List Int) (h : List Int) :
    specDepths (stackOf h) ls = depthsFrom h ls := by
  induction ls generalizing h with
  | nil => rfl
  | cons l ls ih =>
    simp only [specDepths, depthsFrom]
    rw [popGE_stackOf]
    have := ih (l :: h)
    simp only [stackOf] at this
    rw [this]

/-- The tree returned by `make_bookmark_tree`, read in pre-order with depths, is the list of all
bookmarks in document order (label, `(page_number, x, y)` through the page matrix, state — one node
each), and the depth of each is given by the nearest-smaller-level rule: skipped levels are closed up,
a bookmark closes every open bookmark of level ≥ its own. -/
theorem bookmark_tree (pages : List BPage) (scale : Rat) (tp : Bool)
    (h : ∀ p ∈ pages, ∀ b ∈ p.bookmarks, 1 ≤ b.level) :
    ∃ t, makeBookmarkTree pages scale tp = .ok t ∧
      flatList 1 t = (depthsFrom [] ((pages.flatMap (·.bookmarks)).map (·.level))).zip
        ((docEntries scale tp 0 pages).map entryItem) := by
  have hl : ∀ e ∈ docEntries scale tp 0 pages, 1 ≤ e.level := by
    intro e he
    have : e.level ∈ (docEntries scale tp 0 pages).map (·.level) := List.mem_map_of_mem he
    rw [docEntries_levels] at this
    obtain ⟨b, hb, hbe⟩ := List.mem_map.mp this
    obtain ⟨p, hp, hbp⟩ := List.mem_flatMap.mp hb
    rw [← hbe]; exact h p hp b hbp
  obtain ⟨st, hrun, hinv, hpre⟩ := runEntries_spec _ BState.init Inv.init hl
  refine ⟨rootOf st.frames, ?_, ?_⟩
  · unfold makeBookmarkTree; rw [runPages_eq, hrun]
  · rw [rootOf_pre _ (by rw [hinv.frames]; omega), hpre, docEntries_levels]
    have h0 : preFrames BState.init.frames = [] := by
      simp [BState.init, preFrames, rootFrame, flatList]
    have h1 : anc BState.init.skipped = stackOf [] := rfl
    rw [h0, h1, specDepths_stackOf]; simp

/-- The first bookmark is at depth 1. -/
theorem depth_first (l : Int) (ls : List Int) : (depthsFrom [] (l :: ls)).head? = some 1 := rfl

private theorem nsDepth_mono (h : List Int) (l x : Int) (hlx : l ≤ x) : nsDepth h l ≤ nsDepth h x := by
  induction h generalizing l x with
  | nil => simp [nsDepth]
  | cons y h ih =>
    simp only [nsDepth]
    by_cases hy : y < l
    · rw [if_pos hy, if_pos (by omega)]; omega
    · rw [if_neg hy]
      by_cases hy2 : y < x
      · rw [if_pos hy2]; have := ih l y (by omega); omega
      · rw [if_neg hy2]; exact ih l x hlx

/-- `depth(next) ≤ depth(previous) + 1`: a bookmark is at most one level deeper than its predecessor,
whatever level was skipped in the source. -/
theorem depth_step (h : List Int) (x l : Int) : nsDepth (x :: h) l ≤ nsDepth h x + 1 := by
  simp only [nsDepth]
  by_cases hx : x < l
  · rw [if_pos hx]; omega
  · rw [if_neg hx]; have := nsDepth_mono h l x (by omega); omega

/-- A larger level than the previous bookmark opens a child; the same level gives a sibling. -/
theorem depth_child (h : List Int) (x l : Int) (hx : x < l) : nsDepth (x :: h) l = nsDepth h x + 1 := by
  simp [nsDepth, hx]

private theorem nsDepth_self (h : List Int) (x : Int) : nsDepth (x :: h) x = nsDepth h x := by
  simp [nsDepth]

theorem depth_sibling (h : List Int) (x : Int) : nsDepth (x :: h) x = nsDepth h x := nsDepth_self h x

example : depthsFrom [] [1, 3, 2, 6, 6, 1, 4] = [1, 2, 2, 3, 3, 1, 2] := by decide

/-- Page-split invariance: the depths, labels and states of the tree depend only on the concatenation
of the pages' bookmark lists (the state is threaded through the pages), not on where the page
boundaries fall. -/
theorem bookmark_split_invariant (ps qs : List BPage) (scale : Rat) (tp : Bool)
    (h : ∀ p ∈ ps, ∀ b ∈ p.bookmarks, 1 ≤ b.level)
    (hsame : ps.flatMap (·.bookmarks) = qs.flatMap (·.bookmarks)) :
    ∃ t u, makeBookmarkTree ps scale tp = .ok t ∧ makeBookmarkTree qs scale tp = .ok u ∧
      (flatList 1 t).map (fun x => (x.1, x.2.1, x.2.2.2)) = (flatList 1 u).map (fun x => (x.1, x.2.1, x.2.2.2)) := by
  have hq : ∀ p ∈ qs, ∀ b ∈ p.bookmarks, 1 ≤ b.level := by
    intro p hp b hb
    have : b ∈ qs.flatMap (·.bookmarks) := List.mem_flatMap.mpr ⟨p, hp, hb⟩
    rw [← hsame] at this
    obtain ⟨p', hp', hb'⟩ := List.mem_flatMap.mp this
    exact h p' hp' b hb'
  obtain ⟨t, ht, hft⟩ := bookmark_tree ps scale tp h
  obtain ⟨u, hu, hfu⟩ := bookmark_tree qs scale tp hq
  refine ⟨t, u, ht, hu, ?_⟩
  have key : ∀ (rs : List BPage) (n : Nat), (docEntries scale tp n rs).map (fun e => (e.label, e.state)) =
      (rs.flatMap (·.bookmarks)).map (fun b => (b.label, b.state)) := by
    intro rs
    induction rs with
    | nil => intro n; rfl
    | cons p rest ih => intro n; simp [docEntries, ih, toEntry, Function.comp_def]
  rw [hft, hfu, hsame]
  have hlen : ∀ (ds : List Nat) (es fs : List Entry),
      es.map (fun e => (e.label, e.state)) = fs.map (fun e => (e.label, e.state)) →
      (ds.zip (es.map entryItem)).map (fun x => (x.1, x.2.1, x.2.2.2)) =
      (ds.zip (fs.map entryItem)).map (fun x => (x.1, x.2.1, x.2.2.2)) := by
    intro ds
    induction ds with
    | nil => intro es fs _; simp
    | cons d ds ihd =>
      intro es fs hef
      cases es with
      | nil => cases fs with
        | nil => rfl
        | cons f fs => simp at hef
      | cons e es => cases fs with
        | nil => simp at hef
        | cons f fs =>
          simp only [List.map_cons, List.cons.injEq, Prod.mk.injEq] at hef
          simp only [List.map_cons, List.zip_cons_cons, entryItem, List.cons.injEq, Prod.mk.injEq]
          exact ⟨⟨trivial, hef.1.1, hef.1.2⟩, ihd es fs hef.2⟩
  apply hlen
  rw [key, key, hsame]

/-- The same as an equality of trees: up to the targets (which carry the page number), the forest
does not depend on the page split. -/
theorem bookmark_split_invariant_shape (ps qs : List BPage) (scale : Rat) (tp : Bool)
    (h : ∀ p ∈ ps, ∀ b ∈ p.bookmarks, 1 ≤ b.level)
    (hsame : ps.flatMap (·.bookmarks) = qs.flatMap (·.bookmarks)) :
    ∃ t u, makeBookmarkTree ps scale tp = .ok t ∧ makeBookmarkTree qs scale tp = .ok u ∧
      shapeList t = shapeList u := by
  obtain ⟨t, u, ht, hu, hflat⟩ := bookmark_split_invariant ps qs scale tp h hsame
  refine ⟨t, u, ht, hu, flatList_injective 1 _ _ ?_⟩
  rw [flatList_shape, flatList_shape]
  have key : ∀ (xs ys : List (Nat × Item)),
      xs.map (fun x => (x.1, x.2.1, x.2.2.2)) = ys.map (fun x => (x.1, x.2.1, x.2.2.2)) →
      xs.map eraseTarget = ys.map eraseTarget := by
    intro xs
    induction xs with
    | nil => intro ys hxy; cases ys with
      | nil => rfl
      | cons y ys => simp at hxy
    | cons x xs ih => intro ys hxy; cases ys with
      | nil => simp at hxy
      | cons y ys =>
        simp only [List.map_cons, List.cons.injEq, Prod.mk.injEq] at hxy
        simp only [List.map_cons, eraseTarget, List.cons.injEq, Prod.mk.injEq, true_and]
        exact ⟨⟨hxy.1.1, hxy.1.2.1, hxy.1.2.2⟩, ih ys hxy.2⟩
  exact key _ _ hflat

/-- The depth-annotated pre-order determines the forest: `bookmark_tree` characterises the result of
`make_bookmark_tree` completely. -/
theorem bookmark_tree_unique (t u : List BTree) (h : flatList 1 t = flatList 1 u) : t = u :=
  flatList_injective 1 t u h

/-! ## outline_links -/

/-- `add_outlines(pdf, bookmarks)` (top-level call) is completely determined by the bookmark tree and
`len(pdf.objects)`: the dictionaries are numbered in pre-order from `next`; the outlines dictionary
gets the following number `D`, `Count` = number of entries visible with the given open/closed states,
`First` = the first root, `Last` = the last root; every root has `Parent = D`; and `GoodList` fixes,
recursively, every field of every dictionary (`Title`, `Dest` page reference and point, `Count`
= visible descendants, negated when closed, `Prev`/`Next` = neighbouring siblings, `First`/`Last` =
first / last child, `Parent`). -/
theorem outline_spec (refs : List Nat) (next : Nat) (forest : List BTree) (r : OutlinesResult)
    (h : addOutlines refs next forest none = .ok r) :
    r.count = visList forest ∧
    GoodList refs (if forest.isEmpty then none else some (next + sizeList forest)) none next forest r.nodes ∧
    r.dict = (match lastTop next forest with
      | none => none
      | some l => some ⟨next + sizeList forest, visList forest, next, l⟩) := by
  unfold addOutlines at h
  cases hl : addOutlineList refs none none next forest with
  | error e => rw [hl] at h; simp at h
  | ok res =>
    obtain ⟨nodes, c, nx⟩ := res
    rw [hl] at h
    simp only [] at h
    obtain ⟨hg, hc, hnx⟩ := addOutlineList_good refs none none next forest nodes c nx hl
    have hh := GoodList_headNum hg
    have hlast := GoodList_lastNum hg
    cases forest with
    | nil =>
      simp only [List.isEmpty_nil, if_true] at hh
      rw [hh] at h
      simp only [Except.ok.injEq] at h
      subst h
      exact ⟨hc, hg, by simp [lastTop]⟩
    | cons t ts =>
      simp only [List.isEmpty_cons] at hh
      rw [hh] at h
      cases hlt : lastTop next (t :: ts) with
      | none =>
        exfalso
        have : ∀ (ts : List BTree) (t : BTree) (n : Nat), lastTop n (t :: ts) ≠ none := by
          intro ts
          induction ts with
          | nil => intro t n; simp [lastTop]
          | cons t' ts ih => intro t n; simp only [lastTop]; exact ih t' _
        exact this ts t next hlt
      | some l =>
        rw [hlt] at hlast
        rw [hlast] at h
        injection h with h
        subst h
        refine ⟨hc, ?_, ?_⟩
        · simp only [List.isEmpty_cons]
          rw [hnx]
          exact GoodList_setParent _ hg
        · simp [hnx, hc]

/-- Recursive call (`parent` given): no outlines dictionary, same specification below `parent`. -/
theorem outline_spec_nested (refs : List Nat) (next p : Nat) (forest : List BTree) (r : OutlinesResult)
    (h : addOutlines refs next forest (some p) = .ok r) :
    r.count = visList forest ∧ GoodList refs (some p) none next forest r.nodes ∧ r.dict = none := by
  unfold addOutlines at h
  cases hl : addOutlineList refs (some p) none next forest with
  | error e => rw [hl] at h; simp at h
  | ok res =>
    obtain ⟨nodes, c, nx⟩ := res
    rw [hl] at h
    simp only [] at h
    obtain ⟨hg, hc, _⟩ := addOutlineList_good refs (some p) none next forest nodes c nx hl
    simp only [Except.ok.injEq] at h
    subst h
    exact ⟨hc, hg, rfl⟩

/-- `add_outlines` fails only on a bookmark whose page index is outside `pdf.page_references`
(impossible for trees built by `make_bookmark_tree`, whose page numbers enumerate the pages). -/
theorem outline_total (refs : List Nat) (next : Nat) (forest : List BTree) (parent : Option Nat)
    (h : pagesOkList refs forest = true) : ∃ r, addOutlines refs next forest parent = .ok r := by
  obtain ⟨⟨nodes, c, nx⟩, hr⟩ := addOutlineList_total refs parent none next forest h
  unfold addOutlines
  rw [hr]
  simp only []
  split <;> exact ⟨_, rfl⟩

/-- Siblings are doubly linked, in order: the first has no `Prev`, each `Next` is the number of the
following sibling and that sibling's `Prev` points back, the last has no `Next`. -/
theorem outline_siblings_linked {refs : List Nat} {parent prev : Option Nat} {num : Nat} {ts : List BTree}
    {ns : List ONode} (h : GoodList refs parent prev num ts ns) : Linked prev ns := GoodList_linked h

/-- One node: `First`/`Last` are its first/last child (absent without children), every child's
`Parent` is the node, the children are doubly linked starting without `Prev`, `Count` is the number of
descendants visible when the node is open, negated when it is closed. -/
theorem outline_node {refs : List Nat} {parent prev nxt : Option Nat} {num : Nat}
    {title : String} {target : Target} {kids : List BTree} {state : String} {o : Outline} {okids : List ONode}
    (h : GoodNode refs parent prev nxt num (.node title target kids state) (.mk o okids)) :
    o.first = headNum okids ∧ o.last = lastNum okids ∧ (∀ k ∈ okids, k.outline.parent = some o.num) ∧
    Linked none okids ∧ okids.length = kids.length ∧
    o.count = (if state == "closed" then -(visList kids) else visList kids) ∧
    o.title = title ∧ pageReference refs target.page = .ok o.pageRef ∧ o.x = target.x ∧ o.y = target.y := by
  rw [GoodNode] at h
  obtain ⟨a1, a2, a3, a4, a5, a6, _, _, _, a10, a11, a12⟩ := h
  refine ⟨?_, ?_, ?_, GoodList_linked a12, GoodList_length a12, a6, a2, a3, a4, a5⟩
  · rw [a10, GoodList_headNum a12]
  · rw [a11, GoodList_lastNum a12]
  · rw [a1]; exact GoodList_parent a12

/-- Object numbers are the pre-order positions: all distinct, so every reference is unambiguous. -/
theorem outline_numbers {refs : List Nat} {parent prev : Option Nat} {num : Nat} {ts : List BTree}
    {ns : List ONode} (h : GoodList refs parent prev num ts ns) :
    (flattenNodes ns).map (·.num) = List.range' num (sizeList ts) := GoodList_numbers ts ns h

example : ∃ r, addOutlines [3, 4] 5
    [.node "a" ⟨0, 1, 2⟩ [.node "b" ⟨1, 0, 0⟩ [.node "c" ⟨1, 0, 0⟩ [] "open"] "closed"] "open",
     .node "d" ⟨1, 0, 0⟩ [] "open"] none = .ok r :=
  outline_total _ _ _ _ (by decide)

/-! ## links_resolved -/

/-- Names of the destinations `resolve_links` emits, over all pages. -/
def destNames (pages : List LPage) : List String :=
  ((resolveLinks pages).flatMap (·.2)).map (·.name)

private theorem resolve_snd (pages : List LPage) :
    (resolveLinks pages).map (·.2) = (allAnchors pages []).1 := by
  unfold resolveLinks
  exact List.map_snd_zip (by simp [allAnchors_length])

private theorem resolve_fst (pages : List LPage) :
    (resolveLinks pages).map (·.1) = pages.map (fun p => pageLinks (allAnchors pages []).2 p.links) := by
  unfold resolveLinks
  exact List.map_fst_zip (by simp [allAnchors_length])

private theorem destNames_eq (pages : List LPage) :
    destNames pages = (pageAnchors (pages.flatMap (·.anchors)) []).1.map (·.name) := by
  unfold destNames
  have : (resolveLinks pages).flatMap (·.2) = ((resolveLinks pages).map (·.2)).flatten := by
    rw [List.flatMap_def]
  rw [this, resolve_snd, (allAnchors_flatten pages []).1]

private theorem anchorSet_eq (pages : List LPage) : (allAnchors pages []).2 = destNames pages := by
  rw [destNames_eq, (allAnchors_flatten pages []).2, pageAnchors_seen]; simp

/-- One result per page. -/
theorem resolve_length (pages : List LPage) : (resolveLinks pages).length = pages.length := by
  unfold resolveLinks; simp [allAnchors_length]

/-- No dangling internal link: every internal link that is emitted names an emitted destination. -/
theorem links_no_dangling (pages : List LPage) :
    ∀ r ∈ resolveLinks pages, ∀ l ∈ r.1, l.type = "internal" → l.target ∈ destNames pages := by
  intro r hr l hl hint
  have hmem : r.1 ∈ (resolveLinks pages).map (·.1) := List.mem_map_of_mem hr
  rw [resolve_fst] at hmem
  obtain ⟨p, _, hp⟩ := List.mem_map.mp hmem
  rw [← hp, pageLinks_eq_filter, anchorSet_eq] at hl
  have := (List.mem_filter.mp hl).2
  simp only [hint, beq_self_eq_true, Bool.not_true, Bool.false_or] at this
  exact List.contains_iff_mem.mp this

/-- What is kept: on every page, in order, exactly the links that are not internal (external,
attachment: untouched) and the internal links whose target is the name of an anchor of some page;
internal links to a missing anchor are dropped. -/
theorem links_kept (pages : List LPage) :
    (resolveLinks pages).map (·.1) = pages.map (fun p => p.links.filter
      (fun l => !(l.type == "internal") || ((pages.flatMap (·.anchors)).map (·.name)).contains l.target)) := by
  rw [resolve_fst]
  apply List.map_congr_left
  intro p _
  rw [pageLinks_eq_filter]
  apply List.filter_congr
  intro l _
  congr 1
  -- the set built by the first loop has the same members as the list of all anchor names
  rw [anchorSet_eq, destNames_eq]
  apply Bool.eq_iff_iff.mpr
  rw [List.contains_iff_mem, List.contains_iff_mem]
  constructor
  · intro h
    obtain ⟨a, ha, hn⟩ := List.mem_map.mp h
    exact List.mem_map.mpr ⟨a, (pageAnchors_sublist _ _).subset ha, hn⟩
  · intro h
    obtain ⟨a, ha, hn⟩ := List.mem_map.mp h
    have := pageAnchors_complete (pages.flatMap (·.anchors)) [] a ha
    rw [pageAnchors_seen] at this
    rw [← hn]; simpa using this

private theorem pageErrors_eq (names : List String) (ls : List Outline.Link) :
    pageErrors names ls = (ls.filter (fun l => l.type == "internal" && !names.contains l.target)).map (·.target) := by
  induction ls with
  | nil => rfl
  | cons l ls ih =>
    simp only [pageErrors, List.filter_cons]
    split <;> simp [ih]

/-- "Dropped with an error": exactly the dropped links are reported, one `LOGGER.error` each, in
document order — every link of every page is either emitted or reported, never both, never neither. -/
theorem links_dropped_reported (pages : List LPage) :
    resolveErrors pages = (pages.flatMap fun p => (p.links.filter
      (fun l => l.type == "internal" && !(destNames pages).contains l.target)).map (·.target)) ∧
    ∀ p ∈ pages, ∀ l ∈ p.links,
      (l ∈ pageLinks (destNames pages) p.links) ≠
        (l.type = "internal" ∧ l.target ∉ destNames pages) := by
  constructor
  · unfold resolveErrors
    simp only [anchorSet_eq]
    congr 1
    funext p
    exact pageErrors_eq _ _
  · intro p _ l hl
    rw [pageLinks_eq_filter]
    by_cases h1 : l.type = "internal"
    · by_cases h2 : l.target ∈ destNames pages
      · simp [List.mem_filter, hl, h1, h2]
      · simp [List.mem_filter, hl, h1, h2]
    · have : (l.type == "internal") = false := by simpa using h1
      simp [List.mem_filter, hl, h1, this]

/-- Each anchor name is emitted exactly once over the whole document. -/
theorem anchors_once (pages : List LPage) : (destNames pages).Nodup := by
  rw [destNames_eq]; exact (pageAnchors_nodup _ []).1

/-- … namely for its first occurrence in page order (and, within a page, in `page.anchors` order):
the destination for `n` has the coordinates of the first anchor named `n`. -/
theorem anchors_first (pages : List LPage) (n : String) :
    ((resolveLinks pages).flatMap (·.2)).find? (fun a => a.name == n) =
      (pages.flatMap (·.anchors)).find? (fun a => a.name == n) := by
  have : (resolveLinks pages).flatMap (·.2) = ((resolveLinks pages).map (·.2)).flatten := by
    rw [List.flatMap_def]
  rw [this, resolve_snd, (allAnchors_flatten pages []).1]
  exact pageAnchors_first _ [] n (by simp)

/-- … and it is listed on the page that carries that anchor: page `i` lists only anchors of page `i`. -/
theorem anchors_on_own_page (pages : List LPage) (i : Nat) (hi : i < pages.length) :
    List.Sublist ((resolveLinks pages)[i]'(by rw [resolve_length]; exact hi)).2 (pages[i]).anchors := by
  have h2 : i < (allAnchors pages []).1.length := by rw [allAnchors_length]; exact hi
  have := allAnchors_sublist pages [] i hi h2
  have e : ((resolveLinks pages)[i]'(by rw [resolve_length]; exact hi)).2 = (allAnchors pages []).1[i] := by
    have := congrArg (fun l => l[i]?) (resolve_snd pages)
    simp only [List.getElem?_map] at this
    rw [List.getElem?_eq_getElem (by rw [resolve_length]; exact hi), List.getElem?_eq_getElem h2] at this
    simpa using this
  rw [e]; exact this

/-- Every anchor name of the document is a destination (nothing is lost by the de-duplication). -/
theorem anchors_complete (pages : List LPage) :
    ∀ p ∈ pages, ∀ a ∈ p.anchors, a.name ∈ destNames pages := by
  intro p hp a ha
  have hm : a ∈ pages.flatMap (·.anchors) := List.mem_flatMap.mpr ⟨p, hp, ha⟩
  have := pageAnchors_complete _ [] a hm
  rw [pageAnchors_seen] at this
  rw [destNames_eq]; simpa using this

example : (destNames [⟨[⟨"a", 1, 2⟩], []⟩, ⟨[⟨"a", 3, 3⟩, ⟨"b", 1, 1⟩], []⟩]) = ["a", "b"] := by decide

example : resolveLinks
    [⟨[⟨"a", 1, 2⟩], [⟨"internal", "a", 0⟩, ⟨"internal", "zz", 1⟩, ⟨"external", "u", 2⟩]⟩,
     ⟨[⟨"a", 3, 3⟩, ⟨"b", 1, 1⟩], [⟨"internal", "b", 3⟩]⟩] =
    [([⟨"internal", "a", 0⟩, ⟨"external", "u", 2⟩], [⟨"a", 1, 2⟩]), ([⟨"internal", "b", 3⟩], [⟨"b", 1, 1⟩])] := by
  decide

/-! ## Document.copy: a subset of the pages -/

/-- The test of the second loop of `resolve_links`, on the anchors of a list of pages. -/
def keptIn (pages : List LPage) (l : Outline.Link) : Bool :=
  !(l.type == "internal") || ((pages.flatMap (·.anchors)).map (·.name)).contains l.target

/-- Taking pages away can only drop links: a link kept among the selected pages is kept in the whole
document. -/
theorem keptIn_mono (pages sub : List LPage) (hsub : ∀ p ∈ sub, p ∈ pages) (l : Outline.Link)
    (h : keptIn sub l = true) : keptIn pages l = true := by
  unfold keptIn at h ⊢
  cases ht : (l.type == "internal") with
  | false => simp
  | true =>
    simp only [ht, Bool.not_true, Bool.false_or] at h ⊢
    rw [List.contains_iff_mem] at h ⊢
    obtain ⟨a, ha, hn⟩ := List.mem_map.mp h
    obtain ⟨p, hp, hap⟩ := List.mem_flatMap.mp ha
    exact List.mem_map.mpr ⟨a, List.mem_flatMap.mpr ⟨p, hsub p hp, hap⟩, hn⟩

/-- `document.copy(pages').write_pdf()` — `resolve_links` run on any selection of the pages of a document
(some left out, reordered, repeated): every selected page keeps exactly the links it has in the PDF of
the whole document, in order, **minus the internal links whose anchor lies on no selected page**; these
are dropped (and reported, `links_dropped_reported`), never left dangling (`links_no_dangling`). -/
theorem copy_links (pages sub : List LPage) (hsub : ∀ p ∈ sub, p ∈ pages) :
    (resolveLinks sub).map (·.1) =
      sub.map (fun p => (p.links.filter (keptIn pages)).filter (keptIn sub)) := by
  rw [links_kept]
  apply List.map_congr_left
  intro p _
  rw [List.filter_filter]
  apply List.filter_congr
  intro l _
  show keptIn sub l = (keptIn sub l && keptIn pages l)
  cases h : keptIn sub l with
  | false => rfl
  | true => rw [keptIn_mono pages sub hsub l h]; rfl

/-- The destinations of the copy are destinations of the whole document. -/
theorem copy_destinations (pages sub : List LPage) (hsub : ∀ p ∈ sub, p ∈ pages) :
    ∀ n ∈ destNames sub, n ∈ destNames pages := by
  intro n hn
  rw [destNames_eq] at hn
  obtain ⟨a, ha, hna⟩ := List.mem_map.mp hn
  have ha' := (pageAnchors_sublist _ _).subset ha
  obtain ⟨p, hp, hap⟩ := List.mem_flatMap.mp ha'
  rw [← hna]
  exact anchors_complete pages p (hsub p hp) a hap

/-- Two pages; the copy holds the second only: its link to `a` (an anchor of the first page) goes, its
link to `b` and its external link stay. -/
example :
    let p1 : LPage := ⟨[⟨"a", 1, 2⟩], [⟨"internal", "b", 0⟩]⟩
    let p2 : LPage := ⟨[⟨"b", 1, 1⟩], [⟨"internal", "a", 1⟩, ⟨"internal", "b", 2⟩, ⟨"external", "u", 3⟩]⟩
    (∀ p ∈ [p2], p ∈ [p1, p2]) ∧
    (resolveLinks [p1, p2]).map (·.1) = [[⟨"internal", "b", 0⟩], [⟨"internal", "a", 1⟩, ⟨"internal", "b", 2⟩, ⟨"external", "u", 3⟩]] ∧
    (resolveLinks [p2]).map (·.1) = [[⟨"internal", "b", 2⟩, ⟨"external", "u", 3⟩]] := by
  refine ⟨by simp, by decide, by decide⟩

/-! ## name tree order -/

/-- `sorted(pdf_names, key=key_bytes)` (repair 09da5a8): the `/Dests` array is a permutation of the
named destinations and is strictly increasing in the byte order of its keys **as a PDF reader compares
them** (ISO 32000-1 7.9.6) — ASCII names as their bytes, other names as BOM + UTF-16BE — provided the
names are distinct, which `anchors_once` guarantees.  Full strength: before the repair this held for
ASCII names only (`names_byte_sorted_partial`, finding `dests-not-byte-sorted`). -/
theorem names_byte_sorted (l : List (List Nat × Nat)) (hnd : (l.map (·.1)).Nodup)
    (hscalar : ∀ e ∈ l, ∀ c ∈ e.1, Scalar c) :
    (sortNames l).Perm l ∧ StrictSorted ((sortNames l).map withKey) :=
  ⟨sortNames_perm l, sortNames_sorted l (keys_nodup l hnd hscalar)⟩

/-- A binary search of the written array finds every name: the key of an entry at a smaller index is
strictly smaller (pairwise form of `names_byte_sorted`). -/
theorem names_byte_sorted_pairwise (l : List (List Nat × Nat)) (hnd : (l.map (·.1)).Nodup)
    (hscalar : ∀ e ∈ l, ∀ c ∈ e.1, Scalar c) :
    ((sortNames l).map withKey).Pairwise (fun a b => nameLt a.1 b.1 = true) := by
  have h := (names_byte_sorted l hnd hscalar).2
  generalize (sortNames l).map withKey = m at h
  induction m with
  | nil => exact List.Pairwise.nil
  | cons x xs ih =>
    refine List.Pairwise.cons ?_ (ih h.tail)
    clear ih
    induction xs generalizing x with
    | nil => intro b hb; simp at hb
    | cons y ys ih2 =>
      intro b hb
      rcases List.mem_cons.mp hb with rfl | hb
      · exact h.1
      · have hy := ih2 y h.2 b hb
        exact nameLt_trans _ _ _ h.1 hy

example : ([([122], 0), ([97, 233], 1), ([97], 2)].map (·.1)).Nodup ∧
    (∀ e ∈ [([122], 0), ([97, 233], 1), ([97], 2)], ∀ c ∈ e.1, Scalar c) := by
  refine ⟨by decide, ?_⟩
  intro e he c hc
  simp only [List.mem_cons, List.not_mem_nil, or_false] at he
  rcases he with rfl | rfl | rfl <;> simp only [List.mem_cons, List.not_mem_nil, or_false] at hc <;>
    (try rcases hc with rfl | rfl) <;> (try subst hc) <;> (unfold Scalar; omega)

/-- `a` < `z` < `aé`: the non-ASCII name is written `<FEFF006100E9>` and goes last. -/
example : sortNames [([122], 0), ([97, 233], 1), ([97], 2)] = [([97], 2), ([122], 0), ([97, 233], 1)] := by decide

/-! ## link_rect -/

/-- Without a matrix the rectangle is the hit area itself. -/
theorem aabb_untransformed (x y w h : Rat) : rectangleAabb none x y w h = ⟨x, y, x + w, y + h⟩ := rfl

/-- `rectangle_aabb` contains the four transformed corners of the hit area. -/
theorem aabb_contains_corners (m : Matrix) (x y w h : Rat) (cx cy : Rat)
    (hc : (cx, cy) ∈ [m.transformPoint x y, m.transformPoint (x + w) y, m.transformPoint x (y + h),
      m.transformPoint (x + w) (y + h)]) :
    let r := rectangleAabb (some m) x y w h
    r.x1 ≤ cx ∧ cx ≤ r.x2 ∧ r.y1 ≤ cy ∧ cy ≤ r.y2 := by
  simp only [List.mem_cons, List.not_mem_nil, or_false] at hc
  simp only [rectangleAabb, min4, max4]
  rcases hc with h | h | h | h <;> (rw [← h]; refine ⟨?_, ?_, ?_, ?_⟩ <;> grind)

/-- … and is the smallest such rectangle: each side passes through a transformed corner. -/
theorem aabb_tight (m : Matrix) (x y w h : Rat) :
    let r := rectangleAabb (some m) x y w h
    let cs := [m.transformPoint x y, m.transformPoint (x + w) y, m.transformPoint x (y + h),
      m.transformPoint (x + w) (y + h)]
    r.x1 ∈ cs.map (·.1) ∧ r.x2 ∈ cs.map (·.1) ∧ r.y1 ∈ cs.map (·.2) ∧ r.y2 ∈ cs.map (·.2) := by
  simp only [rectangleAabb, min4, max4, List.map_cons, List.map_nil, List.mem_cons, List.not_mem_nil, or_false]
  refine ⟨?_, ?_, ?_, ?_⟩ <;> grind

/-- Axis-aligned matrices (no rotation / skew: `b = c = 0`) with non-negative scale map the hit area
`(x, y, w, h)` (`w, h ≥ 0`) exactly to the rectangle of its two transformed corners. -/
theorem aabb_axis_aligned (a d e f x y w h : Rat) (ha : 0 ≤ a) (hd : 0 ≤ d) (hw : 0 ≤ w) (hh : 0 ≤ h) :
    rectangleAabb (some ⟨a, 0, 0, d, e, f⟩) x y w h =
      ⟨x * a + e, y * d + f, (x + w) * a + e, (y + h) * d + f⟩ := by
  have h1 : x * a ≤ (x + w) * a := by
    have : 0 ≤ w * a := Rat.mul_nonneg hw ha
    grind
  have h2 : y * d ≤ (y + h) * d := by
    have : 0 ≤ h * d := Rat.mul_nonneg hh hd
    grind
  simp only [rectangleAabb, Matrix.transformPoint, min4, max4, Rect.mk.injEq]
  refine ⟨?_, ?_, ?_, ?_⟩ <;> grind

/-- `add_links`: with the page matrix of `generate_pdf` the annotation rectangle of a link whose box
rectangle is `r` (CSS pixels from the top-left corner) is `r` scaled and flipped to PDF points from
the bottom-left corner; a named destination `(x, y)` is written as `(scale·x, scale·(height − y))`. -/
theorem annot_rect (scale height : Rat) (r : Rect) :
    annotRect (pageMatrix scale height) r =
      ⟨scale * r.x1, scale * (height - r.y1), scale * r.x2, scale * (height - r.y2)⟩ := by
  simp only [annotRect, pageMatrix, Matrix.transformPoint, Rect.mk.injEq]
  refine ⟨?_, ?_, ?_, ?_⟩ <;> grind

example : rectangleAabb (some ⟨0, 1, -1, 0, 0, 0⟩) 1 2 3 4 = ⟨-6, 1, -2, 4⟩ := by
  simp [rectangleAabb, Matrix.transformPoint, min4, max4]; grind

/-! ### gather_anchors: where an anchor points -/

private theorem linkStep_anchors (kind : Kind) (hx hy hw hh : Rat) (link : Option (String × String)) (att : Bool)
    (m : Option Matrix) (acc : Acc) : (linkStep kind hx hy hw hh link att m acc).anchors = acc.anchors := by
  unfold linkStep
  split
  · split <;> rfl
  · rfl

private theorem bookmarkStep_anchors (label : String) (level : Option Int) (state : String) (pos : Rat × Rat)
    (acc : Acc) : (bookmarkStep label level state pos acc).anchors = acc.anchors := by
  unfold bookmarkStep
  split
  · split <;> rfl
  · rfl

/-- The named destination recorded for a box that carries an anchor — bookmark or not — is its hit
area's top-left / bottom-right corners through the accumulated matrix, applied once. -/
theorem anchor_position (kind : Kind) (hx hy hw hh : Rat) (label : String) (level : Option Int)
    (state : String) (link : Option (String × String)) (att : Bool) (n : String) (m : Option Matrix) (acc : Acc)
    (hn : n ≠ "") (hnew : hasName n acc.anchors = false) :
    (visit kind hx hy hw hh label level state link att (some n) m acc).anchors =
      acc.anchors ++ [⟨n, match m with
        | some mm => ⟨(mm.transformPoint hx hy).1, (mm.transformPoint hx hy).2,
            (mm.transformPoint (hx + hw) (hy + hh)).1, (mm.transformPoint (hx + hw) (hy + hh)).2⟩
        | none => ⟨hx, hy, hx + hw, hy + hh⟩⟩] := by
  have hne : (n != "") = true := by simpa using hn
  unfold visit anchorStep
  simp only [bookmarkStep_anchors, linkStep_anchors, hasAnchor, hne, hnew, Bool.not_false, Bool.and_self, if_true]
  cases m <;> rfl

/-- The bookmark of a labelled box points to the same transformed corner. -/
theorem bookmark_position (kind : Kind) (hx hy hw hh : Rat) (label : String) (l : Int) (state : String)
    (link : Option (String × String)) (att : Bool) (anchor : Option String) (m : Option Matrix) (acc : Acc)
    (hb : hasBookmark label (some l) = true) :
    (visit kind hx hy hw hh label (some l) state link att anchor m acc).bookmarks =
      (linkStep kind hx hy hw hh link att m acc).bookmarks ++
        [⟨l, label, (bookmarkPos m hx hy).1, (bookmarkPos m hx hy).2, state⟩] := by
  have h1 : ∀ (a : Acc) pos, (anchorStep anchor m pos hw hh a).bookmarks = a.bookmarks := by
    intro a pos; unfold anchorStep; split
    · split <;> rfl
    · rfl
  unfold visit
  rw [h1]
  unfold bookmarkStep
  simp only [hb, if_true]

example : hasName "a" ({} : Acc).anchors = false ∧ hasBookmark "one" (some 1) = true ∧ "a" ≠ "" := by decide

/-- Without any transform in force the anchor is the hit area. -/
theorem anchor_position_untransformed (kind : Kind) (hx hy hw hh : Rat) (label : String) (level : Option Int)
    (state : String) (link : Option (String × String)) (att : Bool) (n : String) (acc : Acc)
    (hn : n ≠ "") (hnew : hasName n acc.anchors = false) :
    (visit kind hx hy hw hh label level state link att (some n) none acc).anchors =
      acc.anchors ++ [⟨n, ⟨hx, hy, hx + hw, hy + hh⟩⟩] :=
  anchor_position kind hx hy hw hh label level state link att n none acc hn hnew

/-- Duplicate ids: only the first is an anchor (`anchor_name not in anchors`). -/
theorem anchor_first_wins (kind : Kind) (hx hy hw hh : Rat) (label : String) (level : Option Int)
    (state : String) (link : Option (String × String)) (att : Bool) (n : String) (m : Option Matrix) (acc : Acc)
    (hdup : hasName n acc.anchors = true) :
    (visit kind hx hy hw hh label level state link att (some n) m acc).anchors = acc.anchors := by
  unfold visit anchorStep
  simp only [bookmarkStep_anchors, linkStep_anchors, hasAnchor, hdup, Bool.not_true, Bool.and_false,
    Bool.false_eq_true, if_false]

/-- The rectangle recorded for a link is `rectangle_aabb` of the hit area under the accumulated
matrix, and a link on a text / line box is not recorded (the property is inherited). -/
theorem link_rect (kind : Kind) (hx hy hw hh : Rat) (label : String) (level : Option Int) (state : String)
    (ty target : String) (att : Bool) (anchor : Option String) (m : Option Matrix) (acc : Acc) :
    (visit kind hx hy hw hh label level state (some (ty, target)) att anchor m acc).links =
      if kind != .text && kind != .line then
        acc.links ++ [⟨if ty == "external" && att then "attachment" else ty, target, rectangleAabb m hx hy hw hh⟩]
      else acc.links := by
  have h1 : ∀ (a : Acc) pos, (anchorStep anchor m pos hw hh a).links = a.links := by
    intro a pos; unfold anchorStep; split
    · split <;> rfl
    · rfl
  have h2 : ∀ (a : Acc) pos, (bookmarkStep label level state pos a).links = a.links := by
    intro a pos; unfold bookmarkStep; split
    · split <;> rfl
    · rfl
  unfold visit
  rw [h1, h2]
  unfold linkStep hasLink
  simp only [Option.isSome_some, Bool.true_and]
  split <;> rfl


private theorem hasName_iff (n : String) (l : List AnchorEntry) : hasName n l = true ↔ n ∈ l.map (·.name) := by
  induction l with
  | nil => simp [hasName]
  | cons a l ih =>
    simp only [hasName, Bool.or_eq_true, beq_iff_eq, List.map_cons, List.mem_cons, ih]
    constructor
    · rintro (h | h)
      · left; exact h.symm
      · right; exact h
    · rintro (h | h)
      · left; exact h.symm
      · right; exact h

private theorem visit_anchors_nodup (kind : Kind) (hx hy hw hh : Rat) (label : String) (level : Option Int) (state : String)
    (link : Option (String × String)) (att : Bool) (anchor : Option String) (m : Option Matrix) (acc : Acc)
    (h : (acc.anchors.map (·.name)).Nodup) :
    ((visit kind hx hy hw hh label level state link att anchor m acc).anchors.map (·.name)).Nodup := by
  have h1 : ∀ (a : Acc) pos, (bookmarkStep label level state pos a).anchors = a.anchors := by
    intro a pos; unfold bookmarkStep; split
    · split <;> rfl
    · rfl
  have h2 : (linkStep kind hx hy hw hh link att m acc).anchors = acc.anchors := by
    unfold linkStep; split
    · split <;> rfl
    · rfl
  unfold visit anchorStep
  simp only [h1, h2]
  split
  · rename_i hha
    cases anchor with
    | none => simp [hasAnchor] at hha
    | some n =>
      simp only [hasAnchor, Bool.and_eq_true, Bool.not_eq_true'] at hha
      simp only [List.map_append, List.map_cons, List.map_nil]
      rw [List.nodup_append]
      refine ⟨h, by simp, ?_⟩
      intro a ha b hb
      simp only [List.mem_cons, List.not_mem_nil, or_false] at hb
      intro e
      have hm : n ∈ acc.anchors.map (·.name) := by rw [← hb, ← e]; exact ha
      have : hasName n acc.anchors = true := (hasName_iff n acc.anchors).mpr hm
      rw [this] at hha
      simp at hha
  · simp only [h1, h2]; exact h

mutual
private theorem gather_nodup : ∀ (b : GBox) (m : Option Matrix) (acc : Acc), (acc.anchors.map (·.name)).Nodup →
    ((gather b m acc).anchors.map (·.name)).Nodup
  | .mk kind transform ox oy bx bY bw bh hx hy hw hh label level state link att anchor kids, m, acc, h => by
    simp only [gather]
    exact gatherList_nodup kids _ _ (visit_anchors_nodup _ _ _ _ _ _ _ _ _ _ _ _ _ h)
private theorem gatherList_nodup : ∀ (bs : List GBox) (m : Option Matrix) (acc : Acc), (acc.anchors.map (·.name)).Nodup →
    ((gatherList bs m acc).anchors.map (·.name)).Nodup
  | [], _, _, h => by simpa [gatherList] using h
  | b :: rest, m, acc, h => by
    simp only [gatherList]
    exact gatherList_nodup rest m _ (gather_nodup b m acc h)
end

/-- Within a page, `gather_anchors` records each anchor name once (the first box carrying it:
`anchor_first_wins`). -/
theorem page_anchors_once (root : GBox) : ((gatherPage root).anchors.map (·.name)).Nodup :=
  gather_nodup root none {} (by simp)

/-! ## date_roundtrip -/

/-- The pattern text of `html.W3C_DATE_RE` (regenerated from the source at every run) is the pattern
the matcher `matchW3C` transcribes. -/
theorem pattern_is_modelled : Gen.datePattern = modelledPattern := rfl

/-- The key tuples of the loop of `_w3c_date_to_pdf` (regenerated from the source). -/
theorem date_keys : Gen.dateKeys = ["second", "minute", "hour", "day", "month", "year"] ∧
    Gen.dateOneKeys = ["day", "month"] := ⟨rfl, rfl⟩

deriving instance DecidableEq for Except

/-- The model agrees with the graph of the real function on every time-zone hour (both signs, `-00`
included) × the tabulated minutes … -/
theorem tz_graph_agrees : ∀ e ∈ Gen.tzGraph,
    tzSuffix { hour := some ['0', '0'], minute := some ['0', '0'], tzHour := some e.1, tzMinute := some e.2.1 } =
      .ok e.2.2 := by decide +kernel

/-- … and on one date of each of the six formats. -/
theorem format_graph_agrees : ∀ e ∈ Gen.formatGraph, w3cDateToPdf e.1 = .ok (some e.2) := by decide +kernel

/-- All six W3C formats, every time zone (`Z`, `+hh:mm`, `-hh:mm`, including `-00:30`), any HTML white
space around: the string matches `W3C_DATE_RE`, `_w3c_date_to_pdf` raises nothing (its three asserts
hold), and the PDF date it writes reads back as the same instant (missing month/day → 1, missing
seconds → 0, fraction dropped, time zone with its sign). -/
theorem date_roundtrip (d : W3C) (hw : d.wf) (pre post : Str) (hpre : allWs pre = true) (hpost : allWs post = true) :
    w3cDateToPdf (pre ++ d.print ++ post) = .ok (some d.pdf) ∧ parsePdfDate d.pdf = some d.normal := by
  refine ⟨?_, parse_pdf d hw⟩
  unfold w3cDateToPdf
  rw [match_print d hw pre post hpre hpost]
  simp only [groups_pdf d hw]

/-- The sign of the time zone survives for the zero hour (the defect F17, repaired in /repo). -/
example : w3cDateToPdf "2024-05-17T10:30-00:30".toList = .ok (some "D:20240517103000-00'30".toList) := by
  decide +kernel

example : (W3C.full 2024 5 17 ⟨10, 30, some (59, [4, 5]), .offset true 0 30⟩).wf := by
  simp [W3C.wf, Clock.wf, Zone.wf]

/-! ## info_fields -/

open Wp.Metadata in
/-- `/Info` and `/Lang` carry the metadata unchanged: the entry for a non-empty field is the field
itself (authors / keywords joined with `", "`), an empty or missing field writes no entry. -/
theorem info_fields (m : Meta) (hc : m.created = none) (hm : m.modified = none) :
    infoFields m = .ok (optField "Title" m.title ++ listField "Author" m.authors ++
      optField "Subject" m.description ++ listField "Keywords" m.keywords ++ optField "Creator" m.generator ++
      optField "Lang" m.lang) := by
  simp [infoFields, dateEntry, nonEmpty, hc, hm]

open Wp.Metadata in
/-- A date accepted by `get_html_metadata` (it matches `W3C_DATE_RE`) is always written, converted:
`CreationDate` / `ModDate` are never dropped nor written as `None`. -/
theorem info_date (key : String) (d : W3C) (hw : d.wf) :
    dateEntry key (parseW3cDate d.print) = .ok [(key, d.pdf)] := by
  have h1 := match_print d hw [] [] rfl rfl
  have h2 := (date_roundtrip d hw [] [] rfl rfl).1
  simp only [List.nil_append, List.append_nil] at h1 h2
  have hne : ∃ c cs, d.print = c :: cs := by
    cases d <;> simp [W3C.print, d4]
  obtain ⟨c, cs, hcs⟩ := hne
  have hp : parseW3cDate d.print = some d.print := by simp [parseW3cDate, h1]
  have hn : nonEmpty (some d.print) = some d.print := by rw [hcs]; rfl
  unfold dateEntry
  rw [hp, hn]
  simp only [dateField, h2]

open Wp.Metadata in
/-- One bookmark per element: among the boxes of one element (per pseudo-element kind) carrying a
label, exactly the first keeps it (`seen` = the checklist inherited from earlier pages). -/
theorem one_per_element (items : List (Nat × Pseudo)) :
    ∀ (seen : List (Nat × Pseudo)) (i : Nat),
      (watch items seen)[i]? =
        (items[i]?).map (fun b => !(seen.contains b) && !((items.take i).contains b)) := by
  induction items with
  | nil => intro seen i; simp [watch]
  | cons b rest ih =>
    intro seen i
    cases i with
    | zero =>
      simp only [watch]
      split <;> simp_all
    | succ i =>
      simp only [watch]
      split
      · rename_i hb
        simp only [List.getElem?_cons_succ, ih seen i, List.take_succ_cons, List.contains_cons]
        cases hx : rest[i]? with
        | none => rfl
        | some x =>
          simp only [Option.map_some, Option.some.injEq]
          cases hxb : (x == b)
          · simp
          · have : x = b := by simpa using hxb
            subst this
            have hm : x ∈ seen := List.contains_iff_mem.mp hb
            simp [hm]
      · rename_i hb
        simp only [List.getElem?_cons_succ, ih (seen ++ [b]) i, List.take_succ_cons, List.contains_cons,
          List.contains_append]
        cases hx : rest[i]? with
        | none => rfl
        | some x =>
          simp only [Option.map_some, Option.some.injEq, List.contains_nil, Bool.or_false]
          cases seen.contains x <;> cases (x == b) <;> simp

open Wp.Metadata in
/-- Number of boxes of `b` (element, pseudo-element kind) that keep their bookmark label. -/
def keptFor (b : Nat × Pseudo) (items : List (Nat × Pseudo)) (seen : List (Nat × Pseudo)) : Nat :=
  ((items.zip (watch items seen)).filter (fun p => p.1 == b && p.2)).length

open Wp.Metadata in
/-- One outline entry per bookmarked element, whatever lies between its fragments: for every element
(and pseudo-element kind) `b`, exactly one of its labelled boxes keeps the label — none if an earlier
page already listed it (`seen`) — however its boxes are interleaved with boxes of other bookmarked
elements (a bookmarked container continuing after the bookmarked headings it contains, an inline
bookmarked element broken over lines, `::before` / `::after` bookmarks). -/
theorem one_bookmark_per_element (b : Nat × Pseudo) (items : List (Nat × Pseudo)) :
    ∀ (seen : List (Nat × Pseudo)),
      keptFor b items seen = if seen.contains b then 0 else if items.contains b then 1 else 0 := by
  induction items with
  | nil => intro seen; simp [keptFor, watch]
  | cons x rest ih =>
    intro seen
    unfold keptFor at ih ⊢
    by_cases hx : seen.contains x = true
    · have hxm : x ∈ seen := List.contains_iff_mem.mp hx
      simp only [watch, hx, if_true, List.zip_cons_cons, List.filter_cons, Bool.and_false, Bool.false_eq_true, if_false]
      rw [ih seen]
      by_cases hb : b ∈ seen
      · simp [hb]
      · have hne : b ≠ x := fun e => hb (e ▸ hxm)
        simp [hb, hne]
    · have hxm : x ∉ seen := fun h => hx (List.contains_iff_mem.mpr h)
      simp only [watch, hx, Bool.false_eq_true, if_false, List.zip_cons_cons, List.filter_cons, Bool.and_true]
      by_cases hxb : x = b
      · subst hxb
        simp only [beq_self_eq_true, if_true, List.length_cons]
        rw [ih (seen ++ [x])]
        simp [hxm]
      · have hbx : b ≠ x := fun e => hxb e.symm
        have hxb' : (x == b) = false := by simpa using hxb
        simp only [hxb', Bool.false_eq_true, if_false]
        rw [ih (seen ++ [x])]
        simp [hbx]

open Wp.Metadata in
/-- A container (element 0) whose boxes come back after each bookmarked heading it contains. -/
example : watch [(0, .none), (1, .none), (0, .none), (2, .none), (2, .before), (0, .none), (2, .none)] [] =
    [true, true, false, true, true, false, false] := by decide

end Wp.C18
