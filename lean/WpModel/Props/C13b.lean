/-
C13 (round 2) — further property theorems: SVG viewBox → viewport mapping, background tile geometry in
`draw_background_image`, the regenerated embedding-decision table.  Same conventions as `Props/C13.lean`.
-/
import WpModel.Lemmas.SvgViewport
import WpModel.Lemmas.ReplacedBg
import WpModel.Lemmas.ImageDedupe
import WpModel.Lemmas.ImageScopes
import WpModel.Lemmas.PngChunks
import WpModel.Model.SvgCascade
import WpModel.Gen.SvgNotInherited
import WpModel.Model.RasterEmbed
import WpModel.Gen.RasterEmbedGraph
import WpModel.Model.ImageOrient
import WpModel.Model.ReplacedPreferred

set_option linter.unusedSimpArgs false
set_option linter.unusedVariables false
set_option linter.unnecessarySeqFocus false

namespace Wp.C13
open Wp Wp.SvgViewport

/-! ## C13.svg_viewbox_mapping — `svg/utils.py::preserve_ratio` -/

/-- How `preserve_ratio` reads `preserveAspectRatio` (`split()`, `align[1:4].lower()`,
`align[5:].lower()`): the nine alignments × default / `meet` / `slice`, `none`, and the default. -/
def alignTable : List (String × Align) :=
  [("xMinYMin", ⟨.min, .min, true, false⟩), ("xMidYMin", ⟨.mid, .min, true, false⟩),
   ("xMaxYMin", ⟨.max, .min, true, false⟩), ("xMinYMid", ⟨.min, .mid, true, false⟩),
   ("xMidYMid", ⟨.mid, .mid, true, false⟩), ("xMaxYMid", ⟨.max, .mid, true, false⟩),
   ("xMinYMax", ⟨.min, .max, true, false⟩), ("xMidYMax", ⟨.mid, .max, true, false⟩),
   ("xMaxYMax", ⟨.max, .max, true, false⟩),
   ("xMinYMin meet", ⟨.min, .min, true, false⟩), ("xMidYMid meet", ⟨.mid, .mid, true, false⟩),
   ("xMaxYMax meet", ⟨.max, .max, true, false⟩),
   ("xMinYMin slice", ⟨.min, .min, true, true⟩), ("xMidYMin slice", ⟨.mid, .min, true, true⟩),
   ("xMaxYMin slice", ⟨.max, .min, true, true⟩), ("xMinYMid slice", ⟨.min, .mid, true, true⟩),
   ("xMidYMid slice", ⟨.mid, .mid, true, true⟩), ("xMaxYMid slice", ⟨.max, .mid, true, true⟩),
   ("xMinYMax slice", ⟨.min, .max, true, true⟩), ("xMidYMax slice", ⟨.mid, .max, true, true⟩),
   ("xMaxYMax slice", ⟨.max, .max, true, true⟩),
   ("none", ⟨.min, .min, false, false⟩), ("none slice", ⟨.min, .min, false, false⟩)]

theorem svg_align_table : ∀ e ∈ alignTable, parseAlign e.1 = .ok e.2 := by decide +kernel

/-- **C13.svg_viewbox_mapping.** The viewBox → viewport mapping of `preserve_ratio`, for every
`preserveAspectRatio`: writing `(X0, Y0)`, `(X1, Y1)` for the images of the viewBox corners,
`none` stretches the viewBox exactly onto the viewport; otherwise the scale is uniform, `meet` puts
the viewBox inside the viewport and `slice` makes it cover the viewport, touching on one axis, and
`xMin/xMid/xMax`, `YMin/YMid/YMax` align the left / centre / right (top / centre / bottom) edges. -/
theorem svg_viewbox_mapping (vx vy vw vh : Rat) (isRoot : Bool) (intr : Option Rat × Option Rat)
    (par : String) (a : Align) (width height : Rat) (r : Ratio)
    (hvw : 0 < vw) (hvh : 0 < vh) (ha : parseAlign par = .ok a)
    (hres : preserveRatio [vx, vy, vw, vh] isRoot intr par none width height = .ok r) :
    let X0 := (r.apply vx vy).1
    let Y0 := (r.apply vx vy).2
    let X1 := (r.apply (vx + vw) (vy + vh)).1
    let Y1 := (r.apply (vx + vw) (vy + vh)).2
    (a.uniform = false → X0 = 0 ∧ Y0 = 0 ∧ X1 = width ∧ Y1 = height) ∧
    (a.uniform = true → r.sx = r.sy ∧
      (a.slice = false → 0 ≤ X0 ∧ X1 ≤ width ∧ 0 ≤ Y0 ∧ Y1 ≤ height ∧ (X1 - X0 = width ∨ Y1 - Y0 = height)) ∧
      (a.slice = true → X0 ≤ 0 ∧ width ≤ X1 ∧ Y0 ≤ 0 ∧ height ≤ Y1 ∧ (X1 - X0 = width ∨ Y1 - Y0 = height)) ∧
      (a.x = .min → X0 = 0) ∧ (a.x = .mid → X0 + X1 = width) ∧ (a.x = .max → X1 = width) ∧
      (a.y = .min → Y0 = 0) ∧ (a.y = .mid → Y0 + Y1 = height) ∧ (a.y = .max → Y1 = height)) := by
  rw [preserveRatio_viewbox vx vy vw vh isRoot intr par a width height (ne_of_gt hvw) (ne_of_gt hvh) ha] at hres
  obtain rfl := (Except.ok.inj hres).symm
  have hw0 : vw ≠ 0 := ne_of_gt hvw
  have hh0 : vh ≠ 0 := ne_of_gt hvh
  have ew : width / vw * vw = width := by field_simp
  have eh : height / vh * vh = height := by field_simp
  simp only [Ratio.apply]
  constructor
  · intro hu
    have hmin : a.x = .min ∧ a.y = .min := by
      -- `align == 'none'` is the only way to a non-uniform scale, and it sets both positions to 'min'
      unfold parseAlign at ha
      rcases hsp : splitWs par with _ | ⟨al, rest⟩
      · simp [hsp] at ha
      · simp only [hsp] at ha
        split_ifs at ha with hn
        · obtain rfl := (Except.ok.inj ha).symm; exact ⟨rfl, rfl⟩
        · obtain rfl := (Except.ok.inj ha).symm; simp at hu
    simp only [hu, Bool.false_eq_true, if_false, hmin.1, hmin.2, alignAxis]
    refine ⟨by ring, by ring, ?_, ?_⟩
    · have : width / vw * (vx + vw) + (0 - vx * (width / vw)) = width / vw * vw := by ring
      rw [this, ew]
    · have : height / vh * (vy + vh) + (0 - vy * (height / vh)) = height / vh * vh := by ring
      rw [this, eh]
  · intro hu
    simp only [hu, if_true]
    generalize hs : (if a.slice = true then max (width / vw) (height / vh) else min (width / vw) (height / vh)) = s
    have eX0 : s * vx + (alignAxis a.x width vw s - vx * s) = alignAxis a.x width vw s := by ring
    have eY0 : s * vy + (alignAxis a.y height vh s - vy * s) = alignAxis a.y height vh s := by ring
    have eX1 : s * (vx + vw) + (alignAxis a.x width vw s - vx * s) = alignAxis a.x width vw s + s * vw := by ring
    have eY1 : s * (vy + vh) + (alignAxis a.y height vh s - vy * s) = alignAxis a.y height vh s + s * vh := by ring
    rw [eX0, eY0, eX1, eY1]
    obtain ⟨xmin, xmid, xmax⟩ := alignAxis_spec a.x width vw s
    obtain ⟨ymin, ymid, ymax⟩ := alignAxis_spec a.y height vh s
    refine ⟨trivial, ?_, ?_, xmin, xmid, xmax, ymin, ymid, ymax⟩
    · intro hsl
      simp only [hsl, Bool.false_eq_true, if_false] at hs
      have h1 : s * vw ≤ width := by
        have : s ≤ width / vw := by rw [← hs]; exact min_le_left _ _
        calc s * vw ≤ width / vw * vw := mul_le_mul_of_nonneg_right this (le_of_lt hvw)
          _ = width := ew
      have h2 : s * vh ≤ height := by
        have : s ≤ height / vh := by rw [← hs]; exact min_le_right _ _
        calc s * vh ≤ height / vh * vh := mul_le_mul_of_nonneg_right this (le_of_lt hvh)
          _ = height := eh
      obtain ⟨a1, a2⟩ := alignAxis_inside a.x width vw s h1
      obtain ⟨b1, b2⟩ := alignAxis_inside a.y height vh s h2
      refine ⟨a1, a2, b1, b2, ?_⟩
      rcases min_choice (width / vw) (height / vh) with hc | hc
      · left; rw [← hs, hc]; linarith
      · right; rw [← hs, hc]; linarith
    · intro hsl
      simp only [hsl, if_true] at hs
      have h1 : width ≤ s * vw := by
        have : width / vw ≤ s := by rw [← hs]; exact le_max_left _ _
        calc width = width / vw * vw := ew.symm
          _ ≤ s * vw := mul_le_mul_of_nonneg_right this (le_of_lt hvw)
      have h2 : height ≤ s * vh := by
        have : height / vh ≤ s := by rw [← hs]; exact le_max_right _ _
        calc height = height / vh * vh := eh.symm
          _ ≤ s * vh := mul_le_mul_of_nonneg_right this (le_of_lt hvh)
      obtain ⟨a1, a2⟩ := alignAxis_covers a.x width vw s h1
      obtain ⟨b1, b2⟩ := alignAxis_covers a.y height vh s h2
      refine ⟨a1, a2, b1, b2, ?_⟩
      rcases max_choice (width / vw) (height / vh) with hc | hc
      · left; rw [← hs, hc]; linarith
      · right; rw [← hs, hc]; linarith

/-- meet, centred: a 4 × 8 viewBox at (1, 2) in a 100 × 60 viewport is scaled by 7.5 and centred
horizontally. -/
example : preserveRatio [1, 2, 4, 8] true (none, none) "xMidYMid" none 100 60 =
    .ok ⟨15 / 2, 15 / 2, 55 / 2, -15⟩ := by decide +kernel

example : (parseAlign "xMaxYMin slice" = .ok ⟨.max, .min, true, true⟩) ∧ (0 : Rat) < 4 := by
  constructor
  · decide +kernel
  · decide +kernel

/-- An empty `preserveAspectRatio` raises IndexError (`''.split()[0]`); a three-number viewBox raises
ValueError in `preserve_ratio` and IndexError already in `set_svg_size` for the root. -/
example : preserveRatio [0, 0, 4, 8] true (none, none) "" none 100 60 = .error (.indexError "preserve_ratio.aspect_ratio[0]") ∧
    preserveRatio [0, 0, 4] true (none, none) "none" none 100 60 = .error (.valueError "preserve_ratio.viewbox[2:]") ∧
    rootTransform [0, 0, 4] (none, none) "none" 100 60 = .error (.indexError "set_svg_size.viewbox[3]") := by
  refine ⟨?_, ?_, ?_⟩ <;> decide +kernel

/-- Without a viewBox, a root `<svg>` uses its intrinsic size as viewBox size when both are known, else the
identity; a nested one always the identity. -/
theorem svg_no_viewbox (isRoot : Bool) (intr : Option Rat × Option Rat) (par : String) (w h : Rat) :
    (isRoot = false → preserveRatio [] isRoot intr par none w h = .ok ⟨1, 1, 0, 0⟩) ∧
    (intr.1 = none ∨ intr.2 = none → preserveRatio [] isRoot intr par none w h = .ok ⟨1, 1, 0, 0⟩) := by
  constructor
  · rintro rfl; simp [preserveRatio, bind, Except.bind, pure, Except.pure]
  · rcases intr with ⟨a, b⟩
    cases isRoot <;> cases a <;> cases b <;> simp [preserveRatio, bind, Except.bind, pure, Except.pure]

/-- `<image>` inside an SVG: explicit `width`/`height` win, missing ones come from the referenced image's
intrinsic size; the image is fitted with the viewBox `(0, 0, intrinsic_width, intrinsic_height)`. -/
theorem svg_image_box (width height iw ih : Rat) (ir : Option Rat) :
    imageBox width height (some iw) (some ih) ir =
      .ok (if width != 0 then width else iw, if height != 0 then height else ih, iw, ih) := by
  simp [imageBox, truthy, bind, Except.bind, pure, Except.pure]


/-! ## C13.svg_viewport_not_inherited — `svg/__init__.py::Node.cascade` on the regenerated table -/

/-- The attributes that establish a viewport and its viewBox → viewport mapping (`preserveAspectRatio`,
`viewBox`, `width`, `height`, `x`, `y`, `transform`) are in the regenerated `NOT_INHERITED_ATTRIBUTES`
(a removal from the source table breaks this proof at the next run). -/
theorem svg_viewport_attributes_listed :
    ∀ key ∈ ["preserveAspectRatio", "viewBox", "width", "height", "x", "y", "transform"],
      Gen.svgNotInherited.contains key = true := by decide

/-- **A nested element never takes the viewport attributes of its ancestors**: for each of those
attributes, an element that does not write it does not have it after `Node.cascade`, whatever its
parent carries; an element that writes a value other than `inherit` keeps its own. -/
theorem svg_viewport_not_inherited (key : String)
    (hk : key ∈ ["preserveAspectRatio", "viewBox", "width", "height", "x", "y", "transform"])
    (parent : Option String) :
    cascadeAttr Gen.svgNotInherited key parent none = none ∧
    (∀ v, v ≠ "inherit" → cascadeAttr Gen.svgNotInherited key parent (some v) = some v) := by
  have hin : key ∈ Gen.svgNotInherited := by simpa using svg_viewport_attributes_listed key hk
  constructor
  · simp [cascadeAttr, hin]
  · intro v hv
    simp [cascadeAttr, hv]

/-- An attribute that is not in the table is handed down to the children that do not write it, and
`inherit` takes the parent's value for every attribute. -/
theorem svg_cascade_inherited (notInherited : List String) (key : String) (parent : Option String)
    (hk : notInherited.contains key = false) :
    cascadeAttr notInherited key parent none = (match parent with
      | some s => if s == "inherit" then parent else some s
      | none => none) ∧
    cascadeAttr notInherited key parent (some "inherit") = parent := by
  have hk' : key ∉ notInherited := by simpa using hk
  constructor
  · cases parent <;> simp [cascadeAttr, hk']
  · simp [cascadeAttr]

/-- Hence the viewBox → viewport mapping of a nested `<svg>` / `<image>` / `<marker>` without its own
`preserveAspectRatio` is the default `xMidYMid meet` one, under any chain of ancestors (finding
`svg-preserveaspectratio-inherited`, fixed by 358a995: this is its regression theorem). -/
theorem svg_nested_par_default (ancestors : List (Option String)) (root : Option String) :
    effectivePar Gen.svgNotInherited (root :: (ancestors ++ [none])) = "xMidYMid" := by
  have h : ∀ p, cascadeAttr Gen.svgNotInherited "preserveAspectRatio" p none = none :=
    fun p => (svg_viewport_not_inherited "preserveAspectRatio" (by simp) p).1
  simp [effectivePar, chainAttr, List.foldl_append, h]

/-- Regression input of the former finding: root `xMaxYMin slice`, nested `<svg viewBox='0 0 2 2'>` of 3 × 1. -/
example : preserveRatio [0, 0, 2, 2] false (none, none)
      (effectivePar Gen.svgNotInherited [some "xMaxYMin slice", none]) none 3 1 = .ok ⟨1 / 2, 1 / 2, 1, 0⟩ := by
  rw [show effectivePar Gen.svgNotInherited [some "xMaxYMin slice", none] = "xMidYMid" from
    svg_nested_par_default [] (some "xMaxYMin slice")]
  decide +kernel

/-! ## C13.background_tiles — `draw_background_image` -/

section Tiles
open Wp.Replaced

/-- The tiling chosen per axis: `repeat` / `round` step by the tile size and keep `background-position`
as the anchor of one tile; `no-repeat` steps by `max(tile, 2·painting extent)`; `space` with fewer than two
fitting tiles paints one tile at `background-position`. -/
theorem background_tiling_table (image positioning painting position : Rat) :
    repeatAxis .repeat image positioning painting position = .ok (image, position) ∧
    repeatAxis .round image positioning painting position = .ok (image, position) ∧
    repeatAxis .noRepeat image positioning painting position = .ok (max image (2 * painting), position) ∧
    (image ≠ 0 → (positioning / image).floor < 2 →
      repeatAxis .space image positioning painting position = .ok (positioning, position)) := by
  refine ⟨rfl, rfl, rfl, fun hi hn => ?_⟩
  have : ¬ (2 ≤ (positioning / image).floor) := by omega
  simp [repeatAxis, pyDiv, hi, this, bind, Except.bind, pure, Except.pure]

/-- `no-repeat` on both axes: no pattern; the image is painted once, `size` large, with its top-left corner
at `positioning origin + background-position`, clipped to the painting area. -/
theorem background_single (r : LayerResult) (l : Layer) (hl : r.layer = some l)
    (hx : l.repeatX = .noRepeat) (hy : l.repeatY = .noRepeat) (hw : l.size.1 ≠ 0) (hh : l.size.2 ≠ 0) :
    drawBackgroundImage r = .ok (.single r.paintingArea (l.position.1 + l.positioningArea.x)
      (l.position.2 + l.positioningArea.y) l.size.1 l.size.2) := by
  simp [drawBackgroundImage, hl, hx, hy, hw, hh]

/-- An empty tile (or no image) paints nothing. -/
theorem background_empty_paints_nothing (r : LayerResult) :
    (r.layer = none → drawBackgroundImage r = .ok .nothing) ∧
    (∀ l, r.layer = some l → (l.size.1 = 0 ∨ l.size.2 = 0) → drawBackgroundImage r = .ok .nothing) := by
  constructor
  · intro h; simp [drawBackgroundImage, h]
  · rintro l h (h0 | h0) <;> simp [drawBackgroundImage, h, h0]

/-- A `no-repeat` axis inside a tiling pattern (`background-repeat: no-repeat repeat` …): the pattern
steps by `s = max(tile, 2·painting extent)` on that axis.  PARTIAL: when the image lies inside the painting
area on that axis, no other copy `k ≠ 0` of the tile meets the painting area.
FULL STATEMENT (false of the code, `Witness.no_repeat_axis_wraps`): "for every position of the image, no
copy `k ≠ 0` meets the painting area" — an image placed outside the painting area (or straddling its edge
with a tile at least twice as large as the area) comes back periodically. -/
theorem background_no_repeat_single_tile_partial (o iw p pw : Rat) (hpw : 0 ≤ pw)
    (hin : p ≤ o ∧ o + iw ≤ p + pw) (k : Int) (hk : k ≠ 0) :
    o + (k : Rat) * max iw (2 * pw) + iw ≤ p ∨ p + pw ≤ o + (k : Rat) * max iw (2 * pw) := by
  have hs : 2 * pw ≤ max iw (2 * pw) := le_max_right _ _
  generalize max iw (2 * pw) = s at hs
  have hs0 : 0 ≤ s := by linarith
  rcases lt_or_gt_of_ne hk with hneg | hpos
  · left
    have : (k : Rat) ≤ -1 := by exact_mod_cast (by omega : k ≤ -1)
    nlinarith [hin.1, hin.2]
  · right
    have : (1 : Rat) ≤ k := by exact_mod_cast (by omega : 1 ≤ k)
    nlinarith [hin.1, hin.2]

example : (300 : Rat) + ((-3 : Int) : Rat) * max 10 (2 * 50) + 10 ≤ 50 ∧ ¬ ((0 : Rat) ≤ 300 ∧ (300 : Rat) + 10 ≤ 0 + 50) := by
  constructor <;> norm_num

end Tiles


/-! ## C13.embed_graph — the model reproduces the regenerated whole-domain table -/

section EmbedGraph
open Wp.RasterEmbed

/-- The decisions of the model in the coding of `Gen.embedGraph`. -/
def embedSummary (s : Src) (o : Opts) : Option (PMode × Bool × Bool × Bool × Nat × Bool × Bool × Bool × Bool) :=
  match embed s o with
  | .error _ => none
  | .ok (r, x) =>
    some (r.mode, r.jpeg, r.reencoded, r.invert,
      (match r.mode with | .L | .LA => 1 | .CMYK => 2 | _ => 0), !r.jpeg, x.colors3, x.smask, x.decodeInverted)

/-- The colour-space code of `embedSummary` is the colour space of the model. -/
theorem embedSummary_colour (m : PMode) :
    colorSpaceOf m = (match (match m with | .L | .LA => 1 | .CMYK => 2 | _ => (0 : Nat)) with
      | 1 => "/DeviceGray" | 2 => "/DeviceCMYK" | _ => "/DeviceRGB") := by
  cases m <;> rfl

abbrev Summary := PMode × Bool × Bool × Bool × Nat × Bool × Bool × Bool × Bool

/-- Component-wise equality of two summaries (a `Bool`, so that the kernel can evaluate it). -/
def sameSummary : Option Summary → Option Summary → Bool
  | none, none => true
  | some (m, a, b, c, n, d, e, f, g), some (m', a', b', c', n', d', e', f', g') =>
    decide (m = m') && a == a' && b == b' && c == c' && n == n' && d == d' && e == e' && f == f' && g == g'
  | _, _ => false

theorem sameSummary_eq (x y : Option Summary) (h : sameSummary x y = true) : x = y := by
  rcases x with _ | ⟨m, a, b, c, n, d, e, f, g⟩ <;> rcases y with _ | ⟨m', a', b', c', n', d', e', f', g'⟩ <;>
    simp [sameSummary] at h ⊢
  obtain ⟨⟨⟨⟨⟨⟨⟨⟨h1, h2⟩, h3⟩, h4⟩, h5⟩, h6⟩, h7⟩, h8⟩, h9⟩ := h
  exact ⟨h1, h2, h3, h4, h5, h6, h7, h8, h9⟩

/-- Every row of the table obtained by calling the real `RasterImage` on every image Pillow can write
(regenerated on each run) is what the hand-written model decides: a change of the decision logic in
`images.py` breaks this proof, whatever the sampled correspondence happens to draw. -/
theorem embed_graph_agrees_bool :
    Gen.embedGraph.all (fun e => sameSummary (embedSummary e.1 e.2.1) e.2.2) = true := by decide +kernel

theorem embed_graph_agrees : ∀ e ∈ Gen.embedGraph, embedSummary e.1 e.2.1 = e.2.2 := by
  intro e he
  exact sameSummary_eq _ _ (List.all_eq_true.mp embed_graph_agrees_bool e he)

/-- …and on that whole domain, an image gets an `/SMask` exactly when it has alpha or transparency
information (the rows that are not loaded — modes the PNG encoder cannot write — carry no image at all; `I;16` is the known finding `grey16-embedded-as-rgb8`). -/
theorem embed_graph_smask :
    Gen.embedGraph.all (fun e => match e.2.2 with
      | none => true
      | some (_, _, _, _, _, _, _, smask, _) => smask == hasAlpha e.1) = true := by decide +kernel

example : decide (Gen.embedGraph.length ≥ 200) = true := by decide +kernel

/-- `Props/C13.lean::embed_decode_iff_app14` on the table regenerated from the real `RasterImage` (every image Pillow can write × options ×
rotation): a row carries `/Decode` exactly when it is a JPEG-path CMYK image whose file has the APP14 marker. -/
theorem embed_graph_decode :
    Gen.embedGraph.all (fun e => match e.2.2 with
      | none => true
      | some (mode, jpeg, _, _, _, _, _, _, decode) => decode == (jpeg && decide (mode = .CMYK) && e.1.app14)) = true := by
  decide +kernel

example : (Gen.embedGraph.filter (fun e => match e.2.2 with
    | some (_, _, _, _, _, _, _, _, decode) => decode && e.1.rotated | none => false)).length ≥ 1 := by decide +kernel

end EmbedGraph


/-! ## C13.png_stream_lossless — `RasterImage._get_png_data` -/

section Png
open Wp.PngChunks

/-- **The `/FlateDecode` data of an image XObject is the image data of the PNG, bit for bit.**  For every
PNG file — the 8 signature bytes followed by any sequence of well-formed chunks (any types, any number of
`IDAT` chunks, any ancillary chunks between them, zero-length chunks included) — `_get_png_data` returns
exactly the concatenation of the contents of the `IDAT` chunks in file order, i.e. the zlib datastream of
the image (PNG specification 10.1); nothing of another chunk, of a length field or of a CRC leaks into it,
and it never fails. -/
theorem png_stream_lossless (signature : List Nat) (hsig : signature.length = 8) (chunks : List Chunk)
    (hwf : ∀ c ∈ chunks, Chunk.WF c) :
    getPngData (signature ++ encodeAll chunks) = .ok (idatPayload chunks) := by
  unfold getPngData
  have hdrop : (signature ++ encodeAll chunks).drop 8 = encodeAll chunks := by
    rw [← hsig]; exact List.drop_left
  rw [hdrop, loop_chunks chunks _ [] hwf (by
    have := encodeAll_length chunks
    simp [List.length_append]; omega)]
  simp

/-- Non-vacuity: IHDR, a `tEXt`, two IDATs (one of them empty … one of three bytes) and IEND. -/
example : getPngData ([137, 80, 78, 71, 13, 10, 26, 10] ++ encodeAll
      [⟨[73, 72, 68, 82], [1, 2], [0, 0, 0, 0]⟩, ⟨idat, [7, 8], [9, 9, 9, 9]⟩, ⟨[116, 69, 88, 116], [5], [1, 1, 1, 1]⟩,
       ⟨idat, [], [3, 3, 3, 3]⟩, ⟨idat, [4, 5, 6], [2, 2, 2, 2]⟩, ⟨[73, 69, 78, 68], [], [0, 0, 0, 0]⟩]) =
    .ok [7, 8, 4, 5, 6] := by decide +kernel

/-- A file cut inside a length field is the one failure point (`struct.error`), and a chunk type differing
from `IDAT` in case is skipped. -/
example : getPngData ([0, 0, 0, 0, 0, 0, 0, 0] ++ [0, 0]) = .error (.structError "_get_png_data.unpack") ∧
    getPngData ([0, 0, 0, 0, 0, 0, 0, 0] ++ encodeAll [⟨[105, 100, 97, 116], [1], [0, 0, 0, 0]⟩]) = .ok [] := by
  constructor <;> decide +kernel

end Png


/-! ## C13.image_orientation — `computed_values.image_orientation`, `rotate_pillow_image` -/

section Orient
open Wp.ImageOrient

/-- The computed angle is one of the four quarter turns, and whole quarter turns are taken modulo 4
(negative ones too). -/
theorem orientation_angle (q : Rat) (k : Int) :
    (computedAngle q = 0 ∨ computedAngle q = 90 ∨ computedAngle q = 180 ∨ computedAngle q = 270) ∧
    computedAngle (k : Rat) = (k % 4).toNat * 90 := by
  constructor
  · unfold computedAngle
    have h0 : 0 ≤ roundHalfEven q % 4 := Int.emod_nonneg _ (by decide)
    have h1 : roundHalfEven q % 4 < 4 := Int.emod_lt_of_pos _ (by decide)
    generalize roundHalfEven q % 4 = m at h0 h1
    have : m = 0 ∨ m = 1 ∨ m = 2 ∨ m = 3 := by omega
    rcases this with rfl | rfl | rfl | rfl <;> simp
  · have : roundHalfEven (k : Rat) = k := by
      simp [roundHalfEven, Rat.floor_intCast]
    simp [computedAngle, this]

/-- Size: a quarter turn swaps width and height, 0 / 180 keep them; a flip never changes the size;
another image object is returned (so the source bytes are dropped and the image re-encoded) exactly
when a rotation or a flip is applied. -/
theorem orientation_size {α} (i : Img α) (angle : Nat) (flip : Bool) :
    ((angle = 90 ∨ angle = 270) → (rotatePillow i (.turn angle flip)).1.w = i.h ∧
      (rotatePillow i (.turn angle flip)).1.h = i.w) ∧
    ((angle = 0 ∨ angle = 180) → (rotatePillow i (.turn angle flip)).1.w = i.w ∧
      (rotatePillow i (.turn angle flip)).1.h = i.h) ∧
    ((rotatePillow i (.turn angle flip)).2 = (decide (angle > 0) || flip)) ∧
    (rotatePillow i .none = (i, false)) ∧ (rotatePillow i .fromImage = (i, false)) := by
  refine ⟨?_, ?_, ?_, rfl, rfl⟩
  · rintro (rfl | rfl) <;> cases flip <;> simp [rotatePillow, Img.pillowRotate, Img.rotCcw, Img.rotCw, Img.flipLr]
  · rintro (rfl | rfl) <;> cases flip <;> simp [rotatePillow, Img.pillowRotate, Img.rot180, Img.flipLr]
  · by_cases h : angle > 0 <;> cases flip <;> simp [rotatePillow, h]

/-- `image-orientation: <angle> [flip]` is what css-images-3 asks for, for every computed angle
(0, 90, 180, 270) with or without `flip`: rotation to the right, then horizontal flip.
(Full strength since repair e4e2f8c; before it only the half turns matched — the `_partial` theorem
`orientation_quarter_turns_partial` stated that 90deg and 270deg were exchanged, finding
`image-orientation-rotates-ccw`, fixed.) -/
theorem orientation_matches_css {α} (i : Img α) (angle : Nat) (flip : Bool)
    (ha : angle = 0 ∨ angle = 90 ∨ angle = 180 ∨ angle = 270) :
    (rotatePillow i (.turn angle flip)).1 = cssOrient i angle flip := by
  rcases ha with rfl | rfl | rfl | rfl <;> cases flip <;> simp [rotatePillow, Img.pillowRotate, cssOrient]

/-- What "rotate to the right" means on pixels, independently of Pillow's names: after
`image-orientation: 90deg` the source pixel at column `x`, row `y` is at column `h - 1 - y`, row `x`
(the top-left pixel goes to the top-right corner); after `270deg` it is at column `y`, row `w - 1 - x`
(the top-left pixel goes to the bottom-left corner).  Stated for `rotate_pillow_image` itself. -/
theorem orientation_quarter_turns_clockwise {α} (i : Img α) (x y : Nat) (hx : x < i.w) (hy : y < i.h) :
    (rotatePillow i (.turn 90 false)).1.px (i.h - 1 - y) x = i.px x y ∧
    (rotatePillow i (.turn 270 false)).1.px y (i.w - 1 - x) = i.px x y ∧
    (rotatePillow i (.turn 90 false)).1.w = i.h ∧ (rotatePillow i (.turn 270 false)).1.h = i.w := by
  refine ⟨?_, ?_, ?_, ?_⟩
  · simp only [rotatePillow, Img.pillowRotate, Img.rotCw]
    simp
    congr 1; omega
  · simp only [rotatePillow, Img.pillowRotate, Img.rotCcw]
    simp
    congr 1; omega
  · simp [rotatePillow, Img.pillowRotate, Img.rotCw]
  · simp [rotatePillow, Img.pillowRotate, Img.rotCcw]

/-- The two quarter turns are inverse of each other, and a flip is an involution (on the pixels of the image). -/
theorem orientation_inverse {α} (i : Img α) (x y : Nat) (hx : x < i.w) (hy : y < i.h) :
    i.rotCcw.rotCw.w = i.w ∧ i.rotCcw.rotCw.h = i.h ∧ i.rotCcw.rotCw.px x y = i.px x y ∧
    i.flipLr.flipLr.px x y = i.px x y ∧ i.rot180.rot180.px x y = i.px x y := by
  refine ⟨rfl, rfl, ?_, ?_, ?_⟩
  · simp only [Img.rotCw, Img.rotCcw]
    congr 1 <;> omega
  · simp only [Img.flipLr]
    congr 1; omega
  · simp only [Img.rot180]
    congr 1 <;> omega

/-- Regression for the fixed finding `image-orientation-rotates-ccw` (input of the former witness): on the
two-pixel image `[A B]`, `90deg` puts A on top. -/
example : ((rotatePillow (Img.ofRows 0 [[10, 20]]) (.turn 90 false)).1.rows, (cssOrient (Img.ofRows 0 [[10, 20]]) 90 false).rows) =
    ([[10], [20]], [[10], [20]]) := by decide +kernel

end Orient


/-! ## C13.intrinsic_contribution — `preferred.py::replaced_min/max_content_width` -/

section Preferred
open Wp.Replaced

/-- `min_max` of preferred.py is monotone in the width it clamps. -/
theorem pref_min_max_monotone (s : PrefStyle) (ratio : Option Rat) (w1 w2 : Rat) (h : w1 ≤ w2) :
    prefMinMax s ratio w1 ≤ prefMinMax s ratio w2 := by
  unfold prefMinMax
  cases (prefLimits s ratio).2 with
  | none => exact max_le_max (le_refl _) h
  | some m => exact max_le_max (le_refl _) (min_le_min h (le_refl _))

/-- The width `replaced_min_content_width` starts from is 0 (percentage `width` / `max-width`, image with only
a ratio) or the one `replaced_max_content_width` starts from. -/
theorem pref_raw_min (s : PrefStyle) (i : Intr) (m : Rat) (hmin : prefRawMin s i = .ok m) :
    m = 0 ∨ prefRawMax s i = .ok m := by
  unfold prefRawMin at hmin
  unfold prefRawMax
  rcases hw : s.width with _ | d
  · simp only [hw] at hmin ⊢
    rcases hmw : s.maxWidth with _ | dm
    · simp only [hmw] at hmin
      split_ifs at hmin
      · left; simpa [pure, Except.pure] using hmin.symm
      · right; exact hmin
    · cases dm with
      | px v =>
        simp only [hmw] at hmin
        split_ifs at hmin
        · left; simpa [pure, Except.pure] using hmin.symm
        · right; exact hmin
      | pct v => left; simpa [hmw, pure, Except.pure] using hmin.symm
  · cases d with
    | px v => right; simpa [hw] using hmin
    | pct v => right; simpa [hw] using hmin

/-- The min-content contribution of a replaced box never exceeds its max-content contribution (content
widths), as soon as the width computed from the image is not negative. -/
theorem pref_min_le_max (s : PrefStyle) (i : Intr) (m M : Rat)
    (hmin : replacedMinContentWidth s i false = .ok m) (hmax : replacedMaxContentWidth s i false = .ok M)
    (hpos : ∀ w, prefRawMax s i = .ok w → 0 ≤ w) : m ≤ M := by
  unfold replacedMinContentWidth at hmin
  unfold replacedMaxContentWidth at hmax
  simp only [bind, Except.bind, pure, Except.pure, prefAdjust, Bool.false_eq_true, if_false] at hmin hmax
  rcases h1 : prefRawMin s i with e | a
  · simp [h1] at hmin
  · rcases h2 : prefRawMax s i with e | b
    · simp [h2] at hmax
    · simp [h1] at hmin; simp [h2] at hmax
      subst hmin; subst hmax
      rcases pref_raw_min s i a h1 with rfl | h
      · exact pref_min_max_monotone s i.ratio 0 b (hpos b h2)
      · rw [h2] at h; obtain rfl := Except.ok.inj h; exact le_refl _

example : (replacedMinContentWidth ⟨none, none, none, some (.pct 50), none, none, none, none, .px 0, .px 0, 0, 0⟩
      ⟨some 40, some 20, some 2⟩ false).toOption = some 0 ∧
    (replacedMaxContentWidth ⟨none, none, none, some (.pct 50), none, none, none, none, .px 0, .px 0, 0, 0⟩
      ⟨some 40, some 20, some 2⟩ false).toOption = some 40 := by
  constructor <;> decide +kernel

end Preferred


/-! ## C13.painted_images_defined — every content stream names the images it paints -/

/-- **Painted exactly over that rectangle — in every resource scope.**  For any drawing (images, nested
transparency groups and tiling patterns, the same image used any number of times anywhere): after
`Stream.add_image` / `add_group` / `add_pattern`, the `/Resources /XObject` dictionary of *each* content
stream — the page's, and recursively each group's and each pattern's own one — has an entry for every
image that stream paints (`/name Do` with an undefined name paints nothing).  The document-wide `images`
registry makes the XObject unique (`embedded_once`); it must not stand in for the per-stream entry. -/
theorem painted_images_defined (draws : List ImageDedupe.Draw) :
    CoveredList draws (ImageDedupe.buildList draws [] []).1 (ImageDedupe.buildList draws [] []).2 :=
  buildList_covers draws [] []

/-- Non-vacuity: an image used as a background (in a group) and then as `<img>` in the page content is named in
both dictionaries… -/
example : (ImageDedupe.buildList [.group [.image "a" true 1 false], .image "a" true 1 false] [] []) =
    ([.group "x0" [.image "ia1"] [], .image "ia1"], []) := by
  simp [ImageDedupe.buildList, ImageDedupe.buildOne, ImageDedupe.imageName, ImageDedupe.Node.isImageNamed]
  decide

/-- …whereas resources in which only the first scope that met the image names it (what registering the name
after the `already stored in document` early return produces) do not cover the drawing. -/
example : ¬ CoveredList [.group [.image "a" true 1 false], .image "a" true 1 false]
    [ImageDedupe.Node.group "x0" [.image "ia1"] []] [] := by
  simp [CoveredList, Covered, ImageDedupe.Node.isImageNamed]

/-! ## C13.embedded_once (continued) — the dpi ratio handed to `get_x_object` -/

/-- For any drawing, each image XObject is created with the maximum of all the dpi ratios requested for
that `(image.id, interpolate)` anywhere in the document (`max(image_data['dpi_ratios'])`), the list of
requests being non-empty. -/
theorem embedded_max_ratio (draws : List ImageDedupe.Draw) (base : Nat) (st : ImageDedupe.St)
    (h : ImageDedupe.document draws base = some st) (n : String) (b : Bool) (r : Rat)
    (hmem : ImageDedupe.Obj.image n b r ∈ st.objs) :
    ∃ r0 rs, ratiosOfList n draws = r0 :: rs ∧ r = ImageDedupe.maxOf r0 rs :=
  embedded_max_ratio_tree draws base st h n b r hmem

example : (ImageDedupe.document [.image "a" true (1/2) false, .group [.image "a" true 1 false]] 3).map
    (fun st => st.objs.length) = some 3 ∧ ratiosOfList "ia1" [.image "a" true (1/2) false, .group [.image "a" true 1 false]] = [1/2, 1] := by
  constructor <;> decide +kernel

end Wp.C13
