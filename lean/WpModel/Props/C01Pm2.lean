/-
C01 — refinement: the verified trace checker (`Model/Trace.lean`, soundness in `Props/C01Trace.lean`) accepts
every pagination produced by PM. `groupsOf d` / `pageWordsOf pages` (Lemmas/Pm2Words.lean) are the
abstraction the Python harness applies to a real render (one word per line, ids in source order).
Hence the acceptance language of the checker used on the wide grammar contains every PM behaviour: on the PM
fragment it never raises a false alarm, and what it rejects departs from a behaviour proved of PM.
-/
import WpModel.Lemmas.Pm2Words
import WpModel.Props.C01
import WpModel.Props.C01Trace
import WpModel.Lemmas.LossyPages
import WpModel.Lemmas.Pm2Obs

namespace Wp.C01Pm2
open Wp Wp.PM

/-- The words shown by the pages of a pagination, concatenated, are the words of the document in source
order (`C01.pages_conserve` read through the word numbering). -/
theorem page_words_are_all_words (d : Doc) (hN : NoFixedHeight d.root) (hW : WellFormed d.root) (fuel : Nat)
    (pages : List Page) (h : paginate d fuel = some pages) :
    (pageWordsOf pages).flatten = allWords d.root := by
  rw [pageWordsOf_flatten, C01.pages_conserve d hN hW fuel pages h, allWords_eq]

/-- **The conservation checker accepts PM**: for every document without fixed heights, with
`orphans, widows ≥ 1` (the hypotheses of `C01.pages_conserve`) and pairwise distinct paragraph ids, the
checker run on the harness abstraction of the PM pagination reports no bad group: every paragraph's words
exactly once and in order, and all words of the document in source order across paragraphs. -/
theorem checker_accepts_pm (d : Doc) (hN : NoFixedHeight d.root) (hW : WellFormed d.root)
    (hU : UniqueParaIds d.root) (fuel : Nat) (pages : List Page) (h : paginate d fuel = some pages) :
    Trace.badGroups (groupsOf d) (pageWordsOf pages) = [] := by
  apply badGroups_eq_nil_of
  rw [page_words_are_all_words d hN hW fuel pages h]
  intro g hg
  unfold groupsOf at hg
  rcases List.mem_append.mp hg with hg | hg
  · obtain ⟨p, hp, rfl⟩ := List.mem_map.mp hg
    simp only [Trace.groupOk, true_or, ↓reduceIte, beq_iff_eq]
    exact project_para (paras d.root) hU p hp
  · simp only [List.mem_singleton] at hg
    subst hg
    simp only [Trace.groupOk, Nat.succ_ne_self, or_true, ↓reduceIte, beq_iff_eq]
    exact project_self _

/-- Consequence through the checker's soundness theorem: every word of every paragraph appears exactly once
in the page words (the word numbering is injective, so this is per line). -/
theorem pm_words_once (d : Doc) (hN : NoFixedHeight d.root) (hW : WellFormed d.root)
    (hU : UniqueParaIds d.root) (fuel : Nat) (pages : List Page) (h : paginate d fuel = some pages) :
    ∀ p ∈ paras d.root, ∀ w ∈ paraWords p, (pageWordsOf pages).flatten.count w = 1 := by
  intro p hp w hw
  have hacc := checker_accepts_pm d hN hW hU fuel pages h
  have hg : ({ kind := 0, words := paraWords p } : Trace.Group) ∈ groupsOf d := by
    unfold groupsOf
    exact List.mem_append_left _ (List.mem_map.mpr ⟨p, hp, rfl⟩)
  have hnd : (paraWords p).Nodup := by
    unfold paraWords
    rw [List.nodup_iff_pairwise_ne, List.pairwise_map]
    have := List.nodup_iff_pairwise_ne.mp (List.nodup_range (n := p.2))
    exact this.imp (fun hne hab => hne (wordId_inj _ _ _ _ hab).2)
  exact ((C01Trace.conserve_sound _ _ hacc _ hg).1 (Or.inl rfl) hnd).1 w hw

/-! Non-vacuity: `C01.exDoc` (nested blocks, orphans/widows 2, an empty block, a forced `left` break with a
blank page). -/
example : NoFixedHeight C01.exDoc.root ∧ WellFormed C01.exDoc.root ∧ UniqueParaIds C01.exDoc.root := by
  refine ⟨?_, ?_, ?_⟩
  · simp [C01.exDoc, NoFixedHeight, NoFixedHeightList, C01.exStyle]
  · simp [C01.exDoc, WellFormed, WellFormedList, C01.exStyle]
  · simp [UniqueParaIds, C01.exDoc, paras, parasList]

example : (groupsOf C01.exDoc).map (fun g => (g.kind, g.words)) =
      [(0, [1, 4, 8]), (0, [6, 11, 17, 24]), (0, [15]), (1, [1, 4, 8, 6, 11, 17, 24, 15])] ∧
    (paginate C01.exDoc 50).map pageWordsOf = some [[1, 4], [8], [6, 11], [17, 24], [], [15]] ∧
    (paginate C01.exDoc 50).map (fun ps => Trace.badGroups (groupsOf C01.exDoc) (pageWordsOf ps)) = some [] :=
  ⟨by decide +kernel, by decide +kernel, by decide +kernel⟩

/-! ### conservation for every document (fixed heights allowed)

`forgetIfFixed` ("box height is fixed …, forget overflowing children") makes full conservation false as soon as
a box has a fixed `height` (`Witness.C01Pm2.fixed_height_loses_lines`). What remains true of *every* document
with `orphans, widows ≥ 1`: -/

private theorem pagesLines_eq (pages : List Page) :
    pagesLines pages = (pages.map (fun p => fragLines p.root)).flatten := by
  induction pages with
  | nil => rfl
  | cons p ps ih => simp [pagesLines, ih]

/-- **Segment theorem for every box**: whatever a layout shows, followed by what its resume position
designates, is a sub-list of what it was asked for (nothing invented, duplicated or reordered), and every
line asked for that has no fixed-height ancestor is shown or left for the next page. -/
theorem segment_all (box : PBox) (hW : WellFormed box) (c : Ctx) (idx : Nat) (y bs : Rat)
    (skip : Option Resume) (cb pie : Bool) (adjL : List Rat) (f : Frag)
    (h : (layoutBox c box idx y bs skip cb pie adjL).frag = some f) :
    (fragLines f ++ restOut box (layoutBox c box idx y bs skip cb pie adjL).resume).Sublist (linesFrom box skip) ∧
    (freeFrom box skip).Sublist
      (fragLines f ++ restFree box (layoutBox c box idx y bs skip cb pie adjL).resume) := by
  have := (boxPostT_sand _ _ _ _ _ (box_specT box hW c idx y bs skip cb pie adjL false) h).1
  exact ⟨this.2, this.1 rfl⟩

/-- **Order preserved, nothing invented** (every document): the lines shown by the pages, in page order, form
a sub-list of the lines of the document in source order. -/
theorem order_preserved (d : Doc) (hW : WellFormed d.root) (fuel : Nat) (pages : List Page)
    (h : paginate d fuel = some pages) :
    ((pages.map (fun p => fragLines p.root)).flatten).Sublist (linesFrom d.root none) := by
  rw [← pagesLines_eq]
  unfold paginate at h
  have := makeAllPages_linesT d hW fuel 0 none _ _ pages (fun _ => by simp [requestedSide, isBlank]) h
  simpa using this.2

/-- **No line is shown twice** (every document whose lines are distinct, e.g. distinct paragraph ids). -/
theorem no_duplication (d : Doc) (hW : WellFormed d.root) (hU : UniqueParaIds d.root) (fuel : Nat)
    (pages : List Page) (h : paginate d fuel = some pages) :
    ((pages.map (fun p => fragLines p.root)).flatten).Nodup :=
  (order_preserved d hW fuel pages h).nodup (linesFrom_nodup d.root hU)

/-- **Every line without a fixed-height ancestor-or-self is shown** (every document), in order. -/
theorem free_lines_shown (d : Doc) (hW : WellFormed d.root) (fuel : Nat) (pages : List Page)
    (h : paginate d fuel = some pages) :
    (freeFrom d.root none).Sublist ((pages.map (fun p => fragLines p.root)).flatten) := by
  rw [← pagesLines_eq]
  unfold paginate at h
  have := makeAllPages_linesT d hW fuel 0 none _ _ pages (fun _ => by simp [requestedSide, isBlank]) h
  simpa using this.1 rfl

mutual
/-- The lines that have an ancestor-or-self box with a fixed `height`. -/
def fixedLines : PBox → List (Nat × Nat)
  | .para id n lh st => if fixedSt st then linesFrom (.para id n lh st) none else []
  | .block id st kids => if fixedSt st then linesFrom (.block id st kids) none else fixedLinesList kids
def fixedLinesList : List PBox → List (Nat × Nat)
  | [] => []
  | b :: bs => fixedLines b ++ fixedLinesList bs
end

mutual
private theorem free_or_fixed : (b : PBox) → ∀ l ∈ linesFrom b none, l ∈ freeFrom b none ∨ l ∈ fixedLines b
  | .para id n lh st => by
    intro l hl
    simp only [freeFrom, fixedLines]
    cases fixedSt st
    · left; simpa [linesFrom] using hl
    · right; simpa using hl
  | .block id st kids => by
    intro l hl
    simp only [freeFrom, fixedLines]
    cases fixedSt st
    · simp only [Bool.false_eq_true, ↓reduceIte, skipIdxOf_none, subSkipOf_none]
      simp only [linesFrom, skipIdxOf_none, subSkipOf_none] at hl
      exact free_or_fixed_list kids l hl
    · right; simpa using hl
private theorem free_or_fixed_list : (bs : List PBox) → ∀ l ∈ linesFromKids bs 0 none,
    l ∈ freeFromKids bs 0 none ∨ l ∈ fixedLinesList bs
  | [] => by intro l hl; simp [linesFromKids] at hl
  | b :: bs => by
    intro l hl
    simp only [linesFromKids, List.mem_append] at hl
    simp only [freeFromKids, fixedLinesList, List.mem_append]
    rcases hl with hl | hl
    · rcases free_or_fixed b l hl with h | h
      · left; left; exact h
      · right; left; exact h
    · rcases free_or_fixed_list bs l hl with h | h
      · left; right; exact h
      · right; right; exact h
end

/-- **Lines are lost only under a fixed height** (every document): a line of the document that no page shows
belongs to a box with a fixed `height` or to a descendant of one. -/
theorem lost_only_under_fixed_height (d : Doc) (hW : WellFormed d.root) (fuel : Nat) (pages : List Page)
    (h : paginate d fuel = some pages) :
    ∀ l ∈ linesFrom d.root none, l ∉ (pages.map (fun p => fragLines p.root)).flatten → l ∈ fixedLines d.root := by
  intro l hl hnot
  rcases free_or_fixed d.root l hl with hf | hf
  · exact absurd ((free_lines_shown d hW fuel pages h).subset hf) hnot
  · exact hf

/-- …and a box forgets its overflowing children **only when its content position has passed the bottom of its
fixed-height box** (`position_y > box.position_y + height + paddings + borders`, with the layout's fudge
factor): the only place where the layout drops a resume position. -/
theorem forgets_only_when_overflowing (st : PStyle) (b : BoxSt) (posY : Rat) (r : Resume)
    (h : forgetIfFixed st b posY (some r) = none) :
    ∃ ht, st.height = some ht ∧ overflows (b.y + (ht + b.pt + b.pb + b.bt + b.bb)) posY = true := by
  unfold forgetIfFixed at h
  split at h
  · rename_i ht hh
    split at h
    · rename_i ho; exact ⟨ht, hh, ho⟩
    · cases h
  · cases h

/-- Sanity: without fixed heights the sandwich closes and gives back `C01.pages_conserve`. -/
theorem pages_conserve_again (d : Doc) (hN : NoFixedHeight d.root) (hW : WellFormed d.root) (fuel : Nat)
    (pages : List Page) (h : paginate d fuel = some pages) :
    (pages.map (fun p => fragLines p.root)).flatten = linesFrom d.root none := by
  have h1 := order_preserved d hW fuel pages h
  have h2 := free_lines_shown d hW fuel pages h
  rw [freeFrom_noFixed d.root hN] at h2
  exact h1.eq_of_length_le h2.length_le

/-! Non-vacuity on a document that really loses lines: a 5-line paragraph with `height: 10px` (one line
high) on 25px pages keeps lines 0–1 and forgets lines 2–4; the next paragraph follows. -/
def lossDoc : Doc :=
  { pageH := 25, rootLtr := true,
    root := .block 0 { C01.exStyle with isRoot := true }
      [.para 1 5 10 { C01.exStyle with height := some 10 }, .para 2 3 10 C01.exStyle] }

example : WellFormed lossDoc.root ∧ UniqueParaIds lossDoc.root := by
  refine ⟨?_, ?_⟩
  · simp [lossDoc, WellFormed, WellFormedList, C01.exStyle]
  · simp [UniqueParaIds, lossDoc, paras, parasList]

example : (paginate lossDoc 20).map (fun ps => ps.map (fun p => fragLines p.root)) =
      some [[(1, 0), (1, 1), (2, 0)], [(2, 1), (2, 2)]] ∧
    freeFrom lossDoc.root none = [(2, 0), (2, 1), (2, 2)] ∧
    fixedLines lossDoc.root = [(1, 0), (1, 1), (1, 2), (1, 3), (1, 4)] :=
  ⟨by decide +kernel, by decide +kernel, by decide +kernel⟩

/-- `segment_all` / `forgets_only_when_overflowing` on the first page of `lossDoc`: the root returns a fragment
and a resume position inside the second paragraph; the fixed-height paragraph (content position 20, box
bottom 10) forgot its resume position. -/
example :
    let r := layoutBox { pageBottom := 25, currentPage := 1, forcedBreak := false } lossDoc.root 0 0 0 none false true []
    r.frag.map fragLines = some [(1, 0), (1, 1), (2, 0)] ∧ restOut lossDoc.root r.resume = [(2, 1), (2, 2)] ∧
    forgetIfFixed { C01.exStyle with height := some 10 } { y := 0, mt := 0, mb := 0, pt := 0, pb := 0, bt := 0, bb := 0 }
      20 (some (.node 0 (some (.line 2)))) = none :=
  ⟨by decide +kernel, by decide +kernel, by decide +kernel⟩

end Wp.C01Pm2
