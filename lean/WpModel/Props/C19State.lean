/-
C19 — state that outlives one call, part 2: the `DiskCache` a caller may pass instead of a dict.

  1 `DiskCache` refines `dict` for every sequence of stores in which bytes are never stored under a key that holds an
    object (`disk_refines_dict`); without that discipline it does not (`Witness.C19.diskcache_stale_object`).
  3 what `add_links` leaves on the boxes (`box.link_annotation`): a write tags exactly the boxes of its kept links with
    annotations of its own PDF — when it starts from boxes no earlier write touched, or when none of its links is
    dropped (`write_tags_current_partial`); the same page list written twice tags the same boxes (`write_twice_same_boxes`).
    Full statement false: `Witness.C19.stale_annotation_after_full_write` (known finding `stale-link-annotation`).
  4 `RasterImage.get_x_object`: with ratio 1 the image object is not modified (`ratio_one_pure`); a thumbnail call
    replaces the stored data (`Witness.C19.thumbnail_replaces_source`, known finding `dpi-thumbnail-replaces-source`).
  2 `get_image_from_uri` keeps the discipline: image objects live under `f'{url} {orientation}'` keys, bytes under
    `LazyImage` data keys, and the two key families are disjoint (`C19.dataKey_ne_keyStr`); so everything proved about
    the dict model (`C19.cache_transparent`) holds when the cache is a `DiskCache` (`getImage_on_disk`).
-/
import WpModel.Model.DiskCache
import WpModel.Model.WriteState
import WpModel.Model.RenderState
import WpModel.Props.C19
import Mathlib.Tactic.SplitIfs

namespace Wp.C19
open Wp Wp.ImageCache Wp.DiskCache

/-- What a dict would answer: the object in memory if there is one, else the file. -/
def Refines (d : Disk) (c : Cache) : Prop :=
  ∀ k, lookup c k = (match lookup d.memory k with
    | some v => some v
    | none => lookup d.files k)

/-- `_memory_cache` never holds bytes and the folder only bytes (by construction of `__setitem__`). -/
def Sorted (d : Disk) : Prop :=
  (∀ k v, lookup d.memory k = some v → isBytes v = false) ∧ (∀ k v, lookup d.files k = some v → isBytes v = true)

theorem refines_empty : Refines DiskCache.empty [] ∧ Sorted DiskCache.empty := by
  refine ⟨fun k => by simp [DiskCache.empty, lookup], ?_, ?_⟩ <;> intro k v h <;> simp [DiskCache.empty, lookup] at h

private theorem lookup_insert (c : Cache) (k k' : String) (v : Entry) :
    lookup (ImageCache.insert c k v) k' = if k = k' then some v else lookup c k' := by
  by_cases h : k = k'
  · subst h; simp [lookup_insert_same]
  · simp [h, lookup_insert_ne c k k' v h]

/-- One store.  Storing bytes under a key that holds an object in memory is the only way to part from a dict. -/
theorem setItem_refines (d : Disk) (c : Cache) (k : String) (v : Entry) (h : Refines d c)
    (hk : isBytes v = true → lookup d.memory k = none) :
    Refines (setItem d k v) (ImageCache.insert c k v) := by
  intro k'
  rw [lookup_insert]
  unfold setItem
  cases hb : isBytes v with
  | true =>
    simp only [if_true]
    rw [lookup_insert]
    by_cases e : k = k'
    · subst e; simp [hk hb]
    · simp only [e, if_false]; exact h k'
  | false =>
    simp only [Bool.false_eq_true, if_false]
    rw [lookup_insert]
    by_cases e : k = k'
    · subst e; simp
    · simp only [e, if_false]; exact h k'

theorem setItem_sorted (d : Disk) (k : String) (v : Entry) (h : Sorted d) : Sorted (setItem d k v) := by
  unfold setItem
  cases hb : isBytes v with
  | true =>
    refine ⟨h.1, ?_⟩
    intro k' v' hl
    simp only [if_true] at hl
    rw [lookup_insert] at hl
    by_cases e : k = k'
    · simp only [e, if_true, Option.some.injEq] at hl; subst hl; exact hb
    · simp only [e, if_false] at hl; exact h.2 k' v' hl
  | false =>
    refine ⟨?_, h.2⟩
    intro k' v' hl
    simp only [Bool.false_eq_true, if_false] at hl
    rw [lookup_insert] at hl
    by_cases e : k = k'
    · simp only [e, if_true, Option.some.injEq] at hl; subst hl; exact hb
    · simp only [e, if_false] at hl; exact h.1 k' v' hl

/-- Reads and membership tests answer as the dict does (a missing key is an exception in both). -/
theorem getItem_refines (d : Disk) (c : Cache) (h : Refines d c) (k : String) :
    (getItem d k).toOption = (dictGet c k).toOption ∧ DiskCache.contains d k = (lookup c k).isSome := by
  have hk := h k
  unfold getItem dictGet DiskCache.contains
  cases hm : lookup d.memory k with
  | some v => simp [hm] at hk; simp [hk, Except.toOption]
  | none =>
    simp only [hm] at hk
    cases hf : lookup d.files k with
    | some v => simp [hf] at hk; simp [hk, Except.toOption]
    | none => simp [hf] at hk; simp [hk, Except.toOption]

/-- A list of stores on both representations. -/
def storeAll (d : Disk) (l : List (String × Entry)) : Disk := l.foldl (fun d e => setItem d e.1 e.2) d
def insertAll (c : Cache) (l : List (String × Entry)) : Cache := l.foldl (fun c e => ImageCache.insert c e.1 e.2) c

/-- The two key families of the image cache. -/
def WellKinded (k : String) (v : Entry) : Prop :=
  (isBytes v = true → ∃ id dpi, k = dataKey id dpi) ∧ (isBytes v = false → ∃ u o, k = keyStr u o)

/-- Every entry of a cache sits under a key of its own family. -/
def CacheWellKinded (c : Cache) : Prop := ∀ k v, lookup c k = some v → WellKinded k v

/-- **disk_refines_dict**: for every sequence of stores that respects the two key families, a `DiskCache` that
agreed with a dict before still agrees after — reads, membership and all.  (Unbounded: any cache, any list.) -/
theorem disk_refines_dict (l : List (String × Entry)) (d : Disk) (c : Cache) (h : Refines d c) (hs : Sorted d)
    (hc : CacheWellKinded c) (hl : ∀ e ∈ l, WellKinded e.1 e.2) :
    Refines (storeAll d l) (insertAll c l) ∧ Sorted (storeAll d l) ∧ CacheWellKinded (insertAll c l) := by
  induction l generalizing d c with
  | nil => exact ⟨h, hs, hc⟩
  | cons e rest ih =>
    obtain ⟨k, v⟩ := e
    have hkv : WellKinded k v := hl (k, v) (by simp)
    have hk : isBytes v = true → lookup d.memory k = none := by
      intro hb
      cases hm : lookup d.memory k with
      | none => rfl
      | some w =>
        exfalso
        have hw : isBytes w = false := hs.1 k w hm
        have hcw : lookup c k = some w := by rw [h k, hm]
        obtain ⟨u, o, e1⟩ := (hc k w hcw).2 hw
        obtain ⟨id, dpi, e2⟩ := hkv.1 hb
        exact dataKey_ne_keyStr id dpi u o (e2.symm.trans e1)
    have hc' : CacheWellKinded (ImageCache.insert c k v) := by
      intro k' v' hl'
      rw [lookup_insert] at hl'
      by_cases e : k = k'
      · simp only [e, if_true, Option.some.injEq] at hl'; subst hl'; subst e; exact hkv
      · simp only [e, if_false] at hl'; exact hc k' v' hl'
    simp only [storeAll, insertAll, List.foldl_cons]
    exact ih (setItem d k v) (ImageCache.insert c k v) (setItem_refines d c k v h hk) (setItem_sorted d k v hs) hc'
      (fun e he => hl e (by simp [he]))

private theorem decode_cache (opts : Opts) (c : Cache) (url key forced : String) (mime file : Option String)
    (blob : Blob) (o : Orientation) :
    (decode opts c url key forced mime file blob o).2 = c ∨
      ∃ p, (decode opts c url key forced mime file blob o).2 =
        ImageCache.insert c (dataKey (imageId key) opts.dpi) (.bytes p) := by
  unfold decode
  cases hr : blob.raster with
  | none => simp only []; split_ifs <;> exact Or.inl rfl
  | some r =>
    simp only []
    split_ifs <;> first | exact Or.inl rfl | exact (makeRaster_value opts c key blob r file o).2

/-- The stores of one `get_image_from_uri` call: at most one bytes entry under a data key, then the image under its
`f'{url} {orientation}'` key — each in its own key family. -/
theorem getImage_stores (f : Fetcher) (opts : Opts) (c : Cache) (url forced : String) (o : Orientation) :
    ∃ l, (getImage f opts c url forced o).cache = insertAll c l ∧ ∀ e ∈ l, WellKinded e.1 e.2 := by
  have himg : ∀ i : Option Img, WellKinded (keyStr url o) (.image i) :=
    fun i => ⟨fun h => (by cases h), fun _ => ⟨url, o, rfl⟩⟩
  cases hl : lookup c (keyStr url o) with
  | some e => exact ⟨[], by simp [getImage, hl, insertAll], by simp⟩
  | none =>
    cases hf : f url with
    | raises =>
      exact ⟨[(keyStr url o, .image none)], by simp [getImage, hl, hf, insertAll], by
        intro e he; simp only [List.mem_singleton] at he; subst he; exact himg none⟩
    | malformed => exact ⟨[], by simp [getImage, hl, hf, insertAll], by simp⟩
    | ok mime file blob =>
      rcases decode_cache opts c url (keyStr url o) forced mime file blob o with hd | ⟨p, hd⟩
      · refine ⟨[(keyStr url o, .image (decode opts c url (keyStr url o) forced mime file blob o).1)], ?_, ?_⟩
        · simp [getImage, hl, hf, insertAll, hd]
        · intro e he; simp only [List.mem_singleton] at he; subst he; exact himg _
      · refine ⟨[(dataKey (imageId (keyStr url o)) opts.dpi, .bytes p),
          (keyStr url o, .image (decode opts c url (keyStr url o) forced mime file blob o).1)], ?_, ?_⟩
        · simp [getImage, hl, hf, insertAll, hd]
        · intro e he
          simp only [List.mem_cons, List.not_mem_nil, or_false] at he
          rcases he with he | he <;> subst he
          · exact ⟨fun _ => ⟨_, _, rfl⟩, fun h => (by cases h)⟩
          · exact himg _

/-- **getImage_on_disk**: when `options['cache']` is a `DiskCache` that agrees with a dict, it still agrees after any
`get_image_from_uri` call, whatever the fetcher, the options and the request: the call's stores respect the key
families, so `disk_refines_dict` applies.  With `C19.cache_transparent` (stated on the dict model): a warm `DiskCache`
returns the cold values too. -/
theorem getImage_on_disk (f : Fetcher) (opts : Opts) (d : Disk) (c : Cache) (h : Refines d c) (hs : Sorted d)
    (hc : CacheWellKinded c) (url forced : String) (o : Orientation) :
    ∃ l, (getImage f opts c url forced o).cache = insertAll c l ∧
      Refines (storeAll d l) (getImage f opts c url forced o).cache ∧ Sorted (storeAll d l) ∧
      CacheWellKinded (getImage f opts c url forced o).cache := by
  obtain ⟨l, h1, h2⟩ := getImage_stores f opts c url forced o
  obtain ⟨r1, r2, r3⟩ := disk_refines_dict l d c h hs hc h2
  exact ⟨l, h1, h1 ▸ r1, r2, h1 ▸ r3⟩

/-- The same for a whole history of calls from an empty `DiskCache`: after every call the folder and the memory part
together answer as the dict of the model does. -/
theorem history_on_disk (f : Fetcher) (opts : Opts) (calls : List Call) (d : Disk) (c : Cache) (h : Refines d c)
    (hs : Sorted d) (hc : CacheWellKinded c) :
    ∀ r ∈ runCalls f opts c calls, ∃ d', Refines d' r.cache ∧ Sorted d' := by
  induction calls generalizing d c with
  | nil => intro r hr; simp [runCalls] at hr
  | cons call rest ih =>
    obtain ⟨l, _, r1, r2, r3⟩ := getImage_on_disk f opts d c h hs hc call.url call.forced call.orientation
    intro r hr
    simp only [runCalls, List.mem_cons] at hr
    rcases hr with hr | hr
    · subst hr; exact ⟨_, r1, r2⟩
    · exact ih _ _ r1 r2 r3 r hr

example : Refines (storeAll DiskCache.empty [("u none", .image none), (dataKey "i" none, .bytes (.orig 1))])
    (insertAll [] [("u none", .image none), (dataKey "i" none, .bytes (.orig 1))]) :=
  (disk_refines_dict _ _ _ refines_empty.1 refines_empty.2 (by intro k v h; simp [lookup] at h) (by
    intro e he
    simp only [List.mem_cons, List.not_mem_nil, or_false] at he
    rcases he with he | he <;> subst he
    · exact ⟨fun h => (by cases h), fun _ => ⟨"u", .none, rfl⟩⟩
    · exact ⟨fun _ => ⟨"i", none, rfl⟩, fun h => (by cases h)⟩)).1

/-! ## 3 link annotations left on the boxes -/
section links
open Wp.WriteState Wp.CopyPages

theorem annotOf_setAnnot (st : Annots) (box pdf b : Nat) :
    annotOf (setAnnot st box pdf) b = if box = b then some pdf else annotOf st b := by
  induction st with
  | nil => by_cases h : box = b <;> simp [setAnnot, annotOf, h]
  | cons e rest ih =>
    obtain ⟨b', p'⟩ := e
    by_cases h1 : b' = box
    · subst h1
      by_cases h2 : b' = b <;> simp [setAnnot, annotOf, h2]
    · by_cases h2 : box = b
      · subst h2; simp [setAnnot, annotOf, h1, ih]
      · by_cases h3 : b' = b
        · subst h3; simp [setAnnot, annotOf, h1, h2]
        · simp [setAnnot, annotOf, h1, h2, h3, ih]

/-- A link that `add_links` annotates: kept by `resolve_links` and not an attachment. -/
def annotated (names : List String) (l : BoxLink) : Bool := kept names l && decide (l.kind ≠ .attachment)

/-- After `add_links`, a box holds an annotation of the current PDF if one of its links is annotated now, and
otherwise exactly what it held before. -/
theorem annotOf_addLinks (pdf : Nat) (names : List String) (links : List BoxLink) (st : Annots) (b : Nat) :
    annotOf (addLinks pdf names st links) b =
      if ∃ l ∈ links, l.box = b ∧ annotated names l = true then some pdf else annotOf st b := by
  induction links generalizing st with
  | nil => simp [addLinks]
  | cons l rest ih =>
    by_cases ha : annotated names l = true
    · have ha' : (kept names l && decide (l.kind ≠ .attachment)) = true := ha
      simp only [addLinks, ha', if_true]
      rw [ih, annotOf_setAnnot]
      by_cases hr : ∃ l' ∈ rest, l'.box = b ∧ annotated names l' = true
      · have : ∃ l' ∈ l :: rest, l'.box = b ∧ annotated names l' = true := by
          obtain ⟨l', h1, h2⟩ := hr; exact ⟨l', by simp [h1], h2⟩
        rw [if_pos hr, if_pos this]
      · by_cases hb : l.box = b
        · have : ∃ l' ∈ l :: rest, l'.box = b ∧ annotated names l' = true := ⟨l, by simp, hb, ha⟩
          rw [if_neg hr, if_pos hb, if_pos this]
        · have : ¬ ∃ l' ∈ l :: rest, l'.box = b ∧ annotated names l' = true := by
            rintro ⟨l', h1, h2, h3⟩
            simp only [List.mem_cons] at h1
            rcases h1 with h1 | h1
            · subst h1; exact hb h2
            · exact hr ⟨l', h1, h2, h3⟩
          rw [if_neg hr, if_neg hb, if_neg this]
    · have ha' : (kept names l && decide (l.kind ≠ .attachment)) = false := by
        simpa [annotated] using ha
      simp only [addLinks, ha', Bool.false_eq_true, if_false]
      rw [ih]
      have : (∃ l' ∈ l :: rest, l'.box = b ∧ annotated names l' = true) ↔
          (∃ l' ∈ rest, l'.box = b ∧ annotated names l' = true) := by
        constructor
        · rintro ⟨l', h1, h2, h3⟩
          simp only [List.mem_cons] at h1
          rcases h1 with h1 | h1
          · subst h1; exact absurd h3 ha
          · exact ⟨l', h1, h2, h3⟩
        · rintro ⟨l', h1, h2⟩; exact ⟨l', by simp [h1], h2⟩
      simp only [this]

/-- Every `Link` tag of a write refers either to an annotation of the PDF being written, or to what an earlier write
left on a box none of whose links is annotated now. -/
theorem write_tags (pdf : Nat) (names : List String) (links : List BoxLink) (st : Annots) :
    ∀ t ∈ (write pdf names links st).1,
      t.2 = pdf ∨ (annotOf st t.1 = some t.2 ∧ ¬ ∃ l ∈ links, l.box = t.1 ∧ annotated names l = true) := by
  intro t ht
  simp only [write, tagged, List.mem_filterMap] at ht
  obtain ⟨l, _, hl⟩ := ht
  rw [annotOf_addLinks] at hl
  by_cases h : ∃ l' ∈ links, l'.box = l.box ∧ annotated names l' = true
  · simp only [h, if_true, Option.map_some, Option.some.injEq] at hl
    subst hl; exact Or.inl rfl
  · simp only [h, if_false] at hl
    cases ha : annotOf st l.box with
    | none => simp [ha] at hl
    | some p =>
      simp only [ha, Option.map_some, Option.some.injEq] at hl
      subst hl
      exact Or.inr ⟨ha, h⟩

/-- **write_tags_current**.  Full statement (false, `Witness.C19.stale_annotation_after_full_write`): every tag of a
write refers to the PDF being written, whatever was written before.  Proved when no earlier write touched the boxes,
or when every link of the page list is annotated now (nothing is dropped). -/
theorem write_tags_current_partial (pdf : Nat) (names : List String) (links : List BoxLink) (st : Annots)
    (h : st = [] ∨ ∀ l ∈ links, annotated names l = true) :
    ∀ t ∈ (write pdf names links st).1, t.2 = pdf := by
  intro t ht
  rcases write_tags pdf names links st t ht with h1 | ⟨h1, h2⟩
  · exact h1
  · rcases h with h | h
    · subst h; simp [annotOf] at h1
    · exfalso
      simp only [write, tagged, List.mem_filterMap] at ht
      obtain ⟨l, hl, hl2⟩ := ht
      have hb : l.box = t.1 := by
        cases ha : annotOf (addLinks pdf names st links) l.box with
        | none => simp [ha] at hl2
        | some p => simp only [ha, Option.map_some, Option.some.injEq] at hl2; rw [← hl2]
      exact h2 ⟨l, hl, hb, h l hl⟩

/-- The same page list written twice (the same `Document`, `write_pdf` called again) tags the same boxes; the second
time all annotated ones refer to the second PDF. -/
theorem write_twice_same_boxes (p1 p2 : Nat) (names : List String) (links : List BoxLink) (st : Annots) :
    ((write p2 names links (write p1 names links st).2).1).map (·.1) = ((write p1 names links st).1).map (·.1) := by
  simp only [write, tagged, List.map_filterMap]
  apply List.filterMap_congr
  intro l hl
  rw [annotOf_addLinks, annotOf_addLinks]
  by_cases h : ∃ l' ∈ links, l'.box = l.box ∧ annotated names l' = true
  · simp [h]
  · simp only [h, if_false]

example : (write 1 ["a"] [⟨1, .internal, "a"⟩, ⟨2, .external, "u"⟩] []).1 = [(1, 1), (2, 1)] := by decide

end links

/-! ## 4 raster image data across `get_x_object` calls -/
section raster
open Wp.WriteState

/-- With `dpi_ratio == 1` the image object is not modified and what is embedded has the declared size of the stored
data as long as no thumbnail was ever computed. -/
theorem ratio_one_pure (r : WriteState.Raster) : (getXObject r none).2 = r ∧ (getXObject r none).1.data = r.data := ⟨rfl, rfl⟩

/-- Any number of ratio-1 uses of a fresh image embed the original data at the original size: without the `dpi`
option writing is repeatable for images. -/
theorem fresh_ratio_one_repeatable (w h : Nat) (n : Nat) :
    getXObjects (fresh w h) (List.replicate n none) = List.replicate n ⟨w, h, ⟨0, w, h⟩⟩ := by
  induction n with
  | zero => rfl
  | succ n ih => simp only [List.replicate_succ, getXObjects, getXObject]; exact congrArg _ ih

/-- Every thumbnail call stores a new generation of data: the number of re-encodings the embedded data went through
is the number of thumbnail calls so far — it depends on the history of the object, not on the call. -/
theorem thumbnail_generation (r : WriteState.Raster) (t : Nat × Nat) :
    (getXObject r (some t)).2.data.generation = r.data.generation + 1 ∧
    (getXObject r (some t)).1.data.generation = r.data.generation + 1 := ⟨rfl, rfl⟩

end raster

/-! ## 5 a render does not depend on how many renders came before -/
section shift
open Wp.RenderState

/-- Renaming of identities: everything created from `n` on is moved up by `k`; the caller's objects (below `n`) stay. -/
def sh (n k id : Nat) : Nat := if n ≤ id then id + k else id

def shEv (n k : Nat) : Ev → Ev
  | .alloc kd id => .alloc kd (sh n k id)
  | .readGlobal g => .readGlobal g
  | .writeObj id => .writeObj (sh n k id)
  | .writeFont id => .writeFont (sh n k id)

def shOut (n k : Nat) (o : RenderOut) : RenderOut :=
  { events := o.events.map (shEv n k), next := o.next + k, fontConfig := sh n k o.fontConfig,
    counterStyle := sh n k o.counterStyle, cache := sh n k o.cache, targetCollector := sh n k o.targetCollector,
    styleFor := sh n k o.styleFor, context := sh n k o.context, userSheets := o.userSheets.map (sh n k),
    document := sh n k o.document }

private theorem sh_ge {n k x : Nat} (h : n ≤ x) : sh n k x = x + k := by simp [sh, h]
private theorem sh_lt {n k x : Nat} (h : x < n) : sh n k x = x := by
  have : ¬ n ≤ x := by omega
  simp [sh, this]

private theorem orNew_shift (n k : Nat) (kd : Kind) (b : Nat) (o : Option Nat) (hb : n ≤ b)
    (ho : ∀ id ∈ o, id < n) :
    orNew kd (b + k) o = ((orNew kd b o).1.map (shEv n k), sh n k (orNew kd b o).2.1, (orNew kd b o).2.2 + k) ∧
    b ≤ (orNew kd b o).2.2 := by
  cases o with
  | some id => simp [orNew, sh_lt (ho id rfl)]
  | none => simp [orNew, shEv, sh_ge hb]; omega

private theorem cacheStep_shift (n k b : Nat) (c : CacheOpt) (hb : n ≤ b)
    (hc : ∀ id, (c = .dict id ∨ c = .diskCache id) → id < n) :
    cacheStep (b + k) c = ((cacheStep b c).1.map (shEv n k), sh n k (cacheStep b c).2.1, (cacheStep b c).2.2 + k) ∧
    b ≤ (cacheStep b c).2.2 := by
  cases c with
  | none => simp [cacheStep, shEv, sh_ge hb]; omega
  | dict id => simp [cacheStep, sh_lt (hc id (Or.inl rfl))]
  | diskCache id => simp [cacheStep, sh_lt (hc id (Or.inr rfl))]
  | folder => simp [cacheStep, shEv, sh_ge hb]; omega

private theorem userSheets_shift (n k : Nat) (ss : List Sheet) (b : Nat) (hb : n ≤ b)
    (hs : ∀ id, Sheet.css id ∈ ss → id < n) :
    userSheets (b + k) ss =
      ((userSheets b ss).1.map (shEv n k), (userSheets b ss).2.1.map (sh n k), (userSheets b ss).2.2 + k) ∧
    b ≤ (userSheets b ss).2.2 := by
  induction ss generalizing b with
  | nil => simp [userSheets]
  | cons s rest ih =>
    cases s with
    | css id =>
      obtain ⟨h1, h2⟩ := ih b hb (fun id' h => hs id' (by simp [h]))
      simp only [userSheets, h1, List.map_cons, sh_lt (hs id (by simp))]
      exact ⟨trivial, h2⟩
    | raw =>
      obtain ⟨h1, h2⟩ := ih (b + 1) (by omega) (fun id' h => hs id' (by simp [h]))
      have e : b + k + 1 = b + 1 + k := by omega
      simp only [userSheets, e, h1, List.map_cons, shEv, sh_ge hb]
      exact ⟨trivial, by omega⟩

/-- **render_history_independent**: the outcome of a render — its events, and every object its `LayoutContext` and
`Document` hold — is the same whatever the number of objects created before it (i.e. whatever renders preceded it in
the process), up to the renaming of the identities it creates itself; the caller's objects are not renamed. -/
theorem render_history_independent (n k : Nat) (i : RenderIn) (hc : ∀ id ∈ callerObjects i, id < n) :
    render (n + k) i = shOut n k (render n i) := by
  have hf : ∀ id ∈ i.fontConfig, id < n := by
    intro id h; exact hc id (by simp [callerObjects, Option.mem_def.mp h])
  have hcs : ∀ id ∈ i.counterStyle, id < n := by
    intro id h; exact hc id (by simp [callerObjects, Option.mem_def.mp h])
  have hk : ∀ id, (i.cache = .dict id ∨ i.cache = .diskCache id) → id < n := by
    intro id h; apply hc id
    rcases h with h | h <;> simp [callerObjects, h]
  have hs : ∀ id, Sheet.css id ∈ i.stylesheets.getD [] → id < n := by
    intro id h; apply hc id
    simp only [callerObjects, List.mem_append, List.mem_filterMap]
    exact Or.inr ⟨.css id, h, rfl⟩
  have e0 : n + k + 1 = n + 1 + k := by omega
  obtain ⟨f1, f2⟩ := orNew_shift n k .fontConfig (n + 1) i.fontConfig (by omega) hf
  obtain ⟨c1, c2⟩ := orNew_shift n k .counterStyle (orNew .fontConfig (n + 1) i.fontConfig).2.2 i.counterStyle
    (by omega) hcs
  have e1 : ∀ x : Nat, x + k + 2 = x + 2 + k := by intro x; omega
  obtain ⟨k1, k2⟩ := cacheStep_shift n k ((orNew .counterStyle (orNew .fontConfig (n + 1) i.fontConfig).2.2
    i.counterStyle).2.2 + 2) i.cache (by omega) hk
  obtain ⟨u1, u2⟩ := userSheets_shift n k (i.stylesheets.getD []) (cacheStep ((orNew .counterStyle
    (orNew .fontConfig (n + 1) i.fontConfig).2.2 i.counterStyle).2.2 + 2) i.cache).2.2 (by omega) hs
  have g1 : n ≤ (orNew .counterStyle (orNew .fontConfig (n + 1) i.fontConfig).2.2 i.counterStyle).2.2 := by omega
  have g2 : n ≤ (userSheets (cacheStep ((orNew .counterStyle (orNew .fontConfig (n + 1) i.fontConfig).2.2
    i.counterStyle).2.2 + 2) i.cache).2.2 (i.stylesheets.getD [])).2.2 := by omega
  have gn : n ≤ n := Nat.le_refl n
  unfold render shOut
  simp only [e0, f1, c1, e1, k1, u1]
  cases i.docFontFaces <;>
    simp [shEv, sh_ge gn, sh_ge g1, sh_ge g2, sh_ge (Nat.le_trans g1 (Nat.le_succ _)),
      sh_ge (show n ≤ _ + 1 from Nat.le_succ_of_le g2), sh_ge (show n ≤ _ + 2 from Nat.le_add_right_of_le g2),
      sh_ge (show n ≤ _ + 3 from Nat.le_add_right_of_le g2), sh_ge (show n ≤ _ + 4 from Nat.le_add_right_of_le g2),
      sh_ge (show n ≤ _ + 5 from Nat.le_add_right_of_le g2)] <;> omega

example : ∀ id ∈ callerObjects ⟨some 1, none, .dict 2, some [.css 3, .raw], true⟩, id < 1000 := by decide

end shift

end Wp.C19
