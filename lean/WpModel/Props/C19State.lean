/-
C19 — state that outlives one call, part 2: the `DiskCache` a caller may pass instead of a dict.

  1 `DiskCache` refines `dict` for every sequence of stores in which bytes are never stored under a key that holds an
    object (`disk_refines_dict`); without that discipline it does not (`Witness.C19.diskcache_stale_object`).
  3 what `add_links` leaves on the boxes (`box.link_annotation`): since 974ea74 `generate_pdf` resets the boxes of the
    page list first, so a write tags exactly the boxes of its kept links with annotations of its own PDF whatever was
    written before (`write_tags_current`, full strength; `write_history_independent`); the same page list written twice
    tags the same boxes (`write_twice_same_boxes`).  Known finding `stale-link-annotation`: fixed.
  4 `RasterImage.get_x_object`: with ratio 1 the image object is not modified (`ratio_one_pure`); a thumbnail call
    replaces the stored data (`Witness.C19.thumbnail_replaces_source`, known finding `dpi-thumbnail-replaces-source`).
  2 `get_image_from_uri` keeps the discipline: image objects live under `f'{url} {orientation} {options…}'` keys, bytes under
    `LazyImage` data keys, and the two key families are disjoint (`C19.dataKey_ne_keyStr`); so everything proved about
    the dict model (`C19.cache_transparent`) holds when the cache is a `DiskCache` (`getImage_on_disk`).
-/
import WpModel.Model.DiskCache
import WpModel.Model.WriteState
import WpModel.Model.RenderState
import WpModel.Props.C19
import Mathlib.Tactic.SplitIfs

namespace Wp.C19
open Wp Wp.ImageCache Wp.DiskCache

/-- What a dict would answer: the object in memory if there is one, else the file. -/
def Refines (d : Disk) (c : Cache) : Prop :=
  ∀ k, lookup c k = (match lookup d.memory k with
    | some v => some v
    | none => lookup d.files k)

/-- `_memory_cache` never holds bytes and the folder only bytes (by construction of `__setitem__`). -/
def Sorted (d : Disk) : Prop :=
  (∀ k v, lookup d.memory k = some v → isBytes v = false) ∧ (∀ k v, lookup d.files k = some v → isBytes v = true)

theorem refines_empty : Refines DiskCache.empty [] ∧ Sorted DiskCache.empty := by
  refine ⟨fun k => by simp [DiskCache.empty, lookup], ?_, ?_⟩ <;> intro k v h <;> simp [DiskCache.empty, lookup] at h

private theorem lookup_insert (c : Cache) (k k' : String) (v : Entry) :
    lookup (ImageCache.insert c k v) k' = if k = k' then some v else lookup c k' := by
  by_cases h : k = k'
  · subst h; simp [lookup_insert_same]
  · simp [h, lookup_insert_ne c k k' v h]

/-- One store.  Storing bytes under a key that holds an object in memory is the only way to part from a dict. -/
theorem setItem_refines (d : Disk) (c : Cache) (k : String) (v : Entry) (h : Refines d c)
    (hk : isBytes v = true → lookup d.memory k = none) :
    Refines (setItem d k v) (ImageCache.insert c k v) := by
  intro k'
  rw [lookup_insert]
  unfold setItem
  cases hb : isBytes v with
  | true =>
    simp only [if_true]
    rw [lookup_insert]
    by_cases e : k = k'
    · subst e; simp [hk hb]
    · simp only [e, if_false]; exact h k'
  | false =>
    simp only [Bool.false_eq_true, if_false]
    rw [lookup_insert]
    by_cases e : k = k'
    · subst e; simp
    · simp only [e, if_false]; exact h k'

theorem setItem_sorted (d : Disk) (k : String) (v : Entry) (h : Sorted d) : Sorted (setItem d k v) := by
  unfold setItem
  cases hb : isBytes v with
  | true =>
    refine ⟨h.1, ?_⟩
    intro k' v' hl
    simp only [if_true] at hl
    rw [lookup_insert] at hl
    by_cases e : k = k'
    · simp only [e, if_true, Option.some.injEq] at hl; subst hl; exact hb
    · simp only [e, if_false] at hl; exact h.2 k' v' hl
  | false =>
    refine ⟨?_, h.2⟩
    intro k' v' hl
    simp only [Bool.false_eq_true, if_false] at hl
    rw [lookup_insert] at hl
    by_cases e : k = k'
    · simp only [e, if_true, Option.some.injEq] at hl; subst hl; exact hb
    · simp only [e, if_false] at hl; exact h.1 k' v' hl

/-- Reads and membership tests answer as the dict does (a missing key is an exception in both). -/
theorem getItem_refines (d : Disk) (c : Cache) (h : Refines d c) (k : String) :
    (getItem d k).toOption = (dictGet c k).toOption ∧ DiskCache.contains d k = (lookup c k).isSome := by
  have hk := h k
  unfold getItem dictGet DiskCache.contains
  cases hm : lookup d.memory k with
  | some v => simp [hm] at hk; simp [hk, Except.toOption]
  | none =>
    simp only [hm] at hk
    cases hf : lookup d.files k with
    | some v => simp [hf] at hk; simp [hk, Except.toOption]
    | none => simp [hf] at hk; simp [hk, Except.toOption]

/-- A list of stores on both representations. -/
def storeAll (d : Disk) (l : List (String × Entry)) : Disk := l.foldl (fun d e => setItem d e.1 e.2) d
def insertAll (c : Cache) (l : List (String × Entry)) : Cache := l.foldl (fun c e => ImageCache.insert c e.1 e.2) c

/-- The two key families of the image cache. -/
def WellKinded (k : String) (v : Entry) : Prop :=
  (isBytes v = true → ∃ id dpi, k = dataKey id dpi) ∧ (isBytes v = false → ∃ u o p, k = keyStr u o p)

/-- Every entry of a cache sits under a key of its own family. -/
def CacheWellKinded (c : Cache) : Prop := ∀ k v, lookup c k = some v → WellKinded k v

/-- **disk_refines_dict**: for every sequence of stores that respects the two key families, a `DiskCache` that
agreed with a dict before still agrees after — reads, membership and all.  (Unbounded: any cache, any list.) -/
theorem disk_refines_dict (l : List (String × Entry)) (d : Disk) (c : Cache) (h : Refines d c) (hs : Sorted d)
    (hc : CacheWellKinded c) (hl : ∀ e ∈ l, WellKinded e.1 e.2) :
    Refines (storeAll d l) (insertAll c l) ∧ Sorted (storeAll d l) ∧ CacheWellKinded (insertAll c l) := by
  induction l generalizing d c with
  | nil => exact ⟨h, hs, hc⟩
  | cons e rest ih =>
    obtain ⟨k, v⟩ := e
    have hkv : WellKinded k v := hl (k, v) (by simp)
    have hk : isBytes v = true → lookup d.memory k = none := by
      intro hb
      cases hm : lookup d.memory k with
      | none => rfl
      | some w =>
        exfalso
        have hw : isBytes w = false := hs.1 k w hm
        have hcw : lookup c k = some w := by rw [h k, hm]
        obtain ⟨u, o, p, e1⟩ := (hc k w hcw).2 hw
        obtain ⟨id, dpi, e2⟩ := hkv.1 hb
        exact dataKey_ne_keyStr id dpi u o p (e2.symm.trans e1)
    have hc' : CacheWellKinded (ImageCache.insert c k v) := by
      intro k' v' hl'
      rw [lookup_insert] at hl'
      by_cases e : k = k'
      · simp only [e, if_true, Option.some.injEq] at hl'; subst hl'; subst e; exact hkv
      · simp only [e, if_false] at hl'; exact hc k' v' hl'
    simp only [storeAll, insertAll, List.foldl_cons]
    exact ih (setItem d k v) (ImageCache.insert c k v) (setItem_refines d c k v h hk) (setItem_sorted d k v hs) hc'
      (fun e he => hl e (by simp [he]))

private theorem decode_cache (opts : Opts) (c : Cache) (url key forced : String) (mime file : Option String)
    (blob : Blob) (o : Orientation) :
    (decode opts c url key forced mime file blob o).2 = c ∨
      ∃ p, (decode opts c url key forced mime file blob o).2 =
        ImageCache.insert c (dataKey (imageId key) opts.dpi) (.bytes p) := by
  unfold decode
  cases hr : blob.raster with
  | none => simp only []; split_ifs <;> exact Or.inl rfl
  | some r =>
    simp only []
    split_ifs <;> first | exact Or.inl rfl | exact (makeRaster_value opts c key blob r file o).2

/-- The stores of one `get_image_from_uri` call: at most one bytes entry under a data key, then the image under its
`f'{url} {orientation} {options…}'` key — each in its own key family. -/
theorem getImage_stores (f : Fetcher) (opts : Opts) (c : Cache) (url forced : String) (o : Orientation) :
    ∃ l, (getImage f opts c url forced o).cache = insertAll c l ∧ ∀ e ∈ l, WellKinded e.1 e.2 := by
  have himg : ∀ i : Option Img, WellKinded (keyStr url o opts) (.image i) :=
    fun i => ⟨fun h => (by cases h), fun _ => ⟨url, o, opts, rfl⟩⟩
  cases hl : lookup c (keyStr url o opts) with
  | some e => exact ⟨[], by simp [getImage, hl, insertAll], by simp⟩
  | none =>
    cases hf : f url with
    | raises =>
      exact ⟨[(keyStr url o opts, .image none)], by simp [getImage, hl, hf, insertAll], by
        intro e he; simp only [List.mem_singleton] at he; subst he; exact himg none⟩
    | malformed => exact ⟨[], by simp [getImage, hl, hf, insertAll], by simp⟩
    | ok mime file blob =>
      rcases decode_cache opts c url (keyStr url o opts) forced mime file blob o with hd | ⟨p, hd⟩
      · refine ⟨[(keyStr url o opts, .image (decode opts c url (keyStr url o opts) forced mime file blob o).1)], ?_, ?_⟩
        · simp [getImage, hl, hf, insertAll, hd]
        · intro e he; simp only [List.mem_singleton] at he; subst he; exact himg _
      · refine ⟨[(dataKey (imageId (keyStr url o opts)) opts.dpi, .bytes p),
          (keyStr url o opts, .image (decode opts c url (keyStr url o opts) forced mime file blob o).1)], ?_, ?_⟩
        · simp [getImage, hl, hf, insertAll, hd]
        · intro e he
          simp only [List.mem_cons, List.not_mem_nil, or_false] at he
          rcases he with he | he <;> subst he
          · exact ⟨fun _ => ⟨_, _, rfl⟩, fun h => (by cases h)⟩
          · exact himg _

/-- **getImage_on_disk**: when `options['cache']` is a `DiskCache` that agrees with a dict, it still agrees after any
`get_image_from_uri` call, whatever the fetcher, the options and the request: the call's stores respect the key
families, so `disk_refines_dict` applies.  With `C19.cache_transparent` (stated on the dict model): a warm `DiskCache`
returns the cold values too. -/
theorem getImage_on_disk (f : Fetcher) (opts : Opts) (d : Disk) (c : Cache) (h : Refines d c) (hs : Sorted d)
    (hc : CacheWellKinded c) (url forced : String) (o : Orientation) :
    ∃ l, (getImage f opts c url forced o).cache = insertAll c l ∧
      Refines (storeAll d l) (getImage f opts c url forced o).cache ∧ Sorted (storeAll d l) ∧
      CacheWellKinded (getImage f opts c url forced o).cache := by
  obtain ⟨l, h1, h2⟩ := getImage_stores f opts c url forced o
  obtain ⟨r1, r2, r3⟩ := disk_refines_dict l d c h hs hc h2
  exact ⟨l, h1, h1 ▸ r1, r2, h1 ▸ r3⟩

/-- The same for a whole history of calls from an empty `DiskCache`: after every call the folder and the memory part
together answer as the dict of the model does. -/
theorem history_on_disk (f : Fetcher) (calls : List Call) (d : Disk) (c : Cache) (h : Refines d c)
    (hs : Sorted d) (hc : CacheWellKinded c) :
    ∀ r ∈ runCalls f c calls, ∃ d', Refines d' r.cache ∧ Sorted d' := by
  induction calls generalizing d c with
  | nil => intro r hr; simp [runCalls] at hr
  | cons call rest ih =>
    obtain ⟨l, _, r1, r2, r3⟩ := getImage_on_disk f call.opts d c h hs hc call.url call.forced call.orientation
    intro r hr
    simp only [runCalls, List.mem_cons] at hr
    rcases hr with hr | hr
    · subst hr; exact ⟨_, r1, r2⟩
    · exact ih _ _ r1 r2 r3 r hr

example : Refines (storeAll DiskCache.empty [(keyStr "u" .none ⟨false, none, none⟩, .image none),
      (dataKey "i" none, .bytes (.orig 1))])
    (insertAll [] [(keyStr "u" .none ⟨false, none, none⟩, .image none), (dataKey "i" none, .bytes (.orig 1))]) :=
  (disk_refines_dict _ _ _ refines_empty.1 refines_empty.2 (by intro k v h; simp [lookup] at h) (by
    intro e he
    simp only [List.mem_cons, List.not_mem_nil, or_false] at he
    rcases he with he | he <;> subst he
    · exact ⟨fun h => (by cases h), fun _ => ⟨"u", .none, ⟨false, none, none⟩, rfl⟩⟩
    · exact ⟨fun _ => ⟨"i", none, rfl⟩, fun h => (by cases h)⟩)).1

/-! ## 3 link annotations left on the boxes -/
section links
open Wp.WriteState Wp.CopyPages

theorem annotOf_setAnnot (st : Annots) (box pdf b : Nat) :
    annotOf (setAnnot st box pdf) b = if box = b then some pdf else annotOf st b := by
  induction st with
  | nil => by_cases h : box = b <;> simp [setAnnot, annotOf, h]
  | cons e rest ih =>
    obtain ⟨b', p'⟩ := e
    by_cases h1 : b' = box
    · subst h1
      by_cases h2 : b' = b <;> simp [setAnnot, annotOf, h2]
    · by_cases h2 : box = b
      · subst h2; simp [setAnnot, annotOf, h1, ih]
      · by_cases h3 : b' = b
        · subst h3; simp [setAnnot, annotOf, h1, h2]
        · simp [setAnnot, annotOf, h1, h2, h3, ih]

/-- A link that `add_links` annotates: kept by `resolve_links` and not an attachment. -/
def annotated (names : List String) (l : BoxLink) : Bool := kept names l && decide (l.kind ≠ .attachment)

/-- After `add_links`, a box holds an annotation of the current PDF if one of its links is annotated now, and
otherwise exactly what it held before. -/
theorem annotOf_addLinks (pdf : Nat) (names : List String) (links : List BoxLink) (st : Annots) (b : Nat) :
    annotOf (addLinks pdf names st links) b =
      if ∃ l ∈ links, l.box = b ∧ annotated names l = true then some pdf else annotOf st b := by
  induction links generalizing st with
  | nil => simp [addLinks]
  | cons l rest ih =>
    by_cases ha : annotated names l = true
    · have ha' : (kept names l && decide (l.kind ≠ .attachment)) = true := ha
      simp only [addLinks, ha', if_true]
      rw [ih, annotOf_setAnnot]
      by_cases hr : ∃ l' ∈ rest, l'.box = b ∧ annotated names l' = true
      · have : ∃ l' ∈ l :: rest, l'.box = b ∧ annotated names l' = true := by
          obtain ⟨l', h1, h2⟩ := hr; exact ⟨l', by simp [h1], h2⟩
        rw [if_pos hr, if_pos this]
      · by_cases hb : l.box = b
        · have : ∃ l' ∈ l :: rest, l'.box = b ∧ annotated names l' = true := ⟨l, by simp, hb, ha⟩
          rw [if_neg hr, if_pos hb, if_pos this]
        · have : ¬ ∃ l' ∈ l :: rest, l'.box = b ∧ annotated names l' = true := by
            rintro ⟨l', h1, h2, h3⟩
            simp only [List.mem_cons] at h1
            rcases h1 with h1 | h1
            · subst h1; exact hb h2
            · exact hr ⟨l', h1, h2, h3⟩
          rw [if_neg hr, if_neg hb, if_neg this]
    · have ha' : (kept names l && decide (l.kind ≠ .attachment)) = false := by
        simpa [annotated] using ha
      simp only [addLinks, ha', Bool.false_eq_true, if_false]
      rw [ih]
      have : (∃ l' ∈ l :: rest, l'.box = b ∧ annotated names l' = true) ↔
          (∃ l' ∈ rest, l'.box = b ∧ annotated names l' = true) := by
        constructor
        · rintro ⟨l', h1, h2, h3⟩
          simp only [List.mem_cons] at h1
          rcases h1 with h1 | h1
          · subst h1; exact absurd h3 ha
          · exact ⟨l', h1, h2, h3⟩
        · rintro ⟨l', h1, h2⟩; exact ⟨l', by simp [h1], h2⟩
      simp only [this]

theorem annotOf_clearAnnot (st : Annots) (box b : Nat) :
    annotOf (clearAnnot st box) b = if box = b then none else annotOf st b := by
  induction st with
  | nil => by_cases h : box = b <;> simp [clearAnnot, annotOf, h]
  | cons e rest ih =>
    obtain ⟨b', p'⟩ := e
    have ih' : annotOf (List.filter (fun e => decide (e.1 ≠ box)) rest) b = if box = b then none else annotOf rest b := ih
    by_cases h1 : b' = box
    · subst h1
      by_cases h2 : b' = b
      · simp [clearAnnot, h2]
        simpa [h2] using ih'
      · simp only [clearAnnot, ne_eq, not_true_eq_false, decide_false, Bool.false_eq_true, not_false_eq_true,
          List.filter_cons_of_neg, annotOf, h2, if_false]
        simpa [h2] using ih'
    · by_cases h2 : b' = b
      · subst h2
        have h3 : ¬ box = b' := fun e => h1 e.symm
        simp [clearAnnot, annotOf, h1, h3]
      · simp only [clearAnnot, ne_eq, h1, not_false_eq_true, decide_true, List.filter_cons_of_pos, annotOf, h2,
          if_false]
        exact ih'

/-- After the reset at the head of `generate_pdf`, a box of the page list holds nothing, any other box what it held. -/
theorem annotOf_resetLinks (links : List BoxLink) (st : Annots) (b : Nat) :
    annotOf (resetLinks st links) b = if ∃ l ∈ links, l.box = b then none else annotOf st b := by
  induction links generalizing st with
  | nil => simp [resetLinks]
  | cons l rest ih =>
    simp only [resetLinks]
    rw [ih, annotOf_clearAnnot]
    by_cases hr : ∃ l' ∈ rest, l'.box = b
    · have : ∃ l' ∈ l :: rest, l'.box = b := by obtain ⟨l', h1, h2⟩ := hr; exact ⟨l', by simp [h1], h2⟩
      rw [if_pos hr, if_pos this]
    · by_cases hb : l.box = b
      · have : ∃ l' ∈ l :: rest, l'.box = b := ⟨l, by simp, hb⟩
        rw [if_neg hr, if_pos hb, if_pos this]
      · have : ¬ ∃ l' ∈ l :: rest, l'.box = b := by
          rintro ⟨l', h1, h2⟩
          simp only [List.mem_cons] at h1
          rcases h1 with h1 | h1
          · subst h1; exact hb h2
          · exact hr ⟨l', h1, h2⟩
        rw [if_neg hr, if_neg hb, if_neg this]

/-- What a box of the page list holds when the pages are painted: an annotation of the PDF being written if one of
its links is annotated now, nothing otherwise — whatever earlier writes left. -/
theorem annotOf_write (pdf : Nat) (names : List String) (links : List BoxLink) (st : Annots) (l : BoxLink)
    (hl : l ∈ links) :
    annotOf (write pdf names links st).2 l.box =
      if ∃ l' ∈ links, l'.box = l.box ∧ annotated names l' = true then some pdf else none := by
  simp only [write]
  rw [annotOf_addLinks, annotOf_resetLinks]
  have : ∃ l' ∈ links, l'.box = l.box := ⟨l, hl, rfl⟩
  simp only [this, if_true]

/-- **write_tags_current** (full strength since 974ea74; was `write_tags_current_partial`, under the hypothesis that no
earlier write touched the boxes or that no link of the page list is dropped — known finding `stale-link-annotation`,
now fixed): every `Link` tag of a write refers to an annotation of the PDF being written, whatever was written
before. -/
theorem write_tags_current (pdf : Nat) (names : List String) (links : List BoxLink) (st : Annots) :
    ∀ t ∈ (write pdf names links st).1, t.2 = pdf := by
  intro t ht
  have hw : (write pdf names links st).1 = tagged (write pdf names links st).2 links := rfl
  rw [hw] at ht
  simp only [tagged, List.mem_filterMap] at ht
  obtain ⟨l, hl, hl2⟩ := ht
  rw [annotOf_write pdf names links st l hl] at hl2
  by_cases h : ∃ l' ∈ links, l'.box = l.box ∧ annotated names l' = true
  · simp only [h, if_true, Option.map_some, Option.some.injEq] at hl2
    subst hl2; rfl
  · simp [h] at hl2

/-- **write_history_independent**: the tags of a write are those of the same write on boxes nothing was ever written
from — the painted `Link` structure of a `write_pdf` does not depend on the earlier `write_pdf` calls (of this
`Document`, of a copy sharing its pages) at all. -/
theorem write_history_independent (pdf : Nat) (names : List String) (links : List BoxLink) (st : Annots) :
    (write pdf names links st).1 = (write pdf names links []).1 := by
  have hw : ∀ s, (write pdf names links s).1 = tagged (write pdf names links s).2 links := fun _ => rfl
  rw [hw st, hw []]
  simp only [tagged]
  apply List.filterMap_congr
  intro l hl
  rw [annotOf_write pdf names links st l hl, annotOf_write pdf names links [] l hl]

/-- The same page list written twice (the same `Document`, `write_pdf` called again) tags the same boxes; the second
time all of them refer to the second PDF (`write_tags_current`). -/
theorem write_twice_same_boxes (p1 p2 : Nat) (names : List String) (links : List BoxLink) (st : Annots) :
    ((write p2 names links (write p1 names links st).2).1).map (·.1) = ((write p1 names links st).1).map (·.1) := by
  have hw : ∀ p s, (write p names links s).1 = tagged (write p names links s).2 links := fun _ _ => rfl
  rw [hw p2, hw p1]
  simp only [tagged, List.map_filterMap]
  apply List.filterMap_congr
  intro l hl
  rw [annotOf_write p2 names links _ l hl, annotOf_write p1 names links st l hl]
  by_cases h : ∃ l' ∈ links, l'.box = l.box ∧ annotated names l' = true
  · simp [h]
  · simp only [h, if_false]

/-- **writes_history_independent** (document level): in any history of `write_pdf` calls over the same boxes — the
`Document` itself written repeatedly, copies of any selections, in any order — the `Link` tags of the `i`-th write are
those of that write made alone on fresh boxes; in particular they all refer to its own PDF.  (This is the function the
`write-state` correspondence section compares with the real `write_pdf` sequence.) -/
theorem writes_history_independent (pdf : Nat) (st : Annots) (ws : List (List String × List BoxLink)) (i : Nat)
    (w : List String × List BoxLink) (hw : ws[i]? = some w) :
    (runWrites pdf st ws)[i]? = some (write (pdf + i) w.1 w.2 []).1 := by
  induction ws generalizing pdf st i with
  | nil => simp at hw
  | cons w0 rest ih =>
    cases i with
    | zero =>
      simp only [List.getElem?_cons_zero, Option.some.injEq] at hw
      subst hw
      simp only [runWrites, List.getElem?_cons_zero, Nat.add_zero]
      rw [write_history_independent]
    | succ j =>
      simp only [List.getElem?_cons_succ] at hw
      simp only [runWrites, List.getElem?_cons_succ]
      rw [ih (pdf + 1) _ j hw]
      have : pdf + 1 + j = pdf + (j + 1) := by omega
      rw [this]

theorem writes_tags_current (pdf : Nat) (st : Annots) (ws : List (List String × List BoxLink)) (i : Nat)
    (tags : List (Nat × Nat)) (h : (runWrites pdf st ws)[i]? = some tags) : ∀ t ∈ tags, t.2 = pdf + i := by
  have hlen : ∀ (ws : List (List String × List BoxLink)) (pdf : Nat) (st : Annots),
      (runWrites pdf st ws).length = ws.length := by
    intro ws
    induction ws with
    | nil => intro pdf st; rfl
    | cons w rest ih => intro pdf st; simp [runWrites, ih]
  have hi : i < ws.length := by
    have := (List.getElem?_eq_some_iff.mp h).1
    rwa [hlen] at this
  have hw : ws[i]? = some ws[i] := List.getElem?_eq_getElem hi
  rw [writes_history_independent pdf st ws i _ hw] at h
  cases h
  exact write_tags_current _ _ _ _

example : (write 1 ["a"] [⟨1, .internal, "a"⟩, ⟨2, .external, "u"⟩] []).1 = [(1, 1), (2, 1)] := by decide

/-- Non-vacuity: whole document, then the copy of its first page, then the whole document again. -/
example :
    let page1 : List BoxLink := [⟨7, .internal, "b"⟩, ⟨8, .external, "u"⟩]
    runWrites 1 [] [(["b"], page1), ([], page1), (["b"], page1)] =
      [[(7, 1), (8, 1)], [(8, 2)], [(7, 3), (8, 3)]] := by decide

/-- Regression example for the repaired `stale-link-annotation` (the input of the former witness
`stale_annotation_after_full_write`): page 1 links to an anchor `b` on page 2.  Writing the whole document (PDF 1) and
then the copy of page 1 alone (PDF 2: `b` is not anchored, `resolve_links` drops the link) tags nothing in PDF 2 — as
when the copy is written first. -/
example :
    let page1 := [(⟨7, .internal, "b"⟩ : BoxLink)]
    let full := write 1 ["b"] page1 []
    full.1 = [(7, 1)] ∧ (write 2 [] page1 full.2).1 = [] ∧ (write 2 [] page1 []).1 = [] := by decide

/-! ### tie between the two models of `add_links` (coordinates in `Model/PdfZoom`, box state in `Model/WriteState`) -/

/-- A link of a page: the identity of its box (`WriteState`) and its rectangle (`PdfZoom`). -/
def asLink (l : BoxLink × Rect) : Link := ⟨l.1.kind, l.1.target, l.2⟩

/-- `resolve_links` keeps the same links in both models. -/
theorem keepLink_eq_kept (names : List String) (l : BoxLink × Rect) : keepLink names (asLink l) = kept names l.1 := rfl

/-- **The annotations written for a page are exactly those of the links whose box `add_links` annotates**, in order:
the `/Annots` of `Model/PdfZoom.annots` after `resolve_links` and the `box.link_annotation` stores of
`Model/WriteState.addLinks` select the same links. -/
theorem annots_eq_annotated (m : PdfZoom.Matrix) (names : List String) (ls : List (BoxLink × Rect)) :
    PdfZoom.annots m ((ls.map asLink).filter (keepLink names)) =
      (ls.filter (fun l => annotated names l.1)).map (fun l => ⟨l.1.kind, l.1.target, PdfZoom.linkRect m l.2⟩) := by
  induction ls with
  | nil => rfl
  | cons l rest ih =>
    have ih' := ih
    simp only [PdfZoom.annots] at ih' ⊢
    simp only [List.map_cons, List.filter_cons]
    by_cases hk : kept names l.1 = true
    · have hk' : keepLink names (asLink l) = true := by rw [keepLink_eq_kept]; exact hk
      by_cases ha : l.1.kind = .attachment
      · have h1 : decide ((asLink l).kind ≠ .attachment) = false := by simp [asLink, ha]
        have h2 : annotated names l.1 = false := by simp [annotated, ha]
        simp only [hk', if_true, List.filter_cons, h1, h2, Bool.false_eq_true, if_false]
        exact ih'
      · have h1 : decide ((asLink l).kind ≠ .attachment) = true := by simp [asLink, ha]
        have h2 : annotated names l.1 = true := by simp [annotated, hk, ha]
        simp only [hk', if_true, List.filter_cons, h1, h2, List.map_cons, List.cons.injEq]
        exact ⟨rfl, ih'⟩
    · have hk' : keepLink names (asLink l) = false := by
        rw [keepLink_eq_kept]; simpa using hk
      have h2 : annotated names l.1 = false := by
        have : kept names l.1 = false := by simpa using hk
        simp [annotated, this]
      simp only [hk', h2, Bool.false_eq_true, if_false]
      exact ih'

/-- **A box is tagged `Link` in a PDF iff that PDF holds a link annotation for one of its links** — whatever was
written before: every `OBJR` that `pdfua` emits refers to an annotation object of the same file. -/
theorem tagged_iff_annotated (pdf : Nat) (names : List String) (links : List BoxLink) (st : Annots) (b : Nat) :
    (b, pdf) ∈ (write pdf names links st).1 ↔ ∃ l ∈ links, l.box = b ∧ annotated names l = true := by
  have hw : (write pdf names links st).1 = tagged (write pdf names links st).2 links := rfl
  rw [hw]
  simp only [tagged, List.mem_filterMap]
  constructor
  · rintro ⟨l, hl, h⟩
    rw [annotOf_write pdf names links st l hl] at h
    by_cases hx : ∃ l' ∈ links, l'.box = l.box ∧ annotated names l' = true
    · simp only [hx, if_true, Option.map_some, Option.some.injEq, Prod.mk.injEq] at h
      obtain ⟨l', h1, h2, h3⟩ := hx
      exact ⟨l', h1, h2.trans h.1, h3⟩
    · simp [hx] at h
  · rintro ⟨l, hl, hb, ha⟩
    refine ⟨l, hl, ?_⟩
    rw [annotOf_write pdf names links st l hl]
    have : ∃ l' ∈ links, l'.box = l.box ∧ annotated names l' = true := ⟨l, hl, rfl, ha⟩
    rw [if_pos this, hb]
    rfl

example : PdfZoom.annots (PdfZoom.pageMatrix 1 ⟨10, 10, ⟨0, 0, 0, 0⟩, [], [], []⟩)
      (([(⟨1, .internal, "a"⟩, ⟨0, 0, 1, 1⟩), (⟨2, .internal, "zz"⟩, ⟨0, 0, 1, 1⟩),
         (⟨3, .attachment, "f"⟩, ⟨0, 0, 1, 1⟩)].map asLink).filter (keepLink ["a"])) =
    [⟨.internal, "a", ⟨0, 10, 1, 9⟩⟩] := by decide +kernel

end links

/-! ## 4 raster image data across `get_x_object` calls -/
section raster
open Wp.WriteState

/-- With `dpi_ratio == 1` the image object is not modified and what is embedded has the declared size of the stored
data as long as no thumbnail was ever computed. -/
theorem ratio_one_pure (r : WriteState.Raster) : (getXObject r none).2 = r ∧ (getXObject r none).1.data = r.data := ⟨rfl, rfl⟩

/-- Any number of ratio-1 uses of a fresh image embed the original data at the original size: without the `dpi`
option writing is repeatable for images. -/
theorem fresh_ratio_one_repeatable (w h : Nat) (n : Nat) :
    getXObjects (fresh w h) (List.replicate n none) = List.replicate n ⟨w, h, ⟨0, w, h⟩⟩ := by
  induction n with
  | zero => rfl
  | succ n ih => simp only [List.replicate_succ, getXObjects, getXObject]; exact congrArg _ ih

/-- Every thumbnail call stores a new generation of data: the number of re-encodings the embedded data went through
is the number of thumbnail calls so far — it depends on the history of the object, not on the call. -/
theorem thumbnail_generation (r : WriteState.Raster) (t : Nat × Nat) :
    (getXObject r (some t)).2.data.generation = r.data.generation + 1 ∧
    (getXObject r (some t)).1.data.generation = r.data.generation + 1 := ⟨rfl, rfl⟩

end raster

/-! ## 5 a render does not depend on how many renders came before -/
section shift
open Wp.RenderState

/-- Renaming of identities: everything created from `n` on is moved up by `k`; the caller's objects (below `n`) stay. -/
def sh (n k id : Nat) : Nat := if n ≤ id then id + k else id

def shEv (n k : Nat) : Ev → Ev
  | .alloc kd id => .alloc kd (sh n k id)
  | .readGlobal g => .readGlobal g
  | .writeObj id => .writeObj (sh n k id)
  | .writeFont id => .writeFont (sh n k id)

def shOut (n k : Nat) (o : RenderOut) : RenderOut :=
  { events := o.events.map (shEv n k), next := o.next + k, fontConfig := sh n k o.fontConfig,
    counterStyle := sh n k o.counterStyle, cache := sh n k o.cache, targetCollector := sh n k o.targetCollector,
    styleFor := sh n k o.styleFor, context := sh n k o.context, userSheets := o.userSheets.map (sh n k),
    document := sh n k o.document }

private theorem sh_ge {n k x : Nat} (h : n ≤ x) : sh n k x = x + k := by simp [sh, h]
private theorem sh_lt {n k x : Nat} (h : x < n) : sh n k x = x := by
  have : ¬ n ≤ x := by omega
  simp [sh, this]

private theorem orNew_shift (n k : Nat) (kd : Kind) (b : Nat) (o : Option Nat) (hb : n ≤ b)
    (ho : ∀ id ∈ o, id < n) :
    orNew kd (b + k) o = ((orNew kd b o).1.map (shEv n k), sh n k (orNew kd b o).2.1, (orNew kd b o).2.2 + k) ∧
    b ≤ (orNew kd b o).2.2 := by
  cases o with
  | some id => simp [orNew, sh_lt (ho id rfl)]
  | none => simp [orNew, shEv, sh_ge hb]; omega

private theorem cacheStep_shift (n k b : Nat) (c : CacheOpt) (hb : n ≤ b)
    (hc : ∀ id, (c = .dict id ∨ c = .diskCache id) → id < n) :
    cacheStep (b + k) c = ((cacheStep b c).1.map (shEv n k), sh n k (cacheStep b c).2.1, (cacheStep b c).2.2 + k) ∧
    b ≤ (cacheStep b c).2.2 := by
  cases c with
  | none => simp [cacheStep, shEv, sh_ge hb]; omega
  | dict id => simp [cacheStep, sh_lt (hc id (Or.inl rfl))]
  | diskCache id => simp [cacheStep, sh_lt (hc id (Or.inr rfl))]
  | folder => simp [cacheStep, shEv, sh_ge hb]; omega

private theorem userSheets_shift (n k : Nat) (ss : List Sheet) (b : Nat) (hb : n ≤ b)
    (hs : ∀ id, Sheet.css id ∈ ss → id < n) :
    userSheets (b + k) ss =
      ((userSheets b ss).1.map (shEv n k), (userSheets b ss).2.1.map (sh n k), (userSheets b ss).2.2 + k) ∧
    b ≤ (userSheets b ss).2.2 := by
  induction ss generalizing b with
  | nil => simp [userSheets]
  | cons s rest ih =>
    cases s with
    | css id =>
      obtain ⟨h1, h2⟩ := ih b hb (fun id' h => hs id' (by simp [h]))
      simp only [userSheets, h1, List.map_cons, sh_lt (hs id (by simp))]
      exact ⟨trivial, h2⟩
    | raw =>
      obtain ⟨h1, h2⟩ := ih (b + 1) (by omega) (fun id' h => hs id' (by simp [h]))
      have e : b + k + 1 = b + 1 + k := by omega
      simp only [userSheets, e, h1, List.map_cons, shEv, sh_ge hb]
      exact ⟨trivial, by omega⟩

/-- **render_history_independent**: the outcome of a render — its events, and every object its `LayoutContext` and
`Document` hold — is the same whatever the number of objects created before it (i.e. whatever renders preceded it in
the process), up to the renaming of the identities it creates itself; the caller's objects are not renamed. -/
theorem render_history_independent (n k : Nat) (i : RenderIn) (hc : ∀ id ∈ callerObjects i, id < n) :
    render (n + k) i = shOut n k (render n i) := by
  have hf : ∀ id ∈ i.fontConfig, id < n := by
    intro id h; exact hc id (by simp [callerObjects, Option.mem_def.mp h])
  have hcs : ∀ id ∈ i.counterStyle, id < n := by
    intro id h; exact hc id (by simp [callerObjects, Option.mem_def.mp h])
  have hk : ∀ id, (i.cache = .dict id ∨ i.cache = .diskCache id) → id < n := by
    intro id h; apply hc id
    rcases h with h | h <;> simp [callerObjects, h]
  have hs : ∀ id, Sheet.css id ∈ i.stylesheets.getD [] → id < n := by
    intro id h; apply hc id
    simp only [callerObjects, List.mem_append, List.mem_filterMap]
    exact Or.inr ⟨.css id, h, rfl⟩
  have e0 : n + k + 1 = n + 1 + k := by omega
  obtain ⟨f1, f2⟩ := orNew_shift n k .fontConfig (n + 1) i.fontConfig (by omega) hf
  obtain ⟨c1, c2⟩ := orNew_shift n k .counterStyle (orNew .fontConfig (n + 1) i.fontConfig).2.2 i.counterStyle
    (by omega) hcs
  have e1 : ∀ x : Nat, x + k + 2 = x + 2 + k := by intro x; omega
  obtain ⟨k1, k2⟩ := cacheStep_shift n k ((orNew .counterStyle (orNew .fontConfig (n + 1) i.fontConfig).2.2
    i.counterStyle).2.2 + 2) i.cache (by omega) hk
  obtain ⟨u1, u2⟩ := userSheets_shift n k (i.stylesheets.getD []) (cacheStep ((orNew .counterStyle
    (orNew .fontConfig (n + 1) i.fontConfig).2.2 i.counterStyle).2.2 + 2) i.cache).2.2 (by omega) hs
  have g1 : n ≤ (orNew .counterStyle (orNew .fontConfig (n + 1) i.fontConfig).2.2 i.counterStyle).2.2 := by omega
  have g2 : n ≤ (userSheets (cacheStep ((orNew .counterStyle (orNew .fontConfig (n + 1) i.fontConfig).2.2
    i.counterStyle).2.2 + 2) i.cache).2.2 (i.stylesheets.getD [])).2.2 := by omega
  have gn : n ≤ n := Nat.le_refl n
  unfold render shOut
  simp only [e0, f1, c1, e1, k1, u1]
  cases i.docFontFaces <;>
    simp [shEv, sh_ge gn, sh_ge g1, sh_ge g2, sh_ge (Nat.le_trans g1 (Nat.le_succ _)),
      sh_ge (show n ≤ _ + 1 from Nat.le_succ_of_le g2), sh_ge (show n ≤ _ + 2 from Nat.le_add_right_of_le g2),
      sh_ge (show n ≤ _ + 3 from Nat.le_add_right_of_le g2), sh_ge (show n ≤ _ + 4 from Nat.le_add_right_of_le g2),
      sh_ge (show n ≤ _ + 5 from Nat.le_add_right_of_le g2)] <;> omega

example : ∀ id ∈ callerObjects ⟨some 1, none, .dict 2, some [.css 3, .raw], true⟩, id < 1000 := by decide

end shift

end Wp.C19
