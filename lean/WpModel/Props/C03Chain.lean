/-
C03 — continued boxes have no bottom decoration of their own (all documents, all pages).

The clause "a fragmented box's own bottom padding/border also fits" was carried by a Python oracle
(`c03.decoration_overflow`) on the fragments that are continued on the next page. For `box-decoration-break: slice`
(the default) it is now a theorem about every document of the model: a continued box has no bottom margin, padding
or border left at all, so its border box ends where its content box ends; only boxes that *clone* their decorations
keep them (and for those `prepare` reserves the room in `bottom_space`, see `C03Geo.fragment_height_clone`).
-/
import WpModel.Lemmas.ChainCut

namespace Wp.C03Chain
open Wp Wp.PM

/-- **Layout level**: the box returned with a resume position, and every box on the chain of last children that
the resume position descends into, has lost its bottom decoration or clones it. -/
theorem layout_chain_cut (box : PBox) (c : Ctx) (idx : Nat) (y bs : Rat) (skip : Option Resume) (cb pie : Bool)
    (adjL : List Rat) (f : Frag) (r : Resume)
    (hf : (layoutBox c box idx y bs skip cb pie adjL).frag = some f)
    (hr : (layoutBox c box idx y bs skip cb pie adjL).resume = some r) : ChainCut f r :=
  box_chain box c idx y bs skip cb pie adjL f r hf hr

/-- The head of the chain. -/
theorem chainCut_head (f : Frag) (r : Resume) (h : ChainCut f r) : EndCutGeo f.st f.geo := by
  cases f with
  | para id idx st n g lines => simpa [ChainCut, Frag.st, Frag.geo] using h
  | block id idx st g kids => simp only [ChainCut] at h; simpa [Frag.st, Frag.geo] using h.1

/-- One step down the chain: the last child of a box continued *inside* one of its children. -/
theorem chainCut_step (id idx : Nat) (st : PStyle) (g : Geo) (kids : List Frag) (i : Nat) (r' : Resume)
    (h : ChainCut (.block id idx st g kids) (.node i (some r'))) : ChainCutLast kids r' := by
  simp only [ChainCut] at h
  exact h.2

/-- With `box-decoration-break: slice`: no bottom margin, padding, border; the border box ends with the content. -/
theorem slice_continued_no_decoration (f : Frag) (r : Resume) (h : ChainCut f r) (hs : f.st.clone = false) :
    f.geo.mb = 0 ∧ f.geo.pb = 0 ∧ f.geo.bb = 0 ∧
    f.geo.borderBoxY + f.geo.borderHeight = f.geo.contentBoxY + f.geo.h := by
  rcases chainCut_head f r h with hc | ⟨h1, h2, h3⟩
  · rw [hs] at hc; cases hc
  · refine ⟨h1, h2, h3, ?_⟩
    simp only [Geo.borderBoxY, Geo.borderHeight, Geo.contentBoxY, h2, h3]; grind

/-- **Page level**: on every non-blank page that is followed by another one, the root fragment and the whole chain
of boxes continued on the next page are cut. -/
theorem remakePage_chain_cut (d : Doc) (index : Nat) (resume : Option Resume) (np : NextPage) (right : Bool)
    (p : Page) (hp : remakePage d index resume np right = some p) (hb : p.type.blank = false)
    (r : Resume) (hr : p.resume = some r) : ChainCut p.root r := by
  obtain ⟨c, _, hf, hres⟩ := remakePage_root d index resume np right p hp
  rw [hres hb] at hr
  exact box_chain _ c 0 0 0 resume false true [] p.root r hf hr

/-- **Document level**: the same for every page of every pagination. -/
theorem paginate_chain_cut (d : Doc) (fuel : Nat) (pages : List Page) (h : paginate d fuel = some pages) :
    ∀ p ∈ pages, p.type.blank = false → ∀ r, p.resume = some r → ChainCut p.root r := by
  have key : ∀ (fuel index : Nat) (resume : Option Resume) (np : NextPage) (right : Bool) (pages : List Page),
      makeAllPages d fuel index resume np right = some pages →
      ∀ p ∈ pages, p.type.blank = false → ∀ r, p.resume = some r → ChainCut p.root r := by
    intro fuel
    induction fuel with
    | zero => intro index resume np right pages h; simp [makeAllPages] at h
    | succ fuel ih =>
      intro index resume np right pages h
      simp only [makeAllPages] at h
      split at h
      · cases h
      · rename_i p hp
        have hpage := remakePage_chain_cut d index resume np right p hp
        split at h
        · simp only [Option.some.injEq] at h
          subst h
          intro q hq
          simp only [List.mem_singleton] at hq
          subst hq
          exact hpage
        · split at h
          · rename_i ps hps
            simp only [Option.some.injEq] at h
            subst h
            intro q hq
            rcases List.mem_cons.mp hq with rfl | hq
            · exact hpage
            · exact ih _ _ _ _ ps hps q hq
          · cases h
  exact key fuel 0 none _ _ pages h

/-! Non-vacuity (45px pages, 10px lines): a block with `padding-bottom: 5px; border-bottom: 2px; margin-bottom: 3px`
holding a block with `padding-bottom: 4px` holding nine lines. Three pages; on the first two both boxes are
continued and show no bottom decoration, on the last one they end and show all of it. A cloning outer box keeps
its decoration on every page. Per page: (outer mb, pb, bb), (inner pb), continued?. -/
def chainDoc (clone : Bool) : Doc :=
  { pageH := 45, rootLtr := true,
    root := .block 0 { plainSt with isRoot := true }
      [.block 1 { plainSt with pb := 5, bb := 2, mb := 3, clone := clone }
        [.block 2 { plainSt with pb := 4 } [.para 3 9 10 plainSt]]] }

def chainSummary (d : Doc) : Option (List ((Rat × Rat × Rat) × Rat × Bool)) :=
  (paginate d 10).map (fun ps => ps.map (fun p =>
    match p.root with
    | .block _ _ _ _ [.block _ _ _ g1 [.block _ _ _ g2 _]] => ((g1.mb, g1.pb, g1.bb), g2.pb, p.resume.isSome)
    | _ => ((0, 0, 0), 0, false)))

example : chainSummary (chainDoc false) =
    some [((0, 0, 0), 0, true), ((0, 0, 0), 0, true), ((3, 5, 2), 4, false)] := by decide +kernel

example : chainSummary (chainDoc true) =
    some [((3, 5, 2), 0, true), ((3, 5, 2), 0, true), ((3, 5, 2), 4, false)] := by decide +kernel

end Wp.C03Chain
